import ExprModel.Proofs.RefineLoopDrv
/-
C01 stage B: the counting builtins `count` and `one` (scope variable `count`, `emitCond` around `OpInc`).
-/
set_option linter.unusedVariables false
set_option linter.unusedSimpArgs false
namespace ExprModel.Refine
open ExprModel
open ExprModel.Spec
open ExprModel.Spec.SML

variable {c : Cfg} {P : LProg} {ctx : Ctx}

def fbCount (sc : SCfg) (ctx : Ctx) (b : Node) (coll : Val) : Nat → Int → SM (Int ⊕ Val) :=
  fun i k => do
    if ← asBool (← eval sc ((coll, (i : Int)) :: ctx) b) then pure (.inl (k + 1)) else pure (.inl k)

theorem eval_bi_count (sc : SCfg) (m : Meta) (a b : Node) : eval sc ctx (.builtin m "count" [a, b]) = (do
    let coll ← eval sc ctx a
    let n ← SM.lift (lengthV coll)
    let r ← loopIdx (fbCount sc ctx b coll) n.toNat 0 (0 : Int)
    epiOf (fun k => pure (.int .int k)) r) := by
  have raw : eval sc ctx (.builtin m "count" [a, b]) = (do
      let coll ← eval sc ctx a
      let n ← SM.lift (lengthV coll)
      let r ← loopIdx (fbCount sc ctx b coll) n.toNat 0 (0 : Int)
      match r with
      | .inl k => pure (.int .int k)
      | .inr v => pure v) := rfl
  rw [raw]
  congr 1; funext coll; congr 1; funext n; congr 1; funext r; cases r <;> rfl

theorem eval_bi_one (sc : SCfg) (m : Meta) (a b : Node) : eval sc ctx (.builtin m "one" [a, b]) = (do
    let coll ← eval sc ctx a
    let n ← SM.lift (lengthV coll)
    let r ← loopIdx (fbCount sc ctx b coll) n.toNat 0 (0 : Int)
    epiOf (fun k => pure (.bool (k == 1))) r) := by
  have raw : eval sc ctx (.builtin m "one" [a, b]) = (do
      let coll ← eval sc ctx a
      let n ← SM.lift (lengthV coll)
      let r ← loopIdx (fbCount sc ctx b coll) n.toNat 0 (0 : Int)
      match r with
      | .inl k => pure (.bool (k == 1))
      | .inr v => pure v) := rfl
  rw [raw]
  congr 1; funext coll; congr 1; funext n; congr 1; funext r; cases r <;> rfl

/-- what `count` / `one` do with the closure's value -/
def postCount : Nat → Int → Val → SM (Int ⊕ Val) :=
  fun _ k x => do if ← asBool x then pure (.inl (k + 1)) else pure (.inl k)

theorem fbCount_post (sc : SCfg) (b : Node) (coll : Val) (i : Nat) (k : Int) :
    fbCount sc ctx b coll i k = (eval sc ((coll, (i : Int)) :: ctx) b >>= postCount i k) := rfl

theorem evalLoc_bi_count (sc : SCfg) (m : Meta) (a b : Node) : evalLoc sc ctx (.builtin m "count" [a, b]) = (do
    let coll ← evalLoc sc ctx a
    let n ← raisedAt m.loc (SM.lift (lengthV coll))
    let r ← loopIdxL (fbLoc sc ctx b m.loc postCount coll) n.toNat 0 (0 : Int)
    raisedAt m.loc (epiOf (fun k => pure (.int .int k)) r)) := by
  have raw : evalLoc sc ctx (.builtin m "count" [a, b]) = (do
      let coll ← evalLoc sc ctx a
      let n ← raisedAt m.loc (SM.lift (lengthV coll))
      let r ← loopIdxL (fbLoc sc ctx b m.loc postCount coll) n.toNat 0 (0 : Int)
      raisedAt m.loc (match r with
        | .inl k => pure (.int .int k)
        | .inr v => pure v)) := rfl
  rw [raw]
  congr 1; funext coll; congr 1; funext n; congr 1; funext r; congr 1; cases r <;> rfl

theorem evalLoc_bi_one (sc : SCfg) (m : Meta) (a b : Node) : evalLoc sc ctx (.builtin m "one" [a, b]) = (do
    let coll ← evalLoc sc ctx a
    let n ← raisedAt m.loc (SM.lift (lengthV coll))
    let r ← loopIdxL (fbLoc sc ctx b m.loc postCount coll) n.toNat 0 (0 : Int)
    raisedAt m.loc (epiOf (fun k => pure (.bool (k == 1))) r)) := by
  have raw : evalLoc sc ctx (.builtin m "one" [a, b]) = (do
      let coll ← evalLoc sc ctx a
      let n ← raisedAt m.loc (SM.lift (lengthV coll))
      let r ← loopIdxL (fbLoc sc ctx b m.loc postCount coll) n.toNat 0 (0 : Int)
      raisedAt m.loc (match r with
        | .inl k => pure (.bool (k == 1))
        | .inr v => pure v)) := rfl
  rw [raw]
  congr 1; funext coll; congr 1; funext n; congr 1; funext r; congr 1; cases r <;> rfl

/-- the counter in the loop's scope -/
def CountIs (sc : Scope) (j : Nat) (k : Int) : Prop :=
  lookupKv "count" sc = some (.int .int k) ∧ 0 ≤ k ∧ k ≤ j

theorem CountIs.set {sc j k key v} (hk : key = "i" ∨ key = "size" ∨ key = "array") (h : CountIs sc j k) :
    CountIs (scopeSet key v sc) j k := by
  refine ⟨?_, h.2⟩
  rw [lookup_set_other (by rcases hk with rfl | rfl | rfl <;> decide)]
  exact h.1

theorem pro_count {l : Loc} {c0 cc : Nat} (h0 : P.consts[c0]? = some (.int .int 0)) (hcc : P.consts[cc]? = some (.str "count"))
    (k : Nat) (st : List Val) (scs : List Scope) (σ : SState) (coll : Val)
    (h : CodeAt P k [li l .begin_, li l .push c0, li l .store cc]) :
    ∃ sc0 : Scope, lookupKv "count" sc0 = some (.int .int 0) ∧ Reach c P (vm k (coll :: st) scs σ c.budget)
      (vm (k + lsize [li l .begin_, li l .push c0, li l .store cc]) (coll :: st) (sc0 :: scs) σ c.budget) := by
  refine ⟨scopeSet "count" (.int .int 0) [], lookup_set_same _ _ _, ?_⟩
  as_runs
  exact Runs.begin_ h (Runs.push h.tail1 h0 (Runs.store h.tail1.tail3 hcc ((Reach.refl _).to_ip (by ip_arith))))

theorem fbCount_no_exit {sc : SCfg} {b : Node} {coll : Val} {i : Nat} {k : Int} {σ0 σ : SState} {v : Val}
    (h : fbCount sc ctx b coll i k σ0 = (.ok (.inr v), σ)) : False := by
  unfold fbCount at h
  rcases SM.bind_cases h with ⟨e, _, he⟩ | ⟨x, σ1, _, hrest⟩
  · cases he
  · rcases SM.bind_cases hrest with ⟨e, _, he⟩ | ⟨t, σ2, _, hrest2⟩
    · cases he
    · cases t <;> simp at hrest2

/-- the per-element code of `count` / `one` -/
theorem hbody_count {b : Node} {cb EPI : List LInstr} {l : Loc} {ci cs car c0 cc : Nat}
    (hb : ∀ ctx', Sim c P ctx' b cb) (hcc : P.consts[cc]? = some (.str "count"))
    (coll : Val) (N k0 : Nat) (st : List Val) (scs : List Scope)
    (hle : CodeAt P k0 (loopCode l ci cs car c0 (cb ++ emitCond l [li l .inc cc]) ++ EPI)) (hN : (N : Int) < 2 ^ 63)
    (i : Nat) (acc : Int) (σ : SState) (res : R (Int ⊕ Val)) (σ1 : SState) (sc : Scope) (hiN : i < N)
    (hbase : Base sc coll N i) (hex : CountIs sc i acc) (hfb : fbCount (specOf c) ctx b coll i acc σ = (res, σ1))
    (hBL : BAt P.blame (fbLoc (specOf c) ctx b l postCount coll i acc) σ) :
    BodyPost c P (fun _ => []) CountIs coll N i (k0 + 24 + lsize (cb ++ emitCond l [li l .inc cc]))
      (k0 + 32 + lsize (cb ++ emitCond l [li l .inc cc])) st scs
      (vm (k0 + 24) ([] ++ st) (sc :: scs) σ c.budget) res σ1 := by
  have hbody := loopCode_body hle
  have hcond : CodeAt P (k0 + 24 + lsize cb)
      ([li l .jumpIfFalse (1 + lsize [li l .inc cc] + 3), li l .pop] ++ [li l .inc cc] ++ [li l .jump 1, li l .pop]) := hbody.right
  have hj := hcond.left.left
  have hinc := hcond.left.right
  have hjmp := hcond.right
  unfold fbCount at hfb
  unfold BodyPost
  unfold fbLoc at hBL
  rcases SM.bind_cases hfb with ⟨e, hxe, rfl⟩ | ⟨x, σ2, hxv, hrest⟩
  · exact hb _ _ st (sc :: scs) σ _ _ hbody.left (hbase.scopesOK ctx scs) hxe hBL.left
  · have r1 : Reach c P _ _ := hb _ _ st (sc :: scs) σ _ _ hbody.left (hbase.scopesOK ctx scs) hxv hBL.left
    have hbr : RBlame P l res := (hBL.right (evalLoc_of_ok hxv)).raised hrest
    by_cases hbv : ∃ t, x = .bool t
    · obtain ⟨t, rfl⟩ := hbv
      rw [asBool_bool, SM.bind_apply, SM.pure_apply] at hrest
      cases t
      · simp only [Bool.false_eq_true, if_false, SM.pure_apply] at hrest
        obtain ⟨rfl, rfl⟩ := Prod.mk.inj hrest
        refine ⟨sc, hbase, ⟨hex.1, hex.2.1, by have := hex.2.2; omega⟩, r1.trans ?_⟩
        as_runs
        refine Runs.jumpIfFalse_false hj ?_
        exact Runs.pop (hjmp.tail3.cast (by ip_arith)) ((Reach.refl _).to_ip (by ip_arith))
      · simp only [if_true, SM.pure_apply] at hrest
        obtain ⟨rfl, rfl⟩ := Prod.mk.inj hrest
        have hw : wrap .int (acc + 1) = acc + 1 := wrap_int_id (by have := hex.2.1; omega) (by have := hex.2.2; omega)
        refine ⟨scopeSet "count" (.int .int (acc + 1)) sc, ?_, ?_, r1.trans ?_⟩
        · exact ⟨by rw [lookup_set_other (by decide)]; exact hbase.array,
            by rw [lookup_set_other (by decide)]; exact hbase.size,
            by rw [lookup_set_other (by decide)]; exact hbase.idx⟩
        · exact ⟨lookup_set_same _ _ _, by have := hex.2.1; omega, by have := hex.2.2; omega⟩
        · as_runs
          refine Runs.jumpIfFalse_true hj (Runs.pop hj.tail3 ?_)
          refine Runs.inc (hinc.cast (by ip_arith)) hcc hex.1 ?_
          rw [hw]
          exact Runs.jump (hjmp.cast (by ip_arith)) ((Reach.refl _).to_ip (by ip_arith))
    · have hnb : ∀ t, x ≠ .bool t := fun t h => hbv ⟨t, h⟩
      rw [asBool_other hnb, SM.bind_apply, SM.fail_apply] at hrest
      obtain ⟨rfl, rfl⟩ := Prod.mk.inj hrest
      exact r1.trans_err (Runs.jumpIf_err (.inr rfl) hj hnb (hbr _ rfl))

theorem equalV_int (a b : Int) : equalV (.int .int a) (.int .int b) = (a == b) := rfl

theorem sim_count {m : Meta} {a b : Node} {ca cb : List LInstr} {ci cs car c0 cc : Nat}
    (ha : Sim c P ctx a ca) (hb : ∀ ctx', Sim c P ctx' b cb) (hsmall : SmallColl c a) (hK : LoopK P.consts ci cs car c0)
    (hcc : P.consts[cc]? = some (.str "count")) :
    Sim c P ctx (.builtin m "count" [a, b])
      (ca ++ [li m.loc .begin_, li m.loc .push c0, li m.loc .store cc] ++
        emitLoop m.loc ci cs car c0 (cb ++ emitCond m.loc [li m.loc .inc cc]) ++ [li m.loc .load cc, li m.loc .end_]) := by
  refine sim_loop m.loc (fbCount (specOf c) ctx b) (fun _ k => pure (.int .int k)) (0 : Int) (fun _ => [])
    CountIs (fun _ => postCount) (fun coll i k => fbCount_post _ b coll i k) (eval_bi_count _ m a b) (evalLoc_bi_count _ m a b) ha hsmall hK rfl (fun sc j acc k v hk h => h.set hk) ?_
    (fun coll N k0 st scs hle hN i acc σ res σ1 sc hiN hbase hex hfb hbr =>
      hbody_count hb hcc coll N k0 st scs hle hN i acc σ res σ1 sc hiN hbase hex hfb hbr) ?_
    (fun k st scs σ sc' v h hex => by obtain ⟨_, _, _, _, h⟩ := hex; exact (fbCount_no_exit h).elim)
  · intro k st scs σ coll h
    obtain ⟨sc0, h0, hr⟩ := pro_count (c := c) hK.zero hcc k st scs σ coll h
    exact ⟨sc0, ⟨h0, by omega, by omega⟩, hr⟩
  · intro coll N k st scs σ sc' accF r σ' h hbase hex hev _
    rw [SM.pure_apply] at hev
    obtain ⟨rfl, rfl⟩ := Prod.mk.inj hev
    refine Runs.load h hcc ?_
    simp only [hex.1, Option.getD_some]
    exact Runs.end_ h.tail3 ((Reach.refl _).to_ip (by ip_arith))

theorem sim_one {m : Meta} {a b : Node} {ca cb : List LInstr} {ci cs car c0 cc c1 : Nat}
    (ha : Sim c P ctx a ca) (hb : ∀ ctx', Sim c P ctx' b cb) (hsmall : SmallColl c a) (hK : LoopK P.consts ci cs car c0)
    (hcc : P.consts[cc]? = some (.str "count")) (hc1 : P.consts[c1]? = some (.int .int 1)) :
    Sim c P ctx (.builtin m "one" [a, b])
      (ca ++ [li m.loc .begin_, li m.loc .push c0, li m.loc .store cc] ++
        emitLoop m.loc ci cs car c0 (cb ++ emitCond m.loc [li m.loc .inc cc]) ++
        [li m.loc .load cc, li m.loc .push c1, li m.loc .equal, li m.loc .end_]) := by
  refine sim_loop m.loc (fbCount (specOf c) ctx b) (fun _ k => pure (.bool (k == 1))) (0 : Int) (fun _ => [])
    CountIs (fun _ => postCount) (fun coll i k => fbCount_post _ b coll i k) (eval_bi_one _ m a b) (evalLoc_bi_one _ m a b) ha hsmall hK rfl (fun sc j acc k v hk h => h.set hk) ?_
    (fun coll N k0 st scs hle hN i acc σ res σ1 sc hiN hbase hex hfb hbr =>
      hbody_count hb hcc coll N k0 st scs hle hN i acc σ res σ1 sc hiN hbase hex hfb hbr) ?_
    (fun k st scs σ sc' v h hex => by obtain ⟨_, _, _, _, h⟩ := hex; exact (fbCount_no_exit h).elim)
  · intro k st scs σ coll h
    obtain ⟨sc0, h0, hr⟩ := pro_count (c := c) hK.zero hcc k st scs σ coll h
    exact ⟨sc0, ⟨h0, by omega, by omega⟩, hr⟩
  · intro coll N k st scs σ sc' accF r σ' h hbase hex hev _
    rw [SM.pure_apply] at hev
    obtain ⟨rfl, rfl⟩ := Prod.mk.inj hev
    refine Runs.load h hcc ?_
    simp only [hex.1, Option.getD_some]
    refine Runs.push h.tail3 hc1 (Runs.equal h.tail3.tail3 ?_)
    rw [equalV_int]
    exact Runs.end_ h.tail3.tail3.tail1 ((Reach.refl _).to_ip (by ip_arith))

end ExprModel.Refine
