import ExprModel.VM.Step
/-
C13: the state a failing `step` reports carries `pp` = the `ip` the step started from
(`vm.pp = vm.ip` at the loop head; nothing else writes `pp`).
-/
namespace ExprModel

/-- Hoare triple for one VM action: a successful result satisfies `Q`, a failure reports `pp = q` -/
def Tri (q : Nat) {α : Type} (Q : α → Prop) : RV α → Prop
  | .ok a => Q a
  | .error (_, s') => s'.pp = q

variable {q : Nat}

theorem tri_bind {α β : Type} {Q : α → Prop} {R : β → Prop} {r : RV α} {k : α → RV β}
    (h : Tri q Q r) (hk : ∀ a, Q a → Tri q R (k a)) : Tri q R (r >>= k) := by
  cases r with
  | ok a => exact hk a h
  | error e => obtain ⟨_, s'⟩ := e; exact h

theorem tri_pure {α : Type} {Q : α → Prop} {a : α} (h : Q a) : Tri q Q (pure a : RV α) := h
theorem tri_failV {α : Type} {Q : α → Prop} {e : ErrClass} {s : VM} (h : s.pp = q) : Tri q Q (failV e s : RV α) := h
theorem tri_liftR {α : Type} {s : VM} (h : s.pp = q) (r : R α) : Tri q (fun _ => True) (liftR s r) := by
  cases r with
  | ok a => exact True.intro
  | error e => exact h

abbrev StQ (q : Nat) : VM → Prop := fun s => s.pp = q

theorem tri_pop {s : VM} (h : s.pp = q) : Tri q (fun p : Val × VM => p.2.pp = q) s.pop := by
  unfold VM.pop; split
  · exact h
  · exact h
theorem tri_pop2 {s : VM} (h : s.pp = q) : Tri q (fun p : Val × Val × VM => p.2.2.pp = q) s.pop2 := by
  unfold VM.pop2
  refine tri_bind (tri_pop h) (fun ⟨_, s1⟩ h1 => ?_)
  refine tri_bind (tri_pop h1) (fun ⟨_, s2⟩ h2 => ?_)
  exact h2
theorem tri_popN : ∀ (n : Nat) (s : VM) (acc : List Val), s.pp = q →
    Tri q (fun p : List Val × VM => p.2.pp = q) (VM.popN n s acc)
  | 0, s, acc, h => h
  | n + 1, s, acc, h => by
    unfold VM.popN
    exact tri_bind (tri_pop h) (fun ⟨_, s1⟩ h1 => tri_popN n s1 _ h1)
theorem tri_current {s : VM} (h : s.pp = q) : Tri q (fun _ => True) s.current := by
  unfold VM.current; split
  · exact True.intro
  · exact h
theorem tri_readArg {p : Prog} {s : VM} (h : s.pp = q) : Tri q (fun r : Nat × VM => r.2.pp = q) (readArg p s) := by
  unfold readArg; split
  · exact h
  · exact h
theorem tri_readConst {p : Prog} {s : VM} (h : s.pp = q) : Tri q (fun r : Val × VM => r.2.pp = q) (readConst p s) := by
  unfold readConst
  refine tri_bind (tri_readArg h) (fun ⟨_, s1⟩ h1 => ?_)
  dsimp only
  split
  · exact h1
  · exact h1

theorem tri_weaken {α : Type} {Q : α → Prop} {r : RV α} (h : Tri q Q r) : Tri q (fun _ => True) r := by
  cases r with
  | ok a => exact True.intro
  | error e => exact h

macro "pp_side" : tactic => `(tactic|
  first | assumption | (simp only [VM.push] at *; assumption) | (simp [VM.push] at *; assumption) | rfl)

macro "t_step" : tactic => `(tactic|
  first
    | exact True.intro
    | exact tri_failV (by pp_side)
    | exact tri_pure True.intro
    | (refine tri_bind (tri_pop2 (by pp_side)) (fun ⟨_, _, _⟩ _ => ?_) <;> try dsimp only)
    | (refine tri_bind (tri_pop (by pp_side)) (fun ⟨_, _⟩ _ => ?_) <;> try dsimp only)
    | (refine tri_bind (tri_popN _ _ _ (by pp_side)) (fun ⟨_, _⟩ _ => ?_) <;> try dsimp only)
    | (refine tri_bind (tri_readConst (by pp_side)) (fun ⟨_, _⟩ _ => ?_) <;> try dsimp only)
    | (refine tri_bind (tri_readArg (by pp_side)) (fun ⟨_, _⟩ _ => ?_) <;> try dsimp only)
    | (refine tri_bind (tri_current (by pp_side)) (fun _ _ => ?_) <;> try dsimp only)
    | (refine tri_bind (tri_liftR (by pp_side) _) (fun _ _ => ?_) <;> try dsimp only)
    | split)

theorem step_tri (c : Cfg) (p : Prog) (s : VM) : Tri s.ip (fun _ => True) (step c p s) := by
  unfold step
  simp only [bind_pure_comp]
  generalize hs : ({ s with pp := s.ip, ip := s.ip + 1 } : VM) = s0
  have h0 : s0.pp = s.ip := by rw [← hs]
  clear hs
  split
  · exact tri_failV h0
  · rename_i op _
    cases op <;> (dsimp only) <;> repeat' t_step

/-- **a failing step reports the state with `pp` = the offset of the opcode it was executing** -/
theorem step_error_pp {c : Cfg} {p : Prog} {s s' : VM} {e : ErrClass} (h : step c p s = .error (e, s')) :
    s'.pp = s.ip := by
  have := step_tri c p s
  rw [h] at this
  exact this

end ExprModel
