import ExprModel.Syntax.ParserLoc
/-
The parser commutes with forgetting locations: running it on the location-free tokens gives the
location-free result (tree, remaining tokens, error message).  Hence two token lists that differ only in
locations parse to trees that differ only in locations.
-/
namespace ExprModel.Parser

/-- forget the locations in a result -/
def Res.noLoc {α : Type} (g : α → α) : Res α → Res α
  | .ok a ts => .ok (g a) (noLocs ts)
  | .err e => .err ({}, e.2)
  | .fuel => .fuel

/-- `r'` is `r` without locations -/
def Sim {α : Type} (g : α → α) (r r' : Res α) : Prop := r' = r.noLoc g

theorem Sim.ok {α : Type} {g : α → α} {a a' : α} {ts ts' : List Token} (h1 : g a = a') (h2 : noLocs ts = ts') :
    Sim g (.ok a ts) (.ok a' ts') := by subst h1 h2; rfl

theorem Sim.err {α : Type} {g : α → α} (l l' : Loc) (m : String) (h : l' = {}) :
    Sim g (Res.err (l, m) : Res α) (.err (l', m)) := by subst h; rfl

theorem Sim.bind {α β : Type} {g1 : α → α} {g : β → β} {a a' : Res α} {k k' : α → List Token → Res β}
    (h : Sim g1 a a') (hk : ∀ x ts, Sim g (k x ts) (k' (g1 x) (noLocs ts))) : Sim g (a.bind k) (a'.bind k') := by
  unfold Sim at h; subst h
  cases a with
  | ok x ts => exact hk x ts
  | err e => rfl
  | fuel => rfl

theorem Sim.ite {α : Type} {g : α → α} {c : Prop} [Decidable c] {a a' b b' : Res α}
    (h1 : Sim g a a') (h2 : Sim g b b') : Sim g (if c then a else b) (if c then a' else b') := by
  split
  · exact h1
  · exact h2

@[simp] theorem noLoc_kind (t : Token) : (Token.noLoc t).kind = t.kind := rfl
@[simp] theorem noLoc_value (t : Token) : (Token.noLoc t).value = t.value := rfl
@[simp] theorem noLoc_loc (t : Token) : (Token.noLoc t).loc = {} := rfl
@[simp] theorem noLoc_is (t : Token) (k : TokKind) (v : String) : (Token.noLoc t).is k v = t.is k v := rfl

@[simp] theorem cur_noLocs (ts : List Token) : cur (noLocs ts) = Token.noLoc (cur ts) := by
  cases ts <;> rfl

theorem sim_next (ts : List Token) : Sim id (next ts) (next (noLocs ts)) := by
  unfold Sim
  match ts with
  | [] => rfl
  | [_] => rfl
  | _ :: _ :: _ => rfl

theorem sim_expect (k : TokKind) (v : String) (ts : List Token) : Sim id (expect k v ts) (expect k v (noLocs ts)) := by
  unfold expect
  simp only [cur_noLocs, noLoc_is, noLoc_loc]
  split
  · exact sim_next ts
  · exact Sim.err _ _ _ rfl

theorem sim_sep (first : Bool) (ts : List Token) :
    Sim id (if first = true then Res.ok () ts else expect .operator "," ts)
      (if first = true then Res.ok () (noLocs ts) else expect .operator "," (noLocs ts)) := by
  split
  · exact Sim.ok rfl rfl
  · exact sim_expect _ _ ts

variable (cfg : Cfg)

@[simp] theorem binOp_noLoc (t : Token) : binOp cfg (Token.noLoc t) = binOp cfg t := rfl
@[simp] theorem unOp_noLoc (t : Token) : unOp cfg (Token.noLoc t) = unOp cfg t := rfl
@[simp] theorem nameOk_noLoc (t : Token) : nameOk (Token.noLoc t) = nameOk t := rfl

theorem strLit_eraseLoc (r : Node) : strLit? r.eraseLoc = strLit? r := by
  cases r <;> simp [Node.eraseLoc, strLit?]

theorem mk_noLoc (l : Loc) : (mk l).noLoc = mk {} := rfl

open Node in
structure HomAt (f : Nat) : Prop where
  expr : ∀ d p ts, Sim eraseLoc (parseExpression cfg f d p ts) (parseExpression cfg f d p (noLocs ts))
  loop : ∀ d p l ts, Sim eraseLoc (exprLoop cfg f d p l ts) (exprLoop cfg f d p l.eraseLoc (noLocs ts))
  prim : ∀ d ts, Sim eraseLoc (parsePrimary cfg f d ts) (parsePrimary cfg f d (noLocs ts))
  cond : ∀ d nd ts, Sim eraseLoc (parseConditional cfg f d nd ts) (parseConditional cfg f d nd.eraseLoc (noLocs ts))
  pexp : ∀ d ts, Sim eraseLoc (parsePrimaryExpression cfg f d ts) (parsePrimaryExpression cfg f d (noLocs ts))
  ident : ∀ d tok ts, Sim eraseLoc (parseIdentifierExpression cfg f d tok ts)
    (parseIdentifierExpression cfg f d (Token.noLoc tok) (noLocs ts))
  clos : ∀ d ts, Sim eraseLoc (parseClosure cfg f d ts) (parseClosure cfg f d (noLocs ts))
  arr : ∀ d ts, Sim eraseLoc (parseArray cfg f d ts) (parseArray cfg f d (noLocs ts))
  arrL : ∀ d b ts, Sim eraseLocL (arrayLoop cfg f d b ts) (arrayLoop cfg f d b (noLocs ts))
  map : ∀ d ts, Sim eraseLoc (parseMap cfg f d ts) (parseMap cfg f d (noLocs ts))
  mapL : ∀ d l b ts, Sim eraseLocL (mapLoop cfg f d l b ts) (mapLoop cfg f d {} b (noLocs ts))
  post : ∀ d nd b ts, Sim eraseLoc (parsePostfix cfg f d nd b ts) (parsePostfix cfg f d nd.eraseLoc b (noLocs ts))
  args : ∀ d ts, Sim eraseLocL (parseArguments cfg f d ts) (parseArguments cfg f d (noLocs ts))
  argsL : ∀ d b ts, Sim eraseLocL (argsLoop cfg f d b ts) (argsLoop cfg f d b (noLocs ts))

/-- bring the tests on location-free tokens back to the tests on the original tokens -/
macro "hom_norm" : tactic => `(tactic|
  try simp only [cur_noLocs, noLoc_is, noLoc_kind, noLoc_value, noLoc_loc, binOp_noLoc, unOp_noLoc, nameOk_noLoc,
    strLit_eraseLoc])

/-- close a homomorphism goal by congruence -/
macro "hom_close" h:ident : tactic => `(tactic|
  repeat (first
    | exact Sim.err _ _ _ rfl
    | exact Sim.ok (by first | rfl | simp [Node.eraseLoc, Node.eraseLocL, Node.eraseLocO, mk_noLoc, mk, Meta.noLoc]) rfl
    | exact sim_next _
    | exact sim_expect _ _ _
    | exact HomAt.expr $h _ _ _
    | exact HomAt.loop $h _ _ _ _
    | exact HomAt.prim $h _ _
    | exact HomAt.cond $h _ _ _
    | exact HomAt.pexp $h _ _
    | exact HomAt.ident $h _ _ _
    | exact HomAt.clos $h _ _
    | exact HomAt.arr $h _ _
    | exact HomAt.arrL $h _ _ _
    | exact HomAt.map $h _ _
    | exact HomAt.mapL $h _ _ _ _
    | exact HomAt.post $h _ _ _ _
    | exact HomAt.args $h _ _
    | exact HomAt.argsL $h _ _ _
    | refine Sim.bind (sim_next _) ?_
    | refine Sim.bind (sim_expect _ _ _) ?_
    | refine Sim.bind (sim_sep _ _) ?_
    | refine Sim.bind (HomAt.expr $h _ _ _) ?_
    | refine Sim.bind (HomAt.loop $h _ _ _ _) ?_
    | refine Sim.bind (HomAt.prim $h _ _) ?_
    | refine Sim.bind (HomAt.ident $h _ _ _) ?_
    | refine Sim.bind (HomAt.clos $h _ _) ?_
    | refine Sim.bind (HomAt.arr $h _ _) ?_
    | refine Sim.bind (HomAt.arrL $h _ _ _) ?_
    | refine Sim.bind (HomAt.map $h _ _) ?_
    | refine Sim.bind (HomAt.mapL $h _ _ _ _) ?_
    | refine Sim.bind (HomAt.args $h _ _) ?_
    | refine Sim.bind (HomAt.argsL $h _ _ _) ?_
    | refine Sim.bind (g1 := Node.eraseLocL) ?_ ?_
    | refine Sim.bind (g1 := Node.eraseLoc) ?_ ?_
    | refine Sim.bind (g1 := Node.eraseLocO) ?_ ?_
    | (intro _ _; try simp only [id, cur_noLocs, noLoc_is, noLoc_kind, noLoc_value, noLoc_loc, binOp_noLoc,
        unOp_noLoc, nameOk_noLoc, strLit_eraseLoc])
    | split))

theorem homAt : ∀ f, HomAt cfg f := by
  intro f
  induction f with
  | zero =>
    constructor <;> intros
    · rw [parseExpression, parseExpression]; rfl
    · rw [exprLoop, exprLoop]; rfl
    · rw [parsePrimary, parsePrimary]; rfl
    · rw [parseConditional, parseConditional]; rfl
    · rw [parsePrimaryExpression, parsePrimaryExpression]; rfl
    · rw [parseIdentifierExpression, parseIdentifierExpression]; rfl
    · rw [parseClosure, parseClosure]; rfl
    · rw [parseArray, parseArray]; rfl
    · rw [arrayLoop, arrayLoop]; rfl
    · rw [parseMap, parseMap]; rfl
    · rw [mapLoop, mapLoop]; rfl
    · rw [parsePostfix, parsePostfix]; rfl
    · rw [parseArguments, parseArguments]; rfl
    · rw [argsLoop, argsLoop]; rfl
  | succ n ih =>
    constructor <;> intros
    · rw [parseExpression, parseExpression]
      hom_norm
      hom_close ih
    · rw [exprLoop, exprLoop]
      hom_norm
      hom_close ih
    · rw [parsePrimary, parsePrimary]
      hom_norm
      hom_close ih
    · rw [parseConditional, parseConditional]
      hom_norm
      hom_close ih
    · rw [parsePrimaryExpression, parsePrimaryExpression]
      hom_norm
      hom_close ih
    · rw [parseIdentifierExpression, parseIdentifierExpression]
      hom_norm
      hom_close ih
    · rw [parseClosure, parseClosure]
      hom_norm
      hom_close ih
    · rw [parseArray, parseArray]
      hom_norm
      hom_close ih
    · rw [arrayLoop, arrayLoop]
      hom_norm
      hom_close ih
    · rw [parseMap, parseMap]
      hom_norm
      hom_close ih
    · rw [mapLoop, mapLoop]
      hom_norm
      hom_close ih
    · rw [parsePostfix, parsePostfix]
      hom_norm
      hom_close ih
    · rw [parseArguments, parseArguments]
      hom_norm
      hom_close ih
    · rw [argsLoop, argsLoop]
      hom_norm
      hom_close ih

end ExprModel.Parser

namespace ExprModel.Parser

variable (cfg : Cfg)

/-- forget the locations in an outcome -/
def Outcome.noLoc : Outcome → Outcome
  | .ok n => .ok n.eraseLoc
  | .error e => .error ({}, e.2)
  | .outOfFuel => .outOfFuel

/-- the parser commutes with forgetting locations -/
theorem parseFuel_noLocs (f : Nat) (ts : List Token) :
    parseFuel cfg f (noLocs ts) = (parseFuel cfg f ts).noLoc := by
  unfold parseFuel
  have h := (homAt cfg f).expr 0 0 ts
  unfold Sim at h
  rw [h]
  cases parseExpression cfg f 0 0 ts with
  | ok n rest =>
    simp only [Res.noLoc, cur_noLocs, noLoc_kind, noLoc_loc]
    split <;> rfl
  | err e => rfl
  | fuel => rfl

theorem fuelFor_noLocs (ts : List Token) : fuelFor (noLocs ts) = fuelFor ts := by
  simp [fuelFor, noLocs]

/-- **Locations do not matter**: two token lists with the same kinds and values parse to trees that differ
    only in locations (and one is accepted iff the other is). -/
theorem parse_same_text {ts ts' : List Token} (h : noLocs ts = noLocs ts') {t : Node}
    (ht : parse cfg ts = .ok t) : ∃ t', parse cfg ts' = .ok t' ∧ t'.eraseLoc = t.eraseLoc := by
  have h1 := parseFuel_noLocs cfg (fuelFor ts) ts
  have h2 := parseFuel_noLocs cfg (fuelFor ts') ts'
  have hf : fuelFor ts' = fuelFor ts := by rw [← fuelFor_noLocs ts', ← fuelFor_noLocs ts, h]
  rw [hf, ← h, h1] at h2
  unfold parse at ht ⊢
  rw [hf]
  cases hp : parseFuel cfg (fuelFor ts) ts with
  | ok n =>
    rw [hp] at ht h2; cases ht
    cases hp' : parseFuel cfg (fuelFor ts) ts' with
    | ok n' =>
      rw [hp'] at h2
      simp only [Outcome.noLoc, Outcome.ok.injEq] at h2
      exact ⟨n', rfl, h2.symm⟩
    | error e => rw [hp'] at h2; simp [Outcome.noLoc] at h2
    | outOfFuel => rw [hp'] at h2; simp [Outcome.noLoc] at h2
  | error e => rw [hp] at ht; cases ht
  | outOfFuel => rw [hp] at ht; cases ht

end ExprModel.Parser
