import ExprModel.Proofs.BcDecode
/-
C05, part 2: the compositional invariant behind `compile_wfStatic`.
A code fragment is `Frag`-well-formed when its operands are in range and of the expected kind, all of its
jumps land on instruction boundaries *of the fragment* (its end included), and Begin/End are balanced.
The invariant is closed under concatenation and under every emit scheme of the compiler (CompileWf.lean).
-/
namespace ExprModel.Bc

/-! ### instruction boundaries -/

@[simp] theorem boundary_zero (is : List Instr) : instrBoundary is 0 = true := by
  cases is <;> simp [instrBoundary]

theorem boundary_cons_of (i : Instr) (is : List Instr) (t : Nat)
    (h1 : i.size ≤ t) (h2 : instrBoundary is (t - i.size) = true) : instrBoundary (i :: is) t = true := by
  simp [instrBoundary, h1, h2]

theorem boundary_le : ∀ (is : List Instr) (t : Nat), instrBoundary is t = true → t ≤ codeSize is
  | [], t, h => by simp [instrBoundary] at h; simp [h]
  | i :: is, t, h => by
    simp only [instrBoundary, Bool.or_eq_true, beq_iff_eq, Bool.and_eq_true, decide_eq_true_eq] at h
    rcases h with h | ⟨h1, h2⟩
    · omega
    · have := boundary_le is _ h2; simp; omega

theorem boundary_append_left : ∀ (a b : List Instr) (t : Nat), instrBoundary a t = true → instrBoundary (a ++ b) t = true
  | [], b, t, h => by simp [instrBoundary] at h; simp [h]
  | i :: a, b, t, h => by
    simp only [instrBoundary, Bool.or_eq_true, beq_iff_eq, Bool.and_eq_true, decide_eq_true_eq] at h
    rcases h with h | ⟨h1, h2⟩
    · simp [h]
    · simp only [List.cons_append, instrBoundary, Bool.or_eq_true, beq_iff_eq, Bool.and_eq_true, decide_eq_true_eq]
      exact Or.inr ⟨h1, boundary_append_left a b _ h2⟩

/-- peel a whole leading segment -/
theorem boundary_skip : ∀ (a b : List Instr) (t : Nat),
    codeSize a ≤ t → instrBoundary b (t - codeSize a) = true → instrBoundary (a ++ b) t = true
  | [], b, t, _, h => by simpa using h
  | i :: a, b, t, h1, h2 => by
    simp only [codeSize_cons] at h1 h2
    have hp := instr_size_pos i
    simp only [List.cons_append, instrBoundary, Bool.or_eq_true, beq_iff_eq, Bool.and_eq_true, decide_eq_true_eq]
    refine Or.inr ⟨by omega, boundary_skip a b _ (by omega) ?_⟩
    have : t - i.size - codeSize a = t - (i.size + codeSize a) := by omega
    rw [this]; exact h2

theorem boundary_end (a : List Instr) (t : Nat) (h : t = codeSize a) : instrBoundary a t = true := by
  subst h
  have := boundary_skip a [] (codeSize a) (Nat.le_refl _) (by simp)
  simpa using this

theorem boundary_eq {a : List Instr} {t t' : Nat} (h : instrBoundary a t' = true) (e : t = t') : instrBoundary a t = true := e ▸ h

theorem boundary_in {a : List Instr} {t' : Nat} (b : List Instr) (t : Nat) (h : instrBoundary a t' = true) (e : t = t') :
    instrBoundary (a ++ b) t = true := e ▸ boundary_append_left a b t' h

theorem boundary_zero' (a : List Instr) (t : Nat) (h : t = 0) : instrBoundary a t = true := by subst h; simp

/-- every offset accepted by `instrBoundary` is the size of a prefix -/
theorem boundary_iff_prefix : ∀ (is : List Instr) (t : Nat),
    instrBoundary is t = true ↔ ∃ p q, is = p ++ q ∧ codeSize p = t
  | [], t => by
    simp only [instrBoundary, beq_iff_eq]
    constructor
    · intro h; exact ⟨[], [], rfl, by simp [h]⟩
    · rintro ⟨p, q, h, rfl⟩
      have : p = [] := by cases p <;> simp_all
      simp [this]
  | i :: is, t => by
    constructor
    · intro h
      simp only [instrBoundary, Bool.or_eq_true, beq_iff_eq, Bool.and_eq_true, decide_eq_true_eq] at h
      rcases h with h | ⟨h1, h2⟩
      · exact ⟨[], i :: is, rfl, by simp [h]⟩
      · obtain ⟨p, q, hpq, hs⟩ := (boundary_iff_prefix is _).1 h2
        exact ⟨i :: p, q, by simp [hpq], by simp; omega⟩
    · rintro ⟨p, q, hpq, rfl⟩
      cases p with
      | nil => simp
      | cons x p =>
        simp only [List.cons_append, List.cons.injEq] at hpq
        obtain ⟨rfl, rfl⟩ := hpq
        exact boundary_cons_of _ _ _ (by simp) (by
          simp only [codeSize_cons, Nat.add_sub_cancel_left]
          exact (boundary_iff_prefix _ _).2 ⟨p, q, rfl, rfl⟩)

/- Tactic `bnd_tac`: prove `instrBoundary (s₁ ++ (s₂ ++ … )) t` by peeling segments; sizes must be numerals or `codeSize x` atoms.
    Uses a hypothesis `ht : instrBoundary frag t'` from the context when the target lies inside an abstract fragment. -/
/-- literal instruction sizes become numerals, `codeSize x` of abstract fragments stay atoms (for `omega`) -/
macro "sz_simp" : tactic =>
  `(tactic| simp (config := { failIfUnchanged := false }) only [Instr.size, Op.hasArg, codeSize_cons, codeSize_nil,
      codeSize_append, Bool.false_eq_true, if_true, if_false, reduceIte])

macro "sz_omega" : tactic => `(tactic| first | omega | (sz_simp <;> omega))

syntax "bnd_tac" : tactic
macro_rules
  | `(tactic| bnd_tac) => `(tactic| first
      | (apply boundary_zero'; omega)
      | (refine boundary_cons_of _ _ _ ?_ ?_; (sz_simp <;> omega); (sz_simp; bnd_tac))
      | (refine boundary_in _ _ (by assumption) ?_; omega)
      | (refine boundary_skip _ _ _ ?_ ?_; omega; bnd_tac)
      | (apply boundary_end; sz_simp <;> omega)
      | (refine boundary_eq (by assumption) ?_; omega))

example (a b : List Instr) : instrBoundary (a ++ (⟨.jumpIfFalse, 1 + codeSize b⟩ :: ⟨.pop, 0⟩ :: b)) (codeSize a + 3 + (1 + codeSize b)) = true := by
  bnd_tac
example (a b : List Instr) (t : Nat) (ht : instrBoundary b t = true) :
    instrBoundary (a ++ (⟨.jumpIfFalse, 1 + codeSize b⟩ :: ⟨.pop, 0⟩ :: (b ++ [⟨.pop, 0⟩]))) (t + (codeSize a + 3 + 1)) = true := by
  bnd_tac

/-! ### jumps -/

@[simp] theorem jumpsOk_nil (bnd : Nat → Bool) (off : Nat) : jumpsOk bnd off [] = true := rfl
@[simp] theorem jumpsOk_cons (bnd : Nat → Bool) (off : Nat) (i : Instr) (is : List Instr) :
    jumpsOk bnd off (i :: is) = (jumpOk bnd off i && jumpsOk bnd (off + i.size) is) := rfl

theorem jumpsOk_append (bnd : Nat → Bool) : ∀ (off : Nat) (a b : List Instr),
    jumpsOk bnd off (a ++ b) = (jumpsOk bnd off a && jumpsOk bnd (off + codeSize a) b)
  | off, [], b => by simp
  | off, i :: a, b => by
    simp only [List.cons_append, jumpsOk_cons, jumpsOk_append bnd (off + i.size) a b, codeSize_cons, Bool.and_assoc,
      Nat.add_assoc]

theorem jumpOk_mono {bnd1 bnd2 : Nat → Bool} {d : Nat} (h : ∀ t, bnd1 t = true → bnd2 (t + d) = true)
    (off : Nat) (i : Instr) (hi : jumpOk bnd1 off i = true) : jumpOk bnd2 (off + d) i = true := by
  unfold jumpOk at *
  split
  · rename_i hc; simp only [hc] at hi
    have := h _ hi
    have e : off + d + i.size + i.arg = off + i.size + i.arg + d := by omega
    rw [e]; exact this
  · rename_i hc; simp only [hc, Bool.and_eq_true, decide_eq_true_eq] at hi
    simp only [Bool.and_eq_true, decide_eq_true_eq]
    refine ⟨by omega, ?_⟩
    have := h _ hi.2
    have e : off + d + i.size - i.arg = off + i.size - i.arg + d := by omega
    rw [e]; exact this
  · rfl

theorem jumpsOk_mono {bnd1 bnd2 : Nat → Bool} {d : Nat} (h : ∀ t, bnd1 t = true → bnd2 (t + d) = true) :
    ∀ (off : Nat) (is : List Instr), jumpsOk bnd1 off is = true → jumpsOk bnd2 (off + d) is = true
  | _, [], _ => rfl
  | off, i :: is, hi => by
    simp only [jumpsOk_cons, Bool.and_eq_true] at hi ⊢
    refine ⟨jumpOk_mono h off i hi.1, ?_⟩
    have := jumpsOk_mono h (off + i.size) is hi.2
    have e : off + d + i.size = off + i.size + d := by omega
    rw [e]; exact this

/-- all jumps of the fragment land on boundaries of the fragment (its end included) -/
def JumpsClosed (is : List Instr) : Prop := jumpsOk (instrBoundary is) 0 is = true

/-- a closed fragment placed at offset `off` of a context that accepts all its (shifted) boundaries -/
theorem JumpsClosed.place {is : List Instr} (h : JumpsClosed is) {bnd : Nat → Bool} {off : Nat}
    (hb : ∀ t, instrBoundary is t = true → bnd (t + off) = true) : jumpsOk bnd off is = true := by
  have := jumpsOk_mono hb 0 is h
  simpa using this

/-! ### Begin / End nesting -/

@[simp] theorem nestOk_nil (d : Nat) : nestOk d [] = some d := rfl

theorem nestOk_append : ∀ (d : Nat) (a b : List Instr), nestOk d (a ++ b) = (nestOk d a).bind (fun d' => nestOk d' b)
  | d, [], b => by simp
  | d, i :: a, b => by
    simp only [List.cons_append, nestOk]
    split
    · exact nestOk_append _ a b
    · split
      · split
        · rfl
        · exact nestOk_append _ a b
      · exact nestOk_append _ a b

/-- Begin/End balanced: from any depth the fragment returns to that depth, never closing a scope it did not open -/
def NestBal (is : List Instr) : Prop := ∀ d, nestOk d is = some d

theorem NestBal.nil : NestBal [] := fun _ => rfl

theorem NestBal.append {a b : List Instr} (ha : NestBal a) (hb : NestBal b) : NestBal (a ++ b) := by
  intro d; simp [nestOk_append, ha d, hb d]

theorem NestBal.plain {i : Instr} (h1 : i.op ≠ .begin_) (h2 : i.op ≠ .end_) : NestBal [i] := by
  intro d; simp [nestOk, h1, h2]

/-- `Begin; body; End` around a balanced body (with balanced code after the End) -/
theorem NestBal.scope {body : List Instr} (hb : NestBal body) (a1 a2 : Nat) :
    NestBal ([⟨.begin_, a1⟩] ++ body ++ [⟨.end_, a2⟩]) := by
  intro d
  simp [nestOk_append, nestOk, hb (d + 1)]

end ExprModel.Bc
