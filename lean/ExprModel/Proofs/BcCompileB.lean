import ExprModel.Proofs.BcCompileA
/-
C05, part 7: slices and the seven builtins preserve the invariant.
-/
namespace ExprModel.Bc

theorem nodeWf_slice (cfg : CompCfg) (m : Meta) (x : Node) (f t : Option Node) (hx : NodeWf cfg x)
    (hf : ∀ f', f = some f' → NodeWf cfg f') (ht : ∀ t', t = some t' → NodeWf cfg t') :
    NodeWf cfg (.slice m x f t) := by
  intro p code p' hp h
  cases t with
  | some t' =>
    cases f with
    | some f' =>
      simp only [compileNode] at h
      obtain ⟨⟨cx, p1⟩, h1, h⟩ := cr_bind_ok h
      obtain ⟨⟨ct, p2⟩, h2, h⟩ := cr_bind_ok h
      obtain ⟨⟨cf, p3⟩, h3, h⟩ := cr_bind_ok h
      dsimp only at h2 h3 h
      have rx := hx _ _ _ hp h1
      have rt := ht t' rfl _ _ _ rx.1 h2
      have rf := hf f' rfl _ _ _ rt.1 h3
      cr_fin h
      exact ((rx.seq rt).seq rf).seq (CompRes.plain rf.1 _ _ rfl (by decide) (by decide))
    | none =>
      simp only [compileNode] at h
      obtain ⟨⟨cx, p1⟩, h1, h⟩ := cr_bind_ok h
      obtain ⟨⟨ct, p2⟩, h2, h⟩ := cr_bind_ok h
      obtain ⟨⟨k, p3⟩, h3, h⟩ := cr_bind_ok h
      dsimp only at h2 h3 h
      have rx := hx _ _ _ hp h1
      have rt := ht t' rfl _ _ _ rx.1 h2
      have rf := CompRes.push rt.1 h3 m.loc
      simp only [pure, Except.pure, bind, Except.bind, Except.ok.injEq, Prod.mk.injEq] at h
      obtain ⟨rfl, rfl⟩ := h
      exact ((rx.seq rt).seq rf).seq (CompRes.plain rf.1 _ _ rfl (by decide) (by decide))
  | none =>
    cases f with
    | some f' =>
      simp only [compileNode] at h
      obtain ⟨⟨cx, p1⟩, h1, h⟩ := cr_bind_ok h
      simp only [pure, Except.pure, bind, Except.bind] at h
      have rx := hx _ _ _ hp h1
      have rt := CompRes.plain rx.1 m.loc .len rfl (by decide) (by decide)
      cases h3 : compileNode cfg f' p1 with
      | error e => simp [h3] at h
      | ok r =>
        obtain ⟨cf, p3⟩ := r
        simp only [h3, Except.ok.injEq, Prod.mk.injEq] at h
        obtain ⟨rfl, rfl⟩ := h
        have rf := hf f' rfl _ _ _ rt.1 h3
        exact ((rx.seq rt).seq rf).seq (CompRes.plain rf.1 _ _ rfl (by decide) (by decide))
    | none =>
      simp only [compileNode] at h
      obtain ⟨⟨cx, p1⟩, h1, h⟩ := cr_bind_ok h
      simp only [pure, Except.pure, bind, Except.bind] at h
      have rx := hx _ _ _ hp h1
      have rt := CompRes.plain rx.1 m.loc .len rfl (by decide) (by decide)
      cases h3 : mkConst (.int .int 0) p1 with
      | error e => simp [h3] at h
      | ok r =>
        obtain ⟨k, p3⟩ := r
        simp only [h3, Except.ok.injEq, Prod.mk.injEq] at h
        obtain ⟨rfl, rfl⟩ := h
        have rf := CompRes.push rt.1 h3 m.loc
        exact ((rx.seq rt).seq rf).seq (CompRes.plain rf.1 _ _ rfl (by decide) (by decide))

theorem nodeWf_len (cfg : CompCfg) (m : Meta) (a : Node) (ha : NodeWf cfg a) : NodeWf cfg (.builtin m "len" [a]) := by
  intro p code p' hp h
  simp only [compileNode] at h
  obtain ⟨⟨ca, p1⟩, h1, h⟩ := cr_bind_ok h
  have ra := ha _ _ _ hp h1
  dsimp only at h
  cr_fin h
  have r1 := CompRes.plain ra.1 m.loc .len rfl (by decide) (by decide)
  have r2 := CompRes.plain ra.1 m.loc .rot rfl (by decide) (by decide)
  have r3 := CompRes.plain ra.1 m.loc .pop rfl (by decide) (by decide)
  have := ra.seq ((r1.seq r2).seq r3)
  simpa using this

theorem quant_shape (ca loop : List LInstr) (x y z : LInstr) :
    ca ++ [x] ++ loop ++ [y, z] = ca ++ ([x] ++ (loop ++ [y]) ++ [z]) := by simp

/-- the common proof of `all` / `none` / `any` once the monadic steps are inverted -/
theorem quant_res {p p1 p2 p3 p4 p5 p6 : Pool} {ca cb : List LInstr} {ci cs car c0 : Nat} (l : Loc)
    (ra : CompRes p ca p1)
    (h2 : mkConst (.str "i") p1 = .ok (ci, p2)) (h3 : mkConst (.str "size") p2 = .ok (cs, p3))
    (h4 : mkConst (.str "array") p3 = .ok (car, p4)) (h5 : mkConst (.int .int 0) p4 = .ok (c0, p5))
    (rb : CompRes p5 cb p6) (pre : List LInstr) (hpre : ∀ c, Frag c pre)
    (op : Op) (hop : op = .jumpIfTrue ∨ op = .jumpIfFalse) (fin : Op) (hfin : fin = .true_ ∨ fin = .false_) :
    CompRes p (ca ++ [li l .begin_] ++ emitLoop l ci cs car c0 (cb ++ pre ++ [li l op 9, li l .pop]) ++ [li l fin, li l .end_]) p6 := by
  obtain ⟨hp2, e12, hi⟩ := mkConst_str ra.1 h2
  obtain ⟨hp3, e23, hs⟩ := mkConst_str hp2 h3
  obtain ⟨hp4, e34, har⟩ := mkConst_str hp3 h4
  obtain ⟨hp5, e45, h0⟩ := mkConst_any hp4 h5
  have e56 := rb.2.1
  have e46 := e45.trans e56
  have e36 := e34.trans e46
  have e26 := e23.trans e36
  have e16 := e12.trans e26
  rw [quant_shape]
  refine ⟨rb.1, ra.2.1.trans e16, (ra.2.2.mono e16).append (Frag.scope l ?_)⟩
  exact Frag.quantInner l (hi.mono e26) (hs.mono e36) (har.mono e46) (h0.mono e56) rb.2.2 (hpre _) op hop fin hfin

theorem nodeWf_all (cfg : CompCfg) (m : Meta) (a b : Node) (ha : NodeWf cfg a) (hb : NodeWf cfg b) :
    NodeWf cfg (.builtin m "all" [a, b]) := by
  intro p code p' hp h
  simp only [compileNode] at h
  obtain ⟨⟨ca, p1⟩, h1, h⟩ := cr_bind_ok h
  obtain ⟨⟨ci, p2⟩, h2, h⟩ := cr_bind_ok h
  obtain ⟨⟨cs, p3⟩, h3, h⟩ := cr_bind_ok h
  obtain ⟨⟨car, p4⟩, h4, h⟩ := cr_bind_ok h
  obtain ⟨⟨c0, p5⟩, h5, h⟩ := cr_bind_ok h
  obtain ⟨⟨cb, p6⟩, h6, h⟩ := cr_bind_ok h
  dsimp only at h2 h3 h4 h5 h6 h
  have ra := ha _ _ _ hp h1
  have rb := hb _ _ _ (mkConst_any (mkConst_str (mkConst_str (mkConst_str ra.1 h2).1 h3).1 h4).1 h5).1 h6
  cr_fin h
  have := quant_res m.loc ra h2 h3 h4 h5 rb [] (fun c => Frag.nil c) .jumpIfFalse (Or.inr rfl) .true_ (Or.inl rfl)
  simp only [List.append_nil] at this
  exact this

theorem nodeWf_none (cfg : CompCfg) (m : Meta) (a b : Node) (ha : NodeWf cfg a) (hb : NodeWf cfg b) :
    NodeWf cfg (.builtin m "none" [a, b]) := by
  intro p code p' hp h
  simp only [compileNode] at h
  obtain ⟨⟨ca, p1⟩, h1, h⟩ := cr_bind_ok h
  obtain ⟨⟨ci, p2⟩, h2, h⟩ := cr_bind_ok h
  obtain ⟨⟨cs, p3⟩, h3, h⟩ := cr_bind_ok h
  obtain ⟨⟨car, p4⟩, h4, h⟩ := cr_bind_ok h
  obtain ⟨⟨c0, p5⟩, h5, h⟩ := cr_bind_ok h
  obtain ⟨⟨cb, p6⟩, h6, h⟩ := cr_bind_ok h
  dsimp only at h2 h3 h4 h5 h6 h
  have ra := ha _ _ _ hp h1
  have rb := hb _ _ _ (mkConst_any (mkConst_str (mkConst_str (mkConst_str ra.1 h2).1 h3).1 h4).1 h5).1 h6
  cr_fin h
  have := quant_res m.loc ra h2 h3 h4 h5 rb [li m.loc .not_] (fun c => Frag.plain m.loc .not_ rfl (by decide) (by decide))
    .jumpIfFalse (Or.inr rfl) .true_ (Or.inl rfl)
  simp only [List.append_assoc, List.cons_append, List.nil_append] at this ⊢
  exact this

theorem nodeWf_any (cfg : CompCfg) (m : Meta) (a b : Node) (ha : NodeWf cfg a) (hb : NodeWf cfg b) :
    NodeWf cfg (.builtin m "any" [a, b]) := by
  intro p code p' hp h
  simp only [compileNode] at h
  obtain ⟨⟨ca, p1⟩, h1, h⟩ := cr_bind_ok h
  obtain ⟨⟨ci, p2⟩, h2, h⟩ := cr_bind_ok h
  obtain ⟨⟨cs, p3⟩, h3, h⟩ := cr_bind_ok h
  obtain ⟨⟨car, p4⟩, h4, h⟩ := cr_bind_ok h
  obtain ⟨⟨c0, p5⟩, h5, h⟩ := cr_bind_ok h
  obtain ⟨⟨cb, p6⟩, h6, h⟩ := cr_bind_ok h
  dsimp only at h2 h3 h4 h5 h6 h
  have ra := ha _ _ _ hp h1
  have rb := hb _ _ _ (mkConst_any (mkConst_str (mkConst_str (mkConst_str ra.1 h2).1 h3).1 h4).1 h5).1 h6
  cr_fin h
  have := quant_res m.loc ra h2 h3 h4 h5 rb [] (fun c => Frag.nil c) .jumpIfTrue (Or.inl rfl) .false_ (Or.inr rfl)
  simp only [List.append_nil] at this
  exact this

theorem scope_shape (ca loop pre post tail : List LInstr) (b e : LInstr) :
    ca ++ (b :: pre) ++ loop ++ (post ++ e :: tail) = ca ++ ([b] ++ (pre ++ loop ++ post) ++ [e]) ++ tail := by simp

/-- `a; OpBegin; pre; emitLoop(body); post; OpEnd; tail` -/
theorem Frag.scopedLoop {c : Array Val} (l : Loc) {ca body pre post tail : List LInstr} {ci cs car c0 : Nat}
    (ha : Frag c ca) (hi : StrAt c ci) (hs : StrAt c cs) (har : StrAt c car) (h0 : AnyAt c c0)
    (hbody : Frag c body) (hpre : Frag c pre) (hpost : Frag c post) (htail : Frag c tail) :
    Frag c (ca ++ (li l .begin_ :: pre) ++ emitLoop l ci cs car c0 body ++ (post ++ li l .end_ :: tail)) := by
  rw [scope_shape]
  exact (ha.append (Frag.scope l ((hpre.append (Frag.of_emitLoop l hi hs har h0 hbody)).append hpost))).append htail

theorem nodeWf_map_builtin (cfg : CompCfg) (m : Meta) (a b : Node) (ha : NodeWf cfg a) (hb : NodeWf cfg b) :
    NodeWf cfg (.builtin m "map" [a, b]) := by
  intro p code p' hp h
  simp only [compileNode] at h
  obtain ⟨⟨ca, p1⟩, h1, h⟩ := cr_bind_ok h
  obtain ⟨⟨ci, p2⟩, h2, h⟩ := cr_bind_ok h
  obtain ⟨⟨cs, p3⟩, h3, h⟩ := cr_bind_ok h
  obtain ⟨⟨car, p4⟩, h4, h⟩ := cr_bind_ok h
  obtain ⟨⟨c0, p5⟩, h5, h⟩ := cr_bind_ok h
  obtain ⟨⟨cb, p6⟩, h6, h⟩ := cr_bind_ok h
  dsimp only at h2 h3 h4 h5 h6 h
  have ra := ha _ _ _ hp h1
  obtain ⟨hp2, e12, hi⟩ := mkConst_str ra.1 h2
  obtain ⟨hp3, e23, hs⟩ := mkConst_str hp2 h3
  obtain ⟨hp4, e34, har⟩ := mkConst_str hp3 h4
  obtain ⟨hp5, e45, h0⟩ := mkConst_any hp4 h5
  have rb := hb _ _ _ hp5 h6
  have e56 := rb.2.1
  have e46 := e45.trans e56
  have e36 := e34.trans e46
  have e26 := e23.trans e36
  have e16 := e12.trans e26
  cr_fin h
  refine ⟨rb.1, ra.2.1.trans e16, ?_⟩
  have hs' := hs.mono e36
  exact Frag.scopedLoop m.loc (pre := []) (post := [li m.loc .load cs]) (tail := [li m.loc .array])
    (ra.2.2.mono e16) (hi.mono e26) hs' (har.mono e46) (h0.mono e56) rb.2.2 (Frag.nil _)
    (Frag.strOp hs' _ .load rfl) (Frag.plain _ .array rfl (by decide) (by decide))

/-- the shared prefix of `one` / `filter` / `count` after inverting the monadic steps -/
theorem counted_facts {p p1 p2 p3 p4 p5 p6 p7 : Pool} {ca cb : List LInstr} {cc c0 ci cs car : Nat}
    (hp : PoolOk p) (h1 : mkConst (.str "count") p = .ok (cc, p1)) (ra : PoolOk p1 → CompRes p1 ca p2)
    (h3 : mkConst (.int .int 0) p2 = .ok (c0, p3)) (h4 : mkConst (.str "i") p3 = .ok (ci, p4))
    (h5 : mkConst (.str "size") p4 = .ok (cs, p5)) (h6 : mkConst (.str "array") p5 = .ok (car, p6))
    (rb : PoolOk p6 → CompRes p6 cb p7) :
    PoolOk p7 ∧ PoolExt p.consts p7.consts ∧ Frag p7.consts ca ∧ Frag p7.consts cb ∧ StrAt p7.consts cc ∧
    AnyAt p7.consts c0 ∧ StrAt p7.consts ci ∧ StrAt p7.consts cs ∧ StrAt p7.consts car := by
  obtain ⟨hp1, e01, hcc⟩ := mkConst_str hp h1
  have ra := ra hp1
  obtain ⟨hp3, e23, h0⟩ := mkConst_any ra.1 h3
  obtain ⟨hp4, e34, hi⟩ := mkConst_str hp3 h4
  obtain ⟨hp5, e45, hs⟩ := mkConst_str hp4 h5
  obtain ⟨hp6, e56, har⟩ := mkConst_str hp5 h6
  have rb := rb hp6
  have e67 := rb.2.1
  have e57 := e56.trans e67
  have e47 := e45.trans e57
  have e37 := e34.trans e47
  have e27 := e23.trans e37
  have e17 := ra.2.1.trans e27
  exact ⟨rb.1, e01.trans e17, ra.2.2.mono e27, rb.2.2, hcc.mono e17, h0.mono e37, hi.mono e47, hs.mono e57, har.mono e67⟩

theorem nodeWf_count (cfg : CompCfg) (m : Meta) (a b : Node) (ha : NodeWf cfg a) (hb : NodeWf cfg b) :
    NodeWf cfg (.builtin m "count" [a, b]) := by
  intro p code p' hp h
  simp only [compileNode] at h
  obtain ⟨⟨cc, p1⟩, h1, h⟩ := cr_bind_ok h
  obtain ⟨⟨ca, p2⟩, h2, h⟩ := cr_bind_ok h
  obtain ⟨⟨c0, p3⟩, h3, h⟩ := cr_bind_ok h
  obtain ⟨⟨ci, p4⟩, h4, h⟩ := cr_bind_ok h
  obtain ⟨⟨cs, p5⟩, h5, h⟩ := cr_bind_ok h
  obtain ⟨⟨car, p6⟩, h6, h⟩ := cr_bind_ok h
  obtain ⟨⟨cb, p7⟩, h7, h⟩ := cr_bind_ok h
  dsimp only at h2 h3 h4 h5 h6 h7 h
  obtain ⟨hp7, e, fa, fb, hcc, h0, hi, hs, har⟩ :=
    counted_facts hp h1 (fun hp1 => ha _ _ _ hp1 h2) h3 h4 h5 h6 (fun hp6 => hb _ _ _ hp6 h7)
  cr_fin h
  refine ⟨hp7, e, ?_⟩
  exact Frag.scopedLoop m.loc (pre := [li m.loc .push c0, li m.loc .store cc]) (post := [li m.loc .load cc]) (tail := [])
    fa hi hs har h0 (fb.append (Frag.of_emitCond _ (Frag.strOp hcc _ .inc rfl)))
    ((Frag.pushOp h0 _).append (Frag.strOp hcc _ .store rfl)) (Frag.strOp hcc _ .load rfl) (Frag.nil _)

theorem nodeWf_filter (cfg : CompCfg) (m : Meta) (a b : Node) (ha : NodeWf cfg a) (hb : NodeWf cfg b) :
    NodeWf cfg (.builtin m "filter" [a, b]) := by
  intro p code p' hp h
  simp only [compileNode] at h
  obtain ⟨⟨cc, p1⟩, h1, h⟩ := cr_bind_ok h
  obtain ⟨⟨ca, p2⟩, h2, h⟩ := cr_bind_ok h
  obtain ⟨⟨c0, p3⟩, h3, h⟩ := cr_bind_ok h
  obtain ⟨⟨ci, p4⟩, h4, h⟩ := cr_bind_ok h
  obtain ⟨⟨cs, p5⟩, h5, h⟩ := cr_bind_ok h
  obtain ⟨⟨car, p6⟩, h6, h⟩ := cr_bind_ok h
  obtain ⟨⟨cb, p7⟩, h7, h⟩ := cr_bind_ok h
  dsimp only at h2 h3 h4 h5 h6 h7 h
  obtain ⟨hp7, e, fa, fb, hcc, h0, hi, hs, har⟩ :=
    counted_facts hp h1 (fun hp1 => ha _ _ _ hp1 h2) h3 h4 h5 h6 (fun hp6 => hb _ _ _ hp6 h7)
  cr_fin h
  refine ⟨hp7, e, ?_⟩
  have hbody : Frag p7.consts [li m.loc .inc cc, li m.loc .load car, li m.loc .load ci, li m.loc .index] :=
    (((Frag.strOp hcc m.loc .inc rfl).append (Frag.strOp har m.loc .load rfl)).append (Frag.strOp hi m.loc .load rfl)).append
      (Frag.plain m.loc .index rfl (by decide) (by decide))
  exact Frag.scopedLoop m.loc (pre := [li m.loc .push c0, li m.loc .store cc]) (post := [li m.loc .load cc])
    (tail := [li m.loc .array])
    fa hi hs har h0 (fb.append (Frag.of_emitCond _ hbody))
    ((Frag.pushOp h0 _).append (Frag.strOp hcc _ .store rfl)) (Frag.strOp hcc _ .load rfl)
    (Frag.plain _ .array rfl (by decide) (by decide))

theorem nodeWf_one (cfg : CompCfg) (m : Meta) (a b : Node) (ha : NodeWf cfg a) (hb : NodeWf cfg b) :
    NodeWf cfg (.builtin m "one" [a, b]) := by
  intro p code p' hp h
  simp only [compileNode] at h
  obtain ⟨⟨cc, p1⟩, h1, h⟩ := cr_bind_ok h
  obtain ⟨⟨ca, p2⟩, h2, h⟩ := cr_bind_ok h
  obtain ⟨⟨c0, p3⟩, h3, h⟩ := cr_bind_ok h
  obtain ⟨⟨ci, p4⟩, h4, h⟩ := cr_bind_ok h
  obtain ⟨⟨cs, p5⟩, h5, h⟩ := cr_bind_ok h
  obtain ⟨⟨car, p6⟩, h6, h⟩ := cr_bind_ok h
  obtain ⟨⟨cb, p7⟩, h7, h⟩ := cr_bind_ok h
  obtain ⟨⟨c1, p8⟩, h8, h⟩ := cr_bind_ok h
  dsimp only at h2 h3 h4 h5 h6 h7 h8 h
  obtain ⟨hp7, e, fa, fb, hcc, h0, hi, hs, har⟩ :=
    counted_facts hp h1 (fun hp1 => ha _ _ _ hp1 h2) h3 h4 h5 h6 (fun hp6 => hb _ _ _ hp6 h7)
  obtain ⟨hp8, e78, h1'⟩ := mkConst_any hp7 h8
  cr_fin h
  refine ⟨hp8, e.trans e78, ?_⟩
  have hcc := hcc.mono e78
  have h0 := h0.mono e78
  exact Frag.scopedLoop m.loc (pre := [li m.loc .push c0, li m.loc .store cc])
    (post := [li m.loc .load cc, li m.loc .push c1, li m.loc .equal]) (tail := [])
    (fa.mono e78) (hi.mono e78) (hs.mono e78) (har.mono e78) h0
    ((fb.mono e78).append (Frag.of_emitCond _ (Frag.strOp hcc _ .inc rfl)))
    ((Frag.pushOp h0 _).append (Frag.strOp hcc _ .store rfl))
    (((Frag.strOp hcc _ .load rfl).append (Frag.pushOp h1' _)).append (Frag.plain _ .equal rfl (by decide) (by decide)))
    (Frag.nil _)

/-- every builtin call, whatever its name and arity -/
theorem nodeWf_builtin (cfg : CompCfg) (m : Meta) (name : String) (args : List Node)
    (hargs : ∀ a ∈ args, NodeWf cfg a) : NodeWf cfg (.builtin m name args) := by
  intro p code p' hp h
  have h' := h
  unfold compileNode at h'
  split at h'
  · exact nodeWf_len cfg m _ (hargs _ (by simp)) p code p' hp h
  · exact nodeWf_all cfg m _ _ (hargs _ (by simp)) (hargs _ (by simp)) p code p' hp h
  · exact nodeWf_none cfg m _ _ (hargs _ (by simp)) (hargs _ (by simp)) p code p' hp h
  · exact nodeWf_any cfg m _ _ (hargs _ (by simp)) (hargs _ (by simp)) p code p' hp h
  · exact nodeWf_one cfg m _ _ (hargs _ (by simp)) (hargs _ (by simp)) p code p' hp h
  · exact nodeWf_filter cfg m _ _ (hargs _ (by simp)) (hargs _ (by simp)) p code p' hp h
  · exact nodeWf_map_builtin cfg m _ _ (hargs _ (by simp)) (hargs _ (by simp)) p code p' hp h
  · exact nodeWf_count cfg m _ _ (hargs _ (by simp)) (hargs _ (by simp)) p code p' hp h
  all_goals cases h'

end ExprModel.Bc
