import ExprModel.Syntax.Parser
/-
Fuel sufficiency of the parser model: with fuel `6·|tokens| + rank` no parser function runs out of
fuel, and a successful call never returns more tokens than it was given (strictly fewer for the
functions that must consume).  Hence `parseFuel (fuelFor ts) ts` always answers: the model terminates
with call depth linear in the number of tokens.
-/
namespace ExprModel.Parser

/-- `r` is an answer, and on success at most `n` tokens remain (`n - 1` when `strict`) -/
def Bnd {α : Type} (n : Nat) (strict : Bool) (r : Res α) : Prop :=
  r ≠ .fuel ∧ ∀ a ts, r = .ok a ts → ts.length + (if strict then 1 else 0) ≤ n

theorem Bnd.err {α : Type} (n : Nat) (s : Bool) (e : Err) : Bnd n s (Res.err e : Res α) :=
  ⟨fun h => (by cases h), fun _ _ h => (by cases h)⟩

theorem Bnd.ok {α : Type} {n : Nat} {s : Bool} {a : α} {ts : List Token}
    (h : ts.length + (if s then 1 else 0) ≤ n) : Bnd n s (Res.ok a ts) :=
  ⟨fun h' => (by cases h'), fun _ _ he => (by cases he; exact h)⟩

theorem Bnd.bind {α β : Type} {n1 n : Nat} {s1 s : Bool} {A : Res α} {k : α → List Token → Res β}
    (h1 : Bnd n1 s1 A) (h2 : ∀ x ts1, ts1.length + (if s1 then 1 else 0) ≤ n1 → Bnd n s (k x ts1)) :
    Bnd n s (A.bind k) := by
  cases A with
  | ok x ts1 => exact h2 x ts1 (h1.2 x ts1 rfl)
  | err e => exact Bnd.err n s e
  | fuel => exact absurd rfl h1.1

theorem Bnd.weaken {α : Type} {n n' : Nat} {s s' : Bool} {r : Res α} (h : Bnd n s r)
    (hn : ∀ m : Nat, m + (if s then 1 else 0) ≤ n → m + (if s' then 1 else 0) ≤ n') : Bnd n' s' r :=
  ⟨h.1, fun a ts he => hn _ (h.2 a ts he)⟩

theorem bnd_next (ts : List Token) : Bnd ts.length true (next ts) := by
  unfold next
  split
  · exact Bnd.ok (by simp)
  · exact Bnd.err _ _ _

theorem bnd_expect (k : TokKind) (v : String) (ts : List Token) : Bnd ts.length true (expect k v ts) := by
  unfold expect
  split
  · exact bnd_next ts
  · exact Bnd.err _ _ _

variable (cfg : Cfg)

/-- the statements at fuel `f` (ranks: loops over elements 6, parseExpression 5, parsePrimary 4,
    parsePrimaryExpression 3, parseIdentifierExpression 2, the others 1) -/
structure FinAt (f : Nat) : Prop where
  expr : ∀ d p ts, 6 * ts.length + 5 ≤ f → Bnd ts.length true (parseExpression cfg f d p ts)
  loop : ∀ d p l ts, 6 * ts.length + 1 ≤ f → Bnd ts.length false (exprLoop cfg f d p l ts)
  prim : ∀ d ts, 6 * ts.length + 4 ≤ f → Bnd ts.length true (parsePrimary cfg f d ts)
  cond : ∀ d n ts, 6 * ts.length + 1 ≤ f → Bnd ts.length false (parseConditional cfg f d n ts)
  pexp : ∀ d ts, 6 * ts.length + 3 ≤ f → Bnd ts.length true (parsePrimaryExpression cfg f d ts)
  ident : ∀ d t ts, 6 * ts.length + 2 ≤ f → Bnd ts.length false (parseIdentifierExpression cfg f d t ts)
  clos : ∀ d ts, 6 * ts.length + 1 ≤ f → Bnd ts.length true (parseClosure cfg f d ts)
  arr : ∀ d ts, 6 * ts.length + 1 ≤ f → Bnd ts.length true (parseArray cfg f d ts)
  arrL : ∀ d b ts, 6 * ts.length + 6 ≤ f → Bnd ts.length false (arrayLoop cfg f d b ts)
  map : ∀ d ts, 6 * ts.length + 1 ≤ f → Bnd ts.length true (parseMap cfg f d ts)
  mapL : ∀ d l b ts, 6 * ts.length + 6 ≤ f → Bnd ts.length false (mapLoop cfg f d l b ts)
  post : ∀ d n b ts, 6 * ts.length + 1 ≤ f → Bnd ts.length false (parsePostfix cfg f d n b ts)
  postDot : ∀ d n b ts, 6 * ts.length + 1 ≤ f → (cur ts).is .operator "." = true →
    Bnd ts.length true (parsePostfix cfg f d n b ts)
  args : ∀ d ts, 6 * ts.length + 1 ≤ f → Bnd ts.length true (parseArguments cfg f d ts)
  argsL : ∀ d b ts, 6 * ts.length + 6 ≤ f → Bnd ts.length false (argsLoop cfg f d b ts)

theorem bnd_sep (first : Bool) (k : TokKind) (v : String) (ts : List Token) :
    Bnd ts.length false (if first = true then Res.ok () ts else expect k v ts) := by
  split
  · exact Bnd.ok (by simp)
  · exact Bnd.weaken (bnd_expect k v ts) (by intro m; simp only [if_true, Bool.false_eq_true, if_false]; omega)

/-- bind step: the first computation is bounded by `t`; introduces its result and the length fact -/
macro "bnd_bind " t:term : tactic => `(tactic|
  (refine Bnd.bind $t ?_
   intro _ _ hlen
   simp only [Bool.false_eq_true, if_false, if_true, Nat.add_zero] at hlen))

macro "bnd_ok" : tactic => `(tactic|
  exact Bnd.ok (by simp only [Bool.false_eq_true, if_false, if_true, Nat.add_zero]; omega))

macro "bnd_weak " t:term : tactic => `(tactic|
  exact Bnd.weaken $t (by intro m; simp only [Bool.false_eq_true, if_false, if_true, Nat.add_zero]; omega))

theorem finAt : ∀ f, FinAt cfg f := by
  intro f
  induction f with
  | zero =>
    constructor <;> intros <;> omega
  | succ n ih =>
    constructor
    · -- parseExpression
      intro d p ts hf
      rw [parseExpression]
      bnd_bind (FinAt.prim ih _ _ (by omega))
      bnd_bind (FinAt.loop ih _ _ _ _ (by omega))
      split
      · bnd_weak (FinAt.cond ih _ _ _ (by omega))
      · bnd_ok
    · -- exprLoop
      intro d p l ts hf
      rw [exprLoop]
      split
      · split
        · bnd_bind (bnd_next _)
          bnd_bind (FinAt.expr ih _ _ _ (by omega))
          split
          · split
            · split
              · exact Bnd.err _ _ _
              · bnd_weak (FinAt.loop ih _ _ _ _ (by omega))
            · bnd_weak (FinAt.loop ih _ _ _ _ (by omega))
          · bnd_weak (FinAt.loop ih _ _ _ _ (by omega))
        · bnd_ok
      · bnd_ok
    · -- parsePrimary
      intro d ts hf
      rw [parsePrimary]
      split
      · bnd_bind (bnd_next _)
        bnd_bind (FinAt.expr ih _ _ _ (by omega))
        bnd_weak (FinAt.post ih _ _ _ _ (by omega))
      · split
        · bnd_bind (bnd_next _)
          bnd_bind (FinAt.expr ih _ _ _ (by omega))
          bnd_bind (bnd_expect _ _ _)
          bnd_weak (FinAt.post ih _ _ _ _ (by omega))
        · split
          · split
            · bnd_bind (bnd_next _)
              bnd_weak (FinAt.post ih _ _ _ _ (by omega))
            · exact Bnd.err _ _ _
          · split
            · split
              · rename_i hdot _
                exact FinAt.postDot ih _ _ _ _ (by omega) hdot
              · exact Bnd.err _ _ _
            · exact FinAt.pexp ih _ _ (by omega)
    · -- parseConditional
      intro d nd ts hf
      rw [parseConditional]
      split
      · bnd_bind (bnd_next _)
        split
        · bnd_bind (bnd_next _)
          bnd_bind (FinAt.expr ih _ _ _ (by omega))
          bnd_weak (FinAt.cond ih _ _ _ (by omega))
        · bnd_bind (FinAt.expr ih _ _ _ (by omega))
          bnd_bind (bnd_expect _ _ _)
          bnd_bind (FinAt.expr ih _ _ _ (by omega))
          bnd_weak (FinAt.cond ih _ _ _ (by omega))
      · bnd_ok
    · -- parsePrimaryExpression
      intro d ts hf
      rw [parsePrimaryExpression]
      split
      · bnd_bind (bnd_next _)
        split
        · bnd_ok
        · split
          · bnd_ok
          · split
            · bnd_ok
            · bnd_bind (FinAt.ident ih _ _ _ (by omega))
              bnd_weak (FinAt.post ih _ _ _ _ (by omega))
      · bnd_bind (bnd_next _)
        split
        · bnd_ok
        · bnd_ok
        · exact Bnd.err _ _ _
      · bnd_bind (bnd_next _)
        bnd_ok
      · split
        · bnd_bind (FinAt.arr ih _ _ (by omega))
          bnd_weak (FinAt.post ih _ _ _ _ (by omega))
        · split
          · bnd_bind (FinAt.map ih _ _ (by omega))
            bnd_weak (FinAt.post ih _ _ _ _ (by omega))
          · exact Bnd.err _ _ _
    · -- parseIdentifierExpression
      intro d t ts hf
      rw [parseIdentifierExpression]
      split
      · split
        · bnd_bind (bnd_expect _ _ _)
          rename_i u ts1 hlen
          refine Bnd.bind (n1 := ts1.length) (s1 := false) ?_ ?_
          · split
            · bnd_bind (FinAt.expr ih _ _ _ (by omega))
              bnd_ok
            · split
              · bnd_bind (FinAt.expr ih _ _ _ (by omega))
                bnd_bind (bnd_expect _ _ _)
                bnd_bind (FinAt.clos ih _ _ (by omega))
                bnd_ok
              · bnd_ok
          · intro _ _ hlen
            simp only [Bool.false_eq_true, if_false, Nat.add_zero] at hlen
            bnd_bind (bnd_expect _ _ _)
            bnd_ok
        · bnd_bind (FinAt.args ih _ _ (by omega))
          bnd_ok
      · bnd_ok
    · -- parseClosure
      intro d ts hf
      rw [parseClosure]
      bnd_bind (bnd_expect _ _ _)
      bnd_bind (FinAt.expr ih _ _ _ (by omega))
      bnd_bind (bnd_expect _ _ _)
      bnd_ok
    · -- parseArray
      intro d ts hf
      rw [parseArray]
      bnd_bind (bnd_expect _ _ _)
      bnd_bind (FinAt.arrL ih _ _ _ (by omega))
      bnd_bind (bnd_expect _ _ _)
      bnd_ok
    · -- arrayLoop
      intro d b ts hf
      rw [arrayLoop]
      split
      · bnd_ok
      · bnd_bind (bnd_sep _ _ _ _)
        split
        · bnd_ok
        · bnd_bind (FinAt.expr ih _ _ _ (by omega))
          bnd_bind (FinAt.arrL ih _ _ _ (by omega))
          bnd_ok
    · -- parseMap
      intro d ts hf
      rw [parseMap]
      bnd_bind (bnd_expect _ _ _)
      bnd_bind (FinAt.mapL ih _ _ _ _ (by omega))
      bnd_bind (bnd_expect _ _ _)
      bnd_ok
    · -- mapLoop
      intro d l b ts hf
      rw [mapLoop]
      split
      · bnd_ok
      · bnd_bind (bnd_sep _ _ _ _)
        split
        · bnd_ok
        · split
          · exact Bnd.err _ _ _
          · rename_i u ts1 hlen _ _
            refine Bnd.bind (n1 := ts1.length) (s1 := false) ?_ ?_
            · split
              · bnd_bind (bnd_next _)
                bnd_ok
              · split
                · bnd_weak (FinAt.expr ih _ _ _ (by omega))
                · exact Bnd.err _ _ _
            · intro _ _ hlen2
              simp only [Bool.false_eq_true, if_false, Nat.add_zero] at hlen2
              bnd_bind (bnd_expect _ _ _)
              bnd_bind (FinAt.expr ih _ _ _ (by omega))
              bnd_bind (FinAt.mapL ih _ _ _ _ (by omega))
              bnd_ok
    · -- parsePostfix
      intro d nd b ts hf
      rw [parsePostfix]
      split
      · split
        · bnd_bind (bnd_next _)
          bnd_bind (bnd_next _)
          split
          · exact Bnd.err _ _ _
          · split
            · bnd_bind (FinAt.args ih _ _ (by omega))
              bnd_weak (FinAt.post ih _ _ _ _ (by omega))
            · bnd_weak (FinAt.post ih _ _ _ _ (by omega))
        · split
          · bnd_bind (bnd_next _)
            split
            · bnd_bind (bnd_next _)
              rename_i u2 ts2 hlen2
              refine Bnd.bind (n1 := ts2.length) (s1 := false) ?_ ?_
              · split
                · bnd_ok
                · bnd_bind (FinAt.expr ih _ _ _ (by omega))
                  bnd_ok
              · intro _ _ hlen3
                simp only [Bool.false_eq_true, if_false, Nat.add_zero] at hlen3
                bnd_bind (bnd_expect _ _ _)
                bnd_weak (FinAt.post ih _ _ _ _ (by omega))
            · bnd_bind (FinAt.expr ih _ _ _ (by omega))
              split
              · bnd_bind (bnd_next _)
                rename_i u3 ts3 hlen3
                refine Bnd.bind (n1 := ts3.length) (s1 := false) ?_ ?_
                · split
                  · bnd_ok
                  · bnd_bind (FinAt.expr ih _ _ _ (by omega))
                    bnd_ok
                · intro _ _ hlen4
                  simp only [Bool.false_eq_true, if_false, Nat.add_zero] at hlen4
                  bnd_bind (bnd_expect _ _ _)
                  bnd_weak (FinAt.post ih _ _ _ _ (by omega))
              · bnd_bind (bnd_expect _ _ _)
                bnd_weak (FinAt.post ih _ _ _ _ (by omega))
          · bnd_ok
      · bnd_ok
    · -- parsePostfix on a `.` link consumes
      intro d nd b ts hf hdot
      simp only [Token.is, Bool.and_eq_true, beq_iff_eq] at hdot
      rw [parsePostfix]
      simp only [hdot.1, hdot.2, beq_self_eq_true, Bool.true_or, if_true]
      bnd_bind (bnd_next _)
      bnd_bind (bnd_next _)
      split
      · exact Bnd.err _ _ _
      · split
        · bnd_bind (FinAt.args ih _ _ (by omega))
          bnd_weak (FinAt.post ih _ _ _ _ (by omega))
        · bnd_weak (FinAt.post ih _ _ _ _ (by omega))
    · -- parseArguments
      intro d ts hf
      rw [parseArguments]
      bnd_bind (bnd_expect _ _ _)
      bnd_bind (FinAt.argsL ih _ _ _ (by omega))
      bnd_bind (bnd_expect _ _ _)
      bnd_ok
    · -- argsLoop
      intro d b ts hf
      rw [argsLoop]
      split
      · bnd_ok
      · bnd_bind (bnd_sep _ _ _ _)
        bnd_bind (FinAt.expr ih _ _ _ (by omega))
        bnd_bind (FinAt.argsL ih _ _ _ (by omega))
        bnd_ok

/-- **Fuel sufficiency**: the fuel the driver gives (`fuelFor`, linear in the number of tokens) is
    always enough — the parser model terminates on every token list. -/
theorem parseFuel_sufficient (ts : List Token) : parseFuel cfg (fuelFor ts) ts ≠ .outOfFuel := by
  have h := (finAt cfg (fuelFor ts)).expr 0 0 ts (by unfold fuelFor; omega)
  unfold parseFuel
  cases hr : parseExpression cfg (fuelFor ts) 0 0 ts with
  | ok n rest => simp only; split <;> intro hc <;> cases hc
  | err e => intro hc; cases hc
  | fuel => exact absurd hr h.1

end ExprModel.Parser
