import ExprModel.Proofs.SoundFrag
/-
Soundness against `Spec.eval`, second layer: slices of scalars — identifiers of slice type, `#`,
indexing, `len`, `in`, `..`, slicing, and the collection builtins `all any none one count filter map`
with their closures — on top of the scalar fragment of `Proofs/SoundFrag.lean`.
Tolerated failures: division by zero, index out of range, memory budget.
-/
namespace ExprModel
open Spec

variable {E : ErrClass → Prop}

/-- the value-dependent failures (property text: "index out of range, division by zero, …, budget") -/
def ValueDep (e : ErrClass) : Prop := e = .divzero ∨ e = .index ∨ e = .budget

/-- a slice (or array) value whose elements have scalar kind `k` -/
def ArrOf (v : Val) (k : RKind) : Prop := ∃ et xs, v = .arr et xs ∧ ∀ x ∈ xs, ValOfK x k

/-- value types of the extended fragment: a scalar, or a slice of scalars -/
inductive VTy where
  | sc (k : RKind)
  | sl (k : RKind)
  deriving DecidableEq

def ValOfV (v : Val) : VTy → Prop
  | .sc k => ValOfK v k
  | .sl k => ArrOf v k

/-- the element kind of a slice-of-scalars type -/
def sliceElemKind (t : OTy) : Option RKind :=
  match t with
  | some ty =>
    match ty.core with
    | .slice e => if e.kind.isScalar then some e.kind else none
    | _ => none
  | none => none

def vtyOf (t : OTy) : Option VTy :=
  if t.kind.isScalar then some (.sc t.kind) else (sliceElemKind t).map .sl

theorem vtyOf_scalar {t : OTy} (h : ScalarT t) : vtyOf t = some (.sc t.kind) := by
  unfold vtyOf
  have h' : t.kind.isScalar = true := h
  rw [if_pos h']

theorem vtyOf_sc {t : OTy} {k : RKind} (h : vtyOf t = some (.sc k)) : ScalarT t ∧ t.kind = k := by
  unfold vtyOf at h
  by_cases hs : t.kind.isScalar = true
  · rw [if_pos hs] at h; cases h; exact ⟨hs, rfl⟩
  · rw [if_neg hs] at h
    cases hk : sliceElemKind t <;> rw [hk] at h <;> cases h

theorem vtyOf_sl {t : OTy} {k : RKind} (h : vtyOf t = some (.sl k)) : sliceElemKind t = some k := by
  unfold vtyOf at h
  by_cases hs : t.kind.isScalar = true
  · rw [if_pos hs] at h; cases h
  · rw [if_neg hs] at h
    cases hk : sliceElemKind t with
    | none => rw [hk] at h; cases h
    | some k' => rw [hk] at h; cases h; rfl

/-- facts about a slice-of-scalars type -/
theorem sliceElemKind_facts {t : OTy} {k : RKind} (h : sliceElemKind t = some k) :
    ∃ ty e, t = some ty ∧ ty.core = .slice e ∧ e.kind = k ∧ k.isScalar = true ∧ ty.isPtr = false ∧
      ty.kind = .slice := by
  cases t with
  | none => cases h
  | some ty =>
    simp only [sliceElemKind] at h
    cases hc : ty.core <;> rw [hc] at h <;> simp only [] at h <;> try (cases h)
    rename_i e
    by_cases hs : e.kind.isScalar = true
    · rw [if_pos hs] at h
      cases h
      exact ⟨ty, e, rfl, hc, rfl, hs, by simp [Ty.isPtr, hc], by simp [Ty.kind, hc]⟩
    · rw [if_neg hs] at h; cases h

/-- the checker's predicates on a slice-of-scalars type -/
theorem slice_type_facts {t : OTy} {k : RKind} (h : sliceElemKind t = some k) :
    isArrayT t = true ∧ ∃ et : OTy, indexTypeT t = some et ∧ et.kind = k ∧ ScalarT et := by
  obtain ⟨ty, e, rfl, hc, hk, hs, hp, hkind⟩ := sliceElemKind_facts h
  have hd : OTy.deref (some ty) = some ty := by
    simp only [OTy.deref, Ty.deref_of_not_isPtr hp]
  refine ⟨?_, some e, ?_, hk, ?_⟩
  · unfold isArrayT; rw [hd]; simp [OTy.kind, hkind]
  · unfold indexTypeT; rw [hd]; simp only [hkind, Ty.elem?, hc]
  · unfold ScalarT; simp only [OTy.kind, hk, hs]

/-! ### evaluation judgement for the extended fragment -/

def EvalOKV (E : ErrClass → Prop) (P : Ctx → Prop) (c : SCfg) (n' : Node) (V : VTy) : Prop :=
  ∀ ctx, P ctx → ∀ s, match (eval c ctx n' s).1 with
    | .ok v => ValOfV v V
    | .error e => E e

/-- inside closures: the innermost collection value fits the innermost collection type -/
def CtxFor (cs : List OTy) (ctx : Ctx) : Prop :=
  match cs, ctx with
  | [], _ => True
  | ct :: _, cv :: _ => ∃ k, sliceElemKind ct = some k ∧ ArrOf cv.1 k
  | _ :: _, [] => False

def Spec2 (E : ErrClass → Prop) (cfg : CheckCfg) (c : SCfg) (cs : List OTy) (n : Node) : Prop :=
  ∀ τ V, synth cfg cs n = some τ → vtyOf τ = some V → ∀ st, st.colls = cs →
    (visit cfg n st).2.1 = τ ∧ (visit cfg n st).1.kd = τ.kind ∧
    EvalOKV E (CtxFor cs) c (visit cfg n st).1 V

theorem spec2_to_frag {cfg : CheckCfg} {c : SCfg} {cs : List OTy} {n : Node}
    (h : Spec2 E cfg c cs n) : FragSpec E (CtxFor cs) cfg cs c n := by
  intro τ hs hsc st hst
  exact h τ (.sc τ.kind) hs (vtyOf_scalar hsc) st hst

theorem frag_to_spec2 {cfg : CheckCfg} {c : SCfg} {cs : List OTy} {n : Node}
    (h : FragSpec E (CtxFor cs) cfg cs c n) (hsc : ∀ τ, synth cfg cs n = some τ → ScalarT τ) :
    Spec2 E cfg c cs n := by
  intro τ V hs hV st hst
  have hτ := hsc τ hs
  rw [vtyOf_scalar hτ] at hV
  cases hV
  exact h τ hs hτ st hst

/-! ### values -/

theorem toIntR_num {v : Val} {k : Kind} (h : NumOf v k) : ∃ n, toIntR v = .ok n := by
  cases k <;> obtain ⟨x, rfl⟩ := h <;> exact ⟨_, rfl⟩

theorem getD_mem_of_lt {xs : List Val} {n : Nat} (h : n < xs.length) : xs.getD n .nil ∈ xs := by
  rw [List.getD_eq_getElem?_getD, List.getElem?_eq_getElem h]
  exact List.getElem_mem h

/-- indexing a slice of scalars with a number: an element, or index out of range -/
theorem fetchV_arr {a b : Val} {k : RKind} {ki : Kind} (hi : E .index) (ha : ArrOf a k) (hb : NumOf b ki) :
    match fetchV a b false with
    | .ok v => ValOfK v k
    | .error e => E e := by
  obtain ⟨et, xs, rfl, hxs⟩ := ha
  obtain ⟨n, hn⟩ := toIntR_num hb
  simp only [fetchV, hn]
  by_cases hr : 0 ≤ n ∧ n < (xs.length : Int)
  · simp only [hr, and_self, if_true]
    apply hxs
    apply getD_mem_of_lt
    omega
  · simp only [hr, if_false]
    exact hi

end ExprModel
