import ExprModel.Proofs.SoundFrag
/-
Soundness against `Spec.eval`, second layer: slices of scalars — identifiers of slice type, `#`,
indexing, `len`, `in`, `..`, slicing, and the collection builtins `all any none one count filter map`
with their closures — on top of the scalar fragment of `Proofs/SoundFrag.lean`.
Tolerated failures: division by zero, index out of range, memory budget.
-/
namespace ExprModel
open Spec

variable {E : ErrClass → Prop}

/-- the value-dependent failures (property text: "index out of range, division by zero, …, budget") -/
def ValueDep (e : ErrClass) : Prop := e = .divzero ∨ e = .index ∨ e = .budget

/-- the element tag a Go slice of scalars of kind `k` carries (`[]int`, `[]string`, `[]bool`) -/
def tagOf : RKind → Option ElemT
  | .bool => some .bool
  | .string => some .str
  | .num k => some (.num k)
  | _ => none

/-- a slice (or array) value of element kind `k`: the dynamic element type is the static one (so the
`[]interface{}` that `filter` / `map` build does *not* count as a `[]int`), and every element has kind `k` -/
def ArrOf (v : Val) (k : RKind) : Prop :=
  ∃ et xs, v = .arr et xs ∧ tagOf k = some et ∧ ∀ x ∈ xs, ValOfK x k

/-- value types of the extended fragment: a scalar, or a slice of scalars -/
inductive VTy where
  | sc (k : RKind)
  | sl (k : RKind)
  | anys               -- `[]interface{}` as an array literal builds it: nothing is claimed about the elements
  | obj (t : OTy)      -- a struct or pointer-to-struct type: its members, as the checker types them
  | slo (t : OTy)      -- a slice of structs (or of pointers to structs) with element type `t`
  | mapAny             -- a map with string keys and `interface{}` elements (also what a map literal builds)
  | any                -- an interface type: no claim about the value
  deriving DecidableEq

def VTy.isSlice : VTy → Bool
  | .sl _ | .anys | .slo _ => true
  | .sc _ | .obj _ | .mapAny | .any => false

/-- a collection whose elements are typed: what the builtins iterate and `#` reads -/
def VTy.isColl : VTy → Bool
  | .sl _ | .slo _ => true
  | _ => false

/-- the element kind of a slice-of-scalars type -/
def sliceElemKind (t : OTy) : Option RKind :=
  match t with
  | some ty =>
    match ty.core with
    | .slice e => if e.kind.isScalar then some e.kind else none
    | _ => none
  | none => none

/-- `[]interface{}` -/
def isAnySlice (t : OTy) : Bool :=
  match t with
  | some ty =>
    match ty.core with
    | .slice e => e.kind == .iface
    | _ => false
  | none => false

/-- a struct, or a pointer (of any depth) to a struct -/
def isObjT (t : OTy) : Bool := t.deref.kind == .struct

/-- the element type of a slice of structs / pointers to structs -/
def sloElem (t : OTy) : Option OTy :=
  match t with
  | some ty =>
    match ty.core with
    | .slice e => if isObjT (some e) then some (some e) else none
    | _ => none
  | none => none

/-- `map[string]interface{}` (the key of string kind, the element an interface) -/
def isMapAnyT (t : OTy) : Bool :=
  match t with
  | some ty =>
    match ty.core with
    | .map k e => k.kind == .string && e.kind == .iface
    | _ => false
  | none => false

def vtyOf (t : OTy) : Option VTy :=
  if t.kind.isScalar then some (.sc t.kind)
  else match sliceElemKind t with
    | some k => some (.sl k)
    | none =>
      if isAnySlice t then some .anys
      else match sloElem t with
        | some et => some (.slo et)
        | none =>
          if isObjT t then some (.obj t)
          else if isMapAnyT t then some .mapAny
          else if t.kind == .iface then some .any
          else none

/-- the label under which a struct value of (static) type `t` holds its callable member `name`: the type's
name and the member's (`main.ZM.Add`).  Function values are opaque labels (`Val.fn id`); fixing the label
makes the entry determine the member it is — two members never share a function value by accident. -/
def methKey (t : OTy) (name : String) : String :=
  (match t.deref with
    | some (.named n _ _) => n
    | _ => "") ++ "." ++ name

/-- a value conforms to a type, to depth `n`: scalars and slices as before; for a struct (or pointer to
struct) type, every member the checker resolves on it (`fieldTypeT`, name resolution of the current code)
can be fetched from the value — with or without `?.` — and conforms to the member's type to depth `n - 1`,
and every method (or function-typed member) the checker resolves on it is an entry of the value, labelled
`methKey t name`.
In particular a pointer member that is typed as a struct is not nil.  Types outside the fragment
(interfaces, maps, functions) carry no claim. -/
def Conf : Nat → Val → OTy → Prop
  | 0, _, _ => True
  | n + 1, v, t =>
    match vtyOf t with
    | some (.sc k) => ValOfK v k
    | some (.sl k) => ArrOf v k
    | some .anys => ∃ xs, v = .arr .iface xs
    | some (.obj _) =>
      ∃ nm p fs, v = .struct nm p fs ∧
        (∀ name τ, fieldTypeT .asIs t name = some τ →
          ∃ w, (∀ ns, fetchV v (.str name) ns = .ok w) ∧ Conf n w (some τ)) ∧
        (∀ name fn im, methodTarget .asIs t name = some (fn, im) → lookupKv name fs = some (.fn (methKey t name)))
    | some (.slo et) => ∃ tag xs, v = .arr tag xs ∧ ∀ x ∈ xs, Conf n x et
    | some .mapAny => ∃ kvs, v = .map kvs
    | some .any => True
    | none => True

def ValOfV (v : Val) : VTy → Prop
  | .sc k => ValOfK v k
  | .sl k => ArrOf v k
  | .anys => ∃ xs, v = .arr .iface xs
  | .obj t => ∀ n, Conf n v t
  | .slo et => ∃ tag xs, v = .arr tag xs ∧ ∀ x ∈ xs, ∀ n, Conf n x et
  | .mapAny => ∃ kvs, v = .map kvs
  | .any => True

theorem arr_of_sliceV {v : Val} {V : VTy} (hV : V.isSlice = true) (hv : ValOfV v V) : ∃ et xs, v = .arr et xs := by
  cases V with
  | sc k => cases hV
  | obj t => cases hV
  | mapAny => cases hV
  | any => cases hV
  | slo t => obtain ⟨et, xs, rfl, _⟩ := hv; exact ⟨_, _, rfl⟩
  | sl k => obtain ⟨et, xs, rfl, _, _⟩ := hv; exact ⟨_, _, rfl⟩
  | anys => obtain ⟨xs, rfl⟩ := hv; exact ⟨_, _, rfl⟩

theorem vtyOf_obj {t : OTy} {t' : OTy} (h : vtyOf t = some (.obj t')) : t' = t := by
  unfold vtyOf at h
  (repeat' (split at h)) <;> cases h
  rfl

/-- conformance to every depth gives the value typing of the fragment -/
theorem conf_valOfV {w : Val} {τ : OTy} {V : VTy} (hV : vtyOf τ = some V) (h : ∀ n, Conf n w τ) : ValOfV w V := by
  cases V with
  | obj t' =>
    have := vtyOf_obj hV
    subst this
    exact h
  | sc k => have := h 1; simp only [Conf, hV] at this; exact this
  | sl k => have := h 1; simp only [Conf, hV] at this; exact this
  | anys => have := h 1; simp only [Conf, hV] at this; exact this
  | mapAny => have := h 1; simp only [Conf, hV] at this; exact this
  | any => trivial
  | slo et =>
    have h1 := h 1
    simp only [Conf, hV] at h1
    obtain ⟨tag, xs, rfl, _⟩ := h1
    refine ⟨tag, xs, rfl, ?_⟩
    intro x hx n
    have hn := h (n + 1)
    simp only [Conf, hV] at hn
    obtain ⟨tag', xs', he, hall⟩ := hn
    cases he
    exact hall x hx

theorem valOfV_conf {w : Val} {τ : OTy} {V : VTy} (hV : vtyOf τ = some V) (h : ValOfV w V) : ∀ n, Conf n w τ := by
  intro n
  cases n with
  | zero => trivial
  | succ n =>
    cases V with
    | obj t' =>
      have := vtyOf_obj hV
      subst this
      exact h (n + 1)
    | sc k => simp only [Conf, hV]; exact h
    | sl k => simp only [Conf, hV]; exact h
    | anys => simp only [Conf, hV]; exact h
    | mapAny => simp only [Conf, hV]; exact h
    | any => simp only [Conf, hV]
    | slo et =>
      simp only [Conf, hV]
      obtain ⟨tag, xs, rfl, hall⟩ := h
      exact ⟨tag, xs, rfl, fun x hx => hall x hx n⟩

theorem vtyOf_scalar {t : OTy} (h : ScalarT t) : vtyOf t = some (.sc t.kind) := by
  unfold vtyOf
  have h' : t.kind.isScalar = true := h
  rw [if_pos h']

theorem vtyOf_sc {t : OTy} {k : RKind} (h : vtyOf t = some (.sc k)) : ScalarT t ∧ t.kind = k := by
  unfold vtyOf at h
  by_cases hs : t.kind.isScalar = true
  · rw [if_pos hs] at h; cases h; exact ⟨hs, rfl⟩
  · rw [if_neg hs] at h
    (repeat' (split at h)) <;> cases h

theorem vtyOf_sl {t : OTy} {k : RKind} (h : vtyOf t = some (.sl k)) : sliceElemKind t = some k := by
  unfold vtyOf at h
  by_cases hs : t.kind.isScalar = true
  · rw [if_pos hs] at h; cases h
  · rw [if_neg hs] at h
    cases hk : sliceElemKind t with
    | none =>
      rw [hk] at h; simp only [] at h
      (repeat' (split at h)) <;> cases h
    | some k' => rw [hk] at h; cases h; rfl

/-- facts about a slice-of-scalars type -/
theorem sliceElemKind_facts {t : OTy} {k : RKind} (h : sliceElemKind t = some k) :
    ∃ ty e, t = some ty ∧ ty.core = .slice e ∧ e.kind = k ∧ k.isScalar = true ∧ ty.isPtr = false ∧
      ty.kind = .slice := by
  cases t with
  | none => cases h
  | some ty =>
    simp only [sliceElemKind] at h
    cases hc : ty.core <;> rw [hc] at h <;> simp only [] at h <;> try (cases h)
    rename_i e
    by_cases hs : e.kind.isScalar = true
    · rw [if_pos hs] at h
      cases h
      exact ⟨ty, e, rfl, hc, rfl, hs, by simp [Ty.isPtr, hc], by simp [Ty.kind, hc]⟩
    · rw [if_neg hs] at h; cases h

/-- the checker's predicates on a slice-of-scalars type -/
theorem slice_type_facts {t : OTy} {k : RKind} (h : sliceElemKind t = some k) :
    isArrayT t = true ∧ ∃ et : OTy, indexTypeT t = some et ∧ et.kind = k ∧ ScalarT et := by
  obtain ⟨ty, e, rfl, hc, hk, hs, hp, hkind⟩ := sliceElemKind_facts h
  have hd : OTy.deref (some ty) = some ty := by
    simp only [OTy.deref, Ty.deref_of_not_isPtr hp]
  refine ⟨?_, some e, ?_, hk, ?_⟩
  · unfold isArrayT; rw [hd]; simp [OTy.kind, hkind]
  · unfold indexTypeT; rw [hd]; simp only [hkind, Ty.elem?, hc]
  · unfold ScalarT; simp only [OTy.kind, hk, hs]

theorem vtyOf_slice_of {t : OTy} {k : RKind} (hk : sliceElemKind t = some k) : vtyOf t = some (.sl k) := by
  unfold vtyOf
  obtain ⟨ty, e, rfl, _, _, _, _, hkind⟩ := sliceElemKind_facts hk
  simp [OTy.kind, hkind, RKind.isScalar, hk]

theorem obj_core {ty : Ty} (h : isObjT (some ty) = true) :
    (∃ fs, ty.core = .struct fs) ∨ (∃ u, ty.core = .ptr u) := by
  by_cases hp : ty.isPtr = true
  · unfold Ty.isPtr at hp
    cases hc : ty.core <;> rw [hc] at hp <;> simp only [] at hp <;> first | exact Or.inr ⟨_, rfl⟩ | cases hp
  · have hp' : ty.isPtr = false := by simpa using hp
    have hd := Ty.deref_of_not_isPtr hp'
    simp only [isObjT, OTy.deref, OTy.kind, hd, beq_iff_eq] at h
    exact Or.inl (Ty.kind_struct_iff.1 h)

theorem vtyOf_of_isObj {t : OTy} (h : isObjT t = true) : vtyOf t = some (.obj t) := by
  cases t with
  | none => simp [isObjT, OTy.deref, OTy.kind] at h
  | some ty =>
    rcases obj_core h with ⟨fs, hc⟩ | ⟨u, hc⟩ <;>
      simp [vtyOf, OTy.kind, Ty.kind, hc, RKind.isScalar, sliceElemKind, isAnySlice, sloElem, h]

/-- facts about a slice-of-structs type -/
theorem slo_facts {t et : OTy} (h : vtyOf t = some (.slo et)) :
    isArrayT t = true ∧ indexTypeT t = some et ∧ vtyOf et = some (.obj et) := by
  have hse : sloElem t = some et := by
    unfold vtyOf at h
    (repeat' (split at h)) <;> first | (cases h; assumption) | cases h
  cases t with
  | none => cases hse
  | some ty =>
    simp only [sloElem] at hse
    cases hc : ty.core <;> rw [hc] at hse <;> simp only [] at hse <;> try (cases hse)
    rename_i e
    by_cases ho : isObjT (some e) = true
    · rw [if_pos ho] at hse
      cases hse
      have hp : ty.isPtr = false := by simp [Ty.isPtr, hc]
      have hkind : ty.kind = .slice := by simp [Ty.kind, hc]
      have hd : OTy.deref (some ty) = some ty := by
        simp only [OTy.deref, Ty.deref_of_not_isPtr hp]
      refine ⟨?_, ?_, vtyOf_of_isObj ho⟩
      · unfold isArrayT; rw [hd]; simp [OTy.kind, hkind]
      · unfold indexTypeT; rw [hd]; simp only [hkind, Ty.elem?, hc]
    · rw [if_neg ho] at hse; cases hse

theorem coll_shape {t : OTy} {V : VTy} (hV : vtyOf t = some V) (hc : V.isColl = true) :
    ∃ ty, t = some ty ∧ ty.isPtr = false ∧ ty.kind = .slice := by
  cases V with
  | sl k =>
    obtain ⟨ty, e, rfl, _, _, _, hp, hkind⟩ := sliceElemKind_facts (vtyOf_sl hV)
    exact ⟨ty, rfl, hp, hkind⟩
  | slo et =>
    have hse : sloElem t = some et := by
      unfold vtyOf at hV
      (repeat' (split at hV)) <;> first | (cases hV; assumption) | cases hV
    cases t with
    | none => cases hse
    | some ty =>
      simp only [sloElem] at hse
      cases hcore : ty.core <;> rw [hcore] at hse <;> simp only [] at hse <;> try (cases hse)
      exact ⟨ty, rfl, by simp [Ty.isPtr, hcore], by simp [Ty.kind, hcore]⟩
  | sc _ => cases hc
  | anys => cases hc
  | obj _ => cases hc
  | mapAny => cases hc
  | any => cases hc

theorem coll_isArrayT {t : OTy} {V : VTy} (hV : vtyOf t = some V) (hc : V.isColl = true) : isArrayT t = true := by
  cases V with
  | sl k => exact (slice_type_facts (vtyOf_sl hV)).1
  | slo et => exact (slo_facts hV).1
  | sc _ => cases hc
  | anys => cases hc
  | obj _ => cases hc
  | mapAny => cases hc
  | any => cases hc

theorem arr_of_collV {v : Val} {V : VTy} (hc : V.isColl = true) (hv : ValOfV v V) : ∃ et xs, v = .arr et xs := by
  cases V with
  | sl k => obtain ⟨et, xs, rfl, _, _⟩ := hv; exact ⟨_, _, rfl⟩
  | slo t => obtain ⟨et, xs, rfl, _⟩ := hv; exact ⟨_, _, rfl⟩
  | sc _ => cases hc
  | anys => cases hc
  | obj _ => cases hc
  | mapAny => cases hc
  | any => cases hc

/-! ### evaluation judgement for the extended fragment -/

def EvalOKV (E : ErrClass → Prop) (P : Ctx → Prop) (c : SCfg) (n' : Node) (V : VTy) : Prop :=
  ∀ ctx, P ctx → ∀ s, match (eval c ctx n' s).1 with
    | .ok v => ValOfV v V
    | .error e => E e

/-- inside closures: the innermost collection value fits the innermost collection type -/
def CtxFor (cs : List OTy) (ctx : Ctx) : Prop :=
  match cs, ctx with
  | [], _ => True
  | ct :: _, cv :: _ => ∃ V, vtyOf ct = some V ∧ V.isColl = true ∧ ValOfV cv.1 V
  | _ :: _, [] => False

def Spec2 (E : ErrClass → Prop) (cfg : CheckCfg) (c : SCfg) (cs : List OTy) (n : Node) : Prop :=
  ∀ τ V, synth cfg cs n = some τ → vtyOf τ = some V → ∀ st, st.colls = cs →
    (visit cfg n st).2.1 = τ ∧ (visit cfg n st).1.kd = τ.kind ∧
    EvalOKV E (CtxFor cs) c (visit cfg n st).1 V

theorem spec2_to_frag {cfg : CheckCfg} {c : SCfg} {cs : List OTy} {n : Node}
    (h : Spec2 E cfg c cs n) : FragSpec E (CtxFor cs) cfg cs c n := by
  intro τ hs hsc st hst
  exact h τ (.sc τ.kind) hs (vtyOf_scalar hsc) st hst

theorem frag_to_spec2 {cfg : CheckCfg} {c : SCfg} {cs : List OTy} {n : Node}
    (h : FragSpec E (CtxFor cs) cfg cs c n) (hsc : ∀ τ, synth cfg cs n = some τ → ScalarT τ) :
    Spec2 E cfg c cs n := by
  intro τ V hs hV st hst
  have hτ := hsc τ hs
  rw [vtyOf_scalar hτ] at hV
  cases hV
  exact h τ hs hτ st hst

/-! ### values -/

theorem toIntR_num {v : Val} {k : Kind} (h : NumOf v k) : ∃ n, toIntR v = .ok n := by
  cases k <;> obtain ⟨x, rfl⟩ := h <;> exact ⟨_, rfl⟩

theorem getD_mem_of_lt {xs : List Val} {n : Nat} (h : n < xs.length) : xs.getD n .nil ∈ xs := by
  rw [List.getD_eq_getElem?_getD, List.getElem?_eq_getElem h]
  exact List.getElem_mem h

/-- indexing a slice of scalars with a number: an element, or index out of range -/
theorem fetchV_arr {a b : Val} {k : RKind} {ki : Kind} (hi : E .index) (ha : ArrOf a k) (hb : NumOf b ki) :
    match fetchV a b false with
    | .ok v => ValOfK v k
    | .error e => E e := by
  obtain ⟨et, xs, rfl, _, hxs⟩ := ha
  obtain ⟨n, hn⟩ := toIntR_num hb
  simp only [fetchV, hn]
  by_cases hr : 0 ≤ n ∧ n < (xs.length : Int)
  · simp only [hr, and_self, if_true]
    apply hxs
    apply getD_mem_of_lt
    omega
  · simp only [hr, if_false]
    exact hi

theorem fetchV_arr_gen {tag : ElemT} {xs : List Val} {b : Val} {ki : Kind} (Q : Val → Prop) (hi : E .index)
    (hxs : ∀ x ∈ xs, Q x) (hb : NumOf b ki) :
    match fetchV (.arr tag xs) b false with
    | .ok v => Q v
    | .error e => E e := by
  obtain ⟨n, hn⟩ := toIntR_num hb
  simp only [fetchV, hn]
  by_cases hr : 0 ≤ n ∧ n < (xs.length : Int)
  · simp only [hr, and_self, if_true]
    apply hxs
    apply getD_mem_of_lt
    omega
  · simp only [hr, if_false]
    exact hi

/-! ### identifiers and `#` -/

/-- the environment value holds, under every name whose type `vtyOf` classifies (scalar, slice of scalars or
of structs, `[]interface{}`, struct or pointer to struct, `map[string]interface{}`, interface), a value of
that type (`ValOfV`; for structs: `Conf` to every depth) -/
def EnvConforms2 (cfg : CheckCfg) (env : Val) : Prop :=
  ∀ name ns τ V, identRule cfg name ns = .ok τ → vtyOf τ = some V →
    ∃ v, fetchV env (.str name) ns = .ok v ∧ ValOfV v V

theorem spec2_ident (cfg : CheckCfg) (c : SCfg) (cs : List OTy) (henv : EnvConforms2 cfg c.env) (m : Meta)
    (name : String) (ns : Bool) : Spec2 E cfg c cs (.ident m name ns) := by
  intro τ V hs hV st _
  simp only [synth] at hs
  have hrule := toOption'_some hs
  simp only [visit, hrule, orFail_ok]
  refine ⟨trivial, setKd_kd _ _, ?_⟩
  intro ctx _ s
  show match (eval c ctx (.ident { m with kd := τ.kind } name ns) s).1 with
    | .ok v => ValOfV v V
    | .error e => E e
  obtain ⟨v, hv, hk⟩ := henv name ns τ V hrule hV
  simp only [eval, SM.lift, hv, SM.pure']
  exact hk

theorem spec2_pointer (hi : E .index) (cfg : CheckCfg) (c : SCfg) (cs : List OTy) (m : Meta) :
    Spec2 E cfg c cs (.pointer m) := by
  intro τ V hs hV st hst
  simp only [synth] at hs
  have hrule := toOption'_some hs
  simp only [visit, hst, hrule, orFail_ok]
  refine ⟨trivial, setKd_kd _ _, ?_⟩
  intro ctx hctx s
  show match (eval c ctx (.pointer { m with kd := τ.kind }) s).1 with
    | .ok v => ValOfV v V
    | .error e => E e
  cases cs with
  | nil => simp [pointerRule] at hrule
  | cons ct rest =>
    cases ctx with
    | nil => exact absurd hctx (by simp [CtxFor])
    | cons cv ctx' =>
      obtain ⟨coll, i⟩ := cv
      obtain ⟨Vc, hVc, hcoll, harr⟩ := hctx
      have hnum : NumOf (Val.int .int i) Kind.int := ⟨i, rfl⟩
      cases Vc with
      | sl k =>
        have hk := vtyOf_sl hVc
        obtain ⟨_, et, hidx, hek, hes⟩ := slice_type_facts hk
        simp only [pointerRule, hidx] at hrule
        cases hrule
        rw [vtyOf_scalar hes, hek] at hV
        cases hV
        simp only [eval, SM.lift]
        have hf := fetchV_arr (E := E) hi harr hnum
        cases hfe : fetchV coll (.int .int i) false with
        | ok v => rw [hfe] at hf; exact hf
        | error e => rw [hfe] at hf; exact hf
      | slo et =>
        obtain ⟨_, hidx, hobj⟩ := slo_facts hVc
        simp only [pointerRule, hidx] at hrule
        cases hrule
        rw [hobj] at hV
        cases hV
        obtain ⟨tag, xs, rfl, hall⟩ := harr
        simp only [eval, SM.lift]
        have hf := fetchV_arr_gen (E := E) (tag := tag) (fun v => ∀ n, Conf n v τ) hi hall hnum
        cases hfe : fetchV (.arr tag xs) (.int .int i) false with
        | ok v => rw [hfe] at hf; exact hf
        | error e => rw [hfe] at hf; exact hf
      | sc _ => cases hcoll
      | anys => cases hcoll
      | obj _ => cases hcoll
      | mapAny => cases hcoll
      | any => cases hcoll

/-! ### indexing, `len`, `in`, `..` -/

theorem spec2_index (hi : E .index) (cfg : CheckCfg) (c : SCfg) (cs : List OTy) (m : Meta) (x i : Node)
    (ihx : Spec2 E cfg c cs x) (ihi : Spec2 E cfg c cs i)
    (hx : ∀ t, synth cfg cs x = some t → ∃ k, sliceElemKind t = some k)
    (hidx : ∀ it, synth cfg cs i = some it → ScalarT it ∧ isIntegerT it = true) :
    Spec2 E cfg c cs (.index m x i) := by
  intro τ V hs hV st hst
  simp only [synth] at hs
  cases hsx : synth cfg cs x with
  | none => rw [hsx] at hs; cases hs
  | some t =>
    cases hsi : synth cfg cs i with
    | none => rw [hsx, hsi] at hs; cases hs
    | some it =>
      rw [hsx, hsi] at hs
      simp only [] at hs
      have hrule := toOption'_some hs
      obtain ⟨k, hk⟩ := hx t hsx
      obtain ⟨his, hii⟩ := hidx it hsi
      obtain ⟨ki, hki, _⟩ := (isIntegerT_scalar his).1 hii
      obtain ⟨_, et, hidxT, hek, hes⟩ := slice_type_facts hk
      have hVx : vtyOf t = some (.sl k) := vtyOf_slice_of hk
      obtain ⟨e1, _, ev1⟩ := ihx t (.sl k) hsx hVx st hst
      have hst1 := visit_colls cfg x st
      rcases hxv : visit cfg x st with ⟨x', t', st1⟩
      rw [hxv] at e1 ev1 hst1
      simp only [] at e1 ev1 hst1
      subst e1
      obtain ⟨e2, _, ev2⟩ := ihi it (.sc it.kind) hsi (vtyOf_scalar his) st1 (hst1.trans hst)
      rcases hiv : visit cfg i st1 with ⟨i', it', st2⟩
      rw [hiv] at e2 ev2
      simp only [] at e2 ev2
      subst e2
      -- the rule's result is the element type
      have hτ : τ = et := by
        unfold indexRule at hrule
        rw [hidxT] at hrule
        simp only [] at hrule
        split at hrule
        · cases hrule
        · cases hrule; rfl
      subst hτ
      rw [vtyOf_scalar hes, hek] at hV
      cases hV
      simp only [visit, hxv, hiv, hrule, orFail_ok]
      refine ⟨trivial, setKd_kd _ _, ?_⟩
      intro ctx hctx s
      show match (eval c ctx (.index { m with kd := OTy.kind τ } x' i') s).1 with
        | .ok v => ValOfK v k
        | .error e => E e
      simp only [eval, bind]
      unfold SM.bind'
      have h1 := ev1 ctx hctx s
      rcases hea : eval c ctx x' s with ⟨ra, s1⟩
      rw [hea] at h1
      cases ra with
      | error e => exact h1
      | ok a =>
        simp only [] at h1 ⊢
        have h2 := ev2 ctx hctx s1
        rcases heb : eval c ctx i' s1 with ⟨rb, s2⟩
        rw [heb] at h2
        cases rb with
        | error e => exact h2
        | ok b =>
          simp only [] at h2 ⊢
          rw [hki] at h2
          have hf := fetchV_arr (E := E) hi h1 h2
          simp only [SM.lift]
          cases hfe : fetchV a b false with
          | ok v => rw [hfe] at hf; exact hf
          | error e => rw [hfe] at hf; exact hf

theorem lengthV_ok {v : Val} {V : VTy} (hV : V = .sc .string ∨ V.isSlice = true ∨ V = .mapAny) (hv : ValOfV v V) :
    ∃ n, lengthV v = .ok n := by
  rcases hV with rfl | hsl | rfl
  · obtain ⟨x, rfl⟩ := hv; exact ⟨_, rfl⟩
  · obtain ⟨et, xs, rfl⟩ := arr_of_sliceV hsl hv; exact ⟨_, rfl⟩
  · obtain ⟨kvs, rfl⟩ := hv; exact ⟨_, rfl⟩

theorem spec2_len (cfg : CheckCfg) (c : SCfg) (cs : List OTy) (m : Meta) (a : Node)
    (iha : Spec2 E cfg c cs a)
    (ha : ∀ t, synth cfg cs a = some t → ∃ V, vtyOf t = some V ∧ (V = .sc .string ∨ V.isSlice = true ∨ V = .mapAny)) :
    Spec2 E cfg c cs (.builtin m "len" [a]) := by
  intro τ V hs hV st hst
  simp (config := {decide := true}) only [synth, if_true] at hs
  cases hsa : synth cfg cs a with
  | none => rw [hsa] at hs; cases hs
  | some pt =>
    rw [hsa] at hs
    simp only [] at hs
    have hrule := toOption'_some hs
    obtain ⟨Va, hVa, hshape⟩ := ha pt hsa
    obtain ⟨e1, _, ev1⟩ := iha pt Va hsa hVa st hst
    rcases hav : visit cfg a st with ⟨a', pt', st1⟩
    rw [hav] at e1 ev1
    simp only [] at e1 ev1
    subst e1
    have hτ : τ = intTy := by
      unfold lenRule at hrule
      split at hrule
      · cases hrule; rfl
      · cases hrule
    subst hτ
    have : V = .sc (.num .int) := by
      have : vtyOf intTy = some (.sc (.num .int)) := by decide
      rw [this] at hV; cases hV; rfl
    subst this
    simp (config := {decide := true}) only [visit, if_true, hav, hrule, orFail_ok]
    refine ⟨trivial, setKd_kd _ _, ?_⟩
    intro ctx hctx s
    show match (eval c ctx (.builtin { m with kd := OTy.kind intTy } "len" [a']) s).1 with
      | .ok v => ValOfK v (.num .int)
      | .error e => E e
    simp only [eval, bind]
    unfold SM.bind'
    have h1 := ev1 ctx hctx s
    rcases hea : eval c ctx a' s with ⟨ra, s1⟩
    rw [hea] at h1
    cases ra with
    | error e => exact h1
    | ok v =>
      simp only [] at h1 ⊢
      obtain ⟨n, hn⟩ := lengthV_ok hshape h1
      simp only [SM.lift, hn, SM.pure', pure]
      exact ⟨n, rfl⟩

/-- both operands evaluated, then a tail: the strict binary shape, with value types -/
theorem strict_binary2 {P : Ctx → Prop} (c : SCfg) (l r : Node) (Vl Vr V : VTy)
    (hl : EvalOKV E P c l Vl) (hr : EvalOKV E P c r Vr)
    (tail : Val → Val → SM Val)
    (htail : ∀ a b s, ValOfV a Vl → ValOfV b Vr →
      match (tail a b s).1 with | .ok v => ValOfV v V | .error e => E e)
    (ctx : Ctx) (hctx : P ctx) (s : SState) :
    match (((eval c ctx l).bind' fun a => (eval c ctx r).bind' fun b => tail a b) s).1 with
    | .ok v => ValOfV v V
    | .error e => E e := by
  have h1 := hl ctx hctx s
  unfold SM.bind'
  rcases hel : eval c ctx l s with ⟨ra, s1⟩
  rw [hel] at h1
  cases ra with
  | error e => exact h1
  | ok a =>
    simp only [] at h1 ⊢
    have h2 := hr ctx hctx s1
    rcases her : eval c ctx r s1 with ⟨rb, s2⟩
    rw [her] at h2
    cases rb with
    | error e => exact h2
    | ok b => exact htail a b s2 h1 h2


/-- `x in xs` / `x not in xs` for a slice `xs` -/
theorem spec2_in (cfg : CheckCfg) (c : SCfg) (cs : List OTy) (m : Meta) (op : String) (l r : Node)
    (hop : op = "in" ∨ op = "not in")
    (ihl : Spec2 E cfg c cs l) (ihr : Spec2 E cfg c cs r)
    (hlr : ∀ lt rt, synth cfg cs l = some lt → synth cfg cs r = some rt →
      ∃ Vl Vr, vtyOf lt = some Vl ∧ vtyOf rt = some Vr ∧
        ∀ a b, ValOfV a Vl → ValOfV b Vr → ∃ res, inV a b = .ok res) :
    Spec2 E cfg c cs (.binary m op l r) := by
  intro τ V hs hV st hst
  simp only [synth] at hs
  cases hsl : synth cfg cs l with
  | none => rw [hsl] at hs; cases hs
  | some lt =>
    cases hsr : synth cfg cs r with
    | none => rw [hsl, hsr] at hs; cases hs
    | some rt =>
      rw [hsl, hsr] at hs
      simp only [] at hs
      have hrule := toOption'_some hs
      obtain ⟨Vl, Vr, hVl, hVr, hin⟩ := hlr lt rt hsl hsr
      obtain ⟨e1, _, ev1⟩ := ihl lt Vl hsl hVl st hst
      have hst1 := visit_colls cfg l st
      rcases hlv : visit cfg l st with ⟨l', lt', st1⟩
      rw [hlv] at e1 ev1 hst1
      simp only [] at e1 ev1 hst1
      subst e1
      obtain ⟨e2, _, ev2⟩ := ihr rt Vr hsr hVr st1 (hst1.trans hst)
      rcases hrv : visit cfg r st1 with ⟨r', rt', st2⟩
      rw [hrv] at e2 ev2
      simp only [] at e2 ev2
      subst e2
      have hτ : τ = boolTy := by
        rcases hop with rfl | rfl <;> simp [binaryRule] at hrule <;> split at hrule <;>
          first | (cases hrule; rfl) | cases hrule
      subst hτ
      have : V = .sc .bool := by
        have : vtyOf boolTy = some (.sc .bool) := by decide
        rw [this] at hV; cases hV; rfl
      subst this
      simp only [visit, hlv, hrv, hrule, orFail_ok]
      refine ⟨trivial, setKd_kd _ _, ?_⟩
      intro ctx hctx s
      have tailok : ∀ (neg : Bool) a b s', ValOfV a Vl → ValOfV b Vr →
          match (((SM.lift (inV a b)).bind' fun r => pure (Val.bool (if neg then !r else r)) : SM Val) s').1 with
          | .ok v => ValOfV v (.sc .bool) | .error e => E e := by
        intro neg a b s' ha hb
        obtain ⟨res, hres⟩ := hin a b ha hb
        simp only [hres, SM.lift, SM.bind', SM.pure', pure]
        exact ⟨_, rfl⟩
      rcases hop with rfl | rfl
      · show match (eval c ctx (.binary { m with kd := OTy.kind boolTy } "in" l' r') s).1 with
          | .ok v => ValOfV v (.sc .bool) | .error e => E e
        simp (config := {decide := true}) only [eval, bind, if_false, if_true]
        refine strict_binary2 c l' r' Vl Vr (.sc .bool) ev1 ev2 _ ?_ ctx hctx s
        intro a b s' ha hb
        have := tailok false a b s' ha hb
        simpa using this
      · show match (eval c ctx (.binary { m with kd := OTy.kind boolTy } "not in" l' r') s).1 with
          | .ok v => ValOfV v (.sc .bool) | .error e => E e
        simp (config := {decide := true}) only [eval, bind, if_false, if_true]
        refine strict_binary2 c l' r' Vl Vr (.sc .bool) ev1 ev2 _ ?_ ctx hctx s
        intro a b s' ha hb
        have := tailok true a b s' ha hb
        simpa using this

theorem allocBefore_cases (lim cnt : Int) (b : Nat) (s : SState) :
    SM.allocBefore lim cnt b s = (.error .budget, s) ∨ ∃ s', SM.allocBefore lim cnt b s = (.ok (), s') := by
  unfold SM.allocBefore
  split
  · exact Or.inl rfl
  · exact Or.inr ⟨_, rfl⟩

theorem allocAfter_cases (lim cnt : Int) (b : Nat) (s : SState) :
    (∃ s', SM.allocAfter lim cnt b s = (.error .budget, s')) ∨ ∃ s', SM.allocAfter lim cnt b s = (.ok (), s') := by
  unfold SM.allocAfter
  simp only []
  split
  · exact Or.inl ⟨_, rfl⟩
  · exact Or.inr ⟨_, rfl⟩

theorem rangeElems_ints (lo hi : Int) : ∀ x ∈ rangeElems lo hi, ValOfK x (.num .int) := by
  intro x hx
  unfold rangeElems at hx
  split at hx
  · cases hx
  · obtain ⟨i, _, rfl⟩ := List.mem_map.1 hx
    exact ⟨_, rfl⟩

/-- `a..b` -/
theorem spec2_range (hb : E .budget) (cfg : CheckCfg) (c : SCfg) (cs : List OTy) (m : Meta) (l r : Node)
    (ihl : Spec2 E cfg c cs l) (ihr : Spec2 E cfg c cs r)
    (hl : ∀ t, synth cfg cs l = some t → ScalarT t) (hr : ∀ t, synth cfg cs r = some t → ScalarT t) :
    Spec2 E cfg c cs (.binary m ".." l r) := by
  intro τ V hs hV st hst
  simp only [synth] at hs
  cases hsl : synth cfg cs l with
  | none => rw [hsl] at hs; cases hs
  | some lt =>
    cases hsr : synth cfg cs r with
    | none => rw [hsl, hsr] at hs; cases hs
    | some rt =>
      rw [hsl, hsr] at hs
      simp only [] at hs
      have hrule := toOption'_some hs
      have hls := hl lt hsl
      have hrs := hr rt hsr
      obtain ⟨e1, _, ev1⟩ := ihl lt (.sc lt.kind) hsl (vtyOf_scalar hls) st hst
      have hst1 := visit_colls cfg l st
      rcases hlv : visit cfg l st with ⟨l', lt', st1⟩
      rw [hlv] at e1 ev1 hst1
      simp only [] at e1 ev1 hst1
      subst e1
      obtain ⟨e2, _, ev2⟩ := ihr rt (.sc rt.kind) hsr (vtyOf_scalar hrs) st1 (hst1.trans hst)
      rcases hrv : visit cfg r st1 with ⟨r', rt', st2⟩
      rw [hrv] at e2 ev2
      simp only [] at e2 ev2
      subst e2
      simp [binaryRule] at hrule
      split at hrule
      · rename_i hc
        cases hrule
        obtain ⟨ka, k1, _⟩ := (isIntegerT_scalar hls).1 hc.1
        obtain ⟨kb, k2, _⟩ := (isIntegerT_scalar hrs).1 hc.2
        have : V = .sl (.num .int) := by
          have : vtyOf (some (Ty.slice (Ty.num Kind.int))) = some (.sl (.num .int)) := by decide
          rw [this] at hV; cases hV; rfl
        subst this
        have hrule' : binaryRule cfg.dt ".." lt' rt' = .ok (some (Ty.slice (Ty.num Kind.int))) := by
          simp [binaryRule, hc]
        simp only [visit, hlv, hrv, hrule', orFail_ok]
        refine ⟨trivial, setKd_kd _ _, ?_⟩
        intro ctx hctx s
        show match (eval c ctx (.binary { m with kd := OTy.kind (some (Ty.slice (Ty.num Kind.int))) } ".." l' r') s).1 with
          | .ok v => ValOfV v (.sl (.num .int)) | .error e => E e
        simp (config := {decide := true}) only [eval, bind, if_false, if_true]
        refine strict_binary2 c l' r' (.sc lt'.kind) (.sc rt'.kind) (.sl (.num .int)) ev1 ev2 _ ?_ ctx hctx s
        intro a b s' ha hb'
        rw [k1] at ha; rw [k2] at hb'
        obtain ⟨lo, hlo⟩ := toIntR_num ha
        obtain ⟨hi', hhi⟩ := toIntR_num hb'
        simp only [SM.lift, hlo, hhi, SM.bind', SM.pure', pure]
        rcases allocBefore_cases c.budget
            (if c.rangeSizeSigned = true then hi' - lo + 1 else if hi' - lo + 1 < 0 then 0 else hi' - lo + 1)
            (rangeElems lo hi').length s' with he | ⟨s'', he⟩
        · rw [he]; exact hb
        · rw [he]; exact ⟨_, _, rfl, rfl, rangeElems_ints lo hi'⟩
      · cases hrule

/-! ### the loops of the collection builtins -/

/-- outcome of one loop step: continue with an accumulator satisfying `Inv`, stop with a result
satisfying `Res`, or fail with a tolerated failure -/
def StepOK {α : Type} (E : ErrClass → Prop) (Inv : α → Prop) (Res : Val → Prop) (r : R (α ⊕ Val)) : Prop :=
  match r with
  | .ok (.inl a') => Inv a'
  | .ok (.inr v) => Res v
  | .error e => E e

def ResOK (E : ErrClass → Prop) (Res : Val → Prop) (r : R Val) : Prop :=
  match r with
  | .ok v => Res v
  | .error e => E e

theorem loopIdx_spec {α : Type} (Inv : α → Prop) (Res : Val → Prop) (body : Nat → α → SM (α ⊕ Val))
    (hbody : ∀ i acc s, Inv acc → StepOK E Inv Res (body i acc s).1) :
    ∀ fuel i acc s, Inv acc → StepOK E Inv Res (loopIdx body fuel i acc s).1 := by
  intro fuel
  induction fuel with
  | zero => intro i acc s h; exact h
  | succ fuel ih =>
    intro i acc s h
    have hb := hbody i acc s h
    simp only [loopIdx, bind]
    unfold SM.bind'
    rcases hr : body i acc s with ⟨r, s1⟩
    rw [hr] at hb
    cases r with
    | error e => exact hb
    | ok x =>
      cases x with
      | inl a' => exact ih (i + 1) a' s1 hb
      | inr v => exact hb

/-- a loop followed by a final step on the accumulator (an early result is returned as it is) -/
def loopThen {α : Type} (body : Nat → α → SM (α ⊕ Val)) (fuel : Nat) (acc0 : α) (fin : α → SM Val) : SM Val :=
  fun s =>
    match loopIdx body fuel 0 acc0 s with
    | (.ok r, s') =>
      (match r with
        | .inl a => fin a
        | .inr v => pure v) s'
    | (.error e, s') => (.error e, s')

theorem loopThen_spec {α : Type} (Inv : α → Prop) (Res : Val → Prop) (body : Nat → α → SM (α ⊕ Val))
    (hbody : ∀ i acc s, Inv acc → StepOK E Inv Res (body i acc s).1)
    (fuel : Nat) (acc0 : α) (h0 : Inv acc0) (fin : α → SM Val)
    (hfin : ∀ a s, Inv a → ResOK E Res (fin a s).1) (s : SState) :
    ResOK E Res (loopThen body fuel acc0 fin s).1 := by
  have hl := loopIdx_spec (E := E) Inv Res body hbody fuel 0 acc0 s h0
  unfold loopThen
  rcases hL : loopIdx body fuel 0 acc0 s with ⟨r, s'⟩
  rw [hL] at hl
  cases r with
  | error e => exact hl
  | ok x =>
    cases x with
    | inl a => exact hfin a s' hl
    | inr v => exact hl

/-- the step of a predicate loop -/
def predStep (c : SCfg) (ctx : Ctx) (coll : Val) (b : Node) (onTrue onFalse : Unit ⊕ Val) :
    Nat → Unit → SM (Unit ⊕ Val) :=
  fun i _ => do
    if ← asBool (← eval c ((coll, (i : Int)) :: ctx) b) then pure onTrue else pure onFalse

def isBoolVal (v : Val) : Prop := ∃ x, v = .bool x

theorem predStep_spec (c : SCfg) (ctx : Ctx) (coll : Val) (b : Node) (t f : Unit ⊕ Val)
    (ht : ∀ v, t = .inr v → isBoolVal v) (hf : ∀ v, f = .inr v → isBoolVal v)
    (hb : ∀ (i : Nat) s, ResOK E isBoolVal (eval c ((coll, (i : Int)) :: ctx) b s).1)
    (i : Nat) (acc : Unit) (s : SState) (_ : True) :
    StepOK E (fun _ : Unit => True) isBoolVal (predStep c ctx coll b t f i acc s).1 := by
  have h := hb i s
  simp only [predStep, bind]
  unfold SM.bind'
  rcases hev : eval c ((coll, (i : Int)) :: ctx) b s with ⟨r, s1⟩
  rw [hev] at h
  cases r with
  | error e => exact h
  | ok v =>
    obtain ⟨x, rfl⟩ := h
    cases x <;> simp only [asBool, SM.pure', pure]
    · cases f with
      | inl u => trivial
      | inr v => exact hf v rfl
    · cases t with
      | inl u => trivial
      | inr v => exact ht v rfl

/-- the closure's body evaluated at element `i` of `coll` -/
theorem body_at {cs : List OTy} {collT : OTy} {Va : VTy} (c : SCfg) (b : Node) (Vb : VTy)
    (hk : vtyOf collT = some Va) (hVa : Va.isColl = true)
    (hbody : EvalOKV E (CtxFor (collT :: cs)) c b Vb)
    (coll : Val) (hcoll : ValOfV coll Va) (i : Int) (ctx : Ctx) (s : SState) :
    match (eval c ((coll, i) :: ctx) b s).1 with
    | .ok v => ValOfV v Vb
    | .error e => E e :=
  hbody ((coll, i) :: ctx) ⟨Va, hk, hVa, hcoll⟩ s

theorem loopIdx_spec_eq {α : Type} (Inv : α → Prop) (Res : Val → Prop) (body : Nat → α → SM (α ⊕ Val))
    (hbody : ∀ i acc s, Inv acc → StepOK E Inv Res (body i acc s).1)
    (fuel i : Nat) (acc : α) (s : SState) (r : R (α ⊕ Val)) (s' : SState)
    (h : loopIdx body fuel i acc s = (r, s')) (h0 : Inv acc) : StepOK E Inv Res r := by
  have := loopIdx_spec (E := E) Inv Res body hbody fuel i acc s h0
  rw [h] at this; exact this

/-! ### the predicate builtins `all none any one count` in loop form -/

def evalPredLoop (c : SCfg) (ctx : Ctx) (a b : Node) (t f : Unit ⊕ Val) (dflt : Val) : SM Val := do
  let coll ← eval c ctx a
  let n ← SM.lift (lengthV coll)
  match ← loopIdx (predStep c ctx coll b t f) n.toNat 0 () with
  | .inl _ => pure dflt
  | .inr v => pure v

def countStep (c : SCfg) (ctx : Ctx) (coll : Val) (b : Node) : Nat → Int → SM (Int ⊕ Val) :=
  fun i k => do
    if ← asBool (← eval c ((coll, (i : Int)) :: ctx) b) then pure (.inl (k + 1)) else pure (.inl k)

def evalCountLoop (c : SCfg) (ctx : Ctx) (a b : Node) (isOne : Bool) : SM Val := do
  let coll ← eval c ctx a
  let n ← SM.lift (lengthV coll)
  match ← loopIdx (countStep c ctx coll b) n.toNat 0 (0 : Int) with
  | .inl k => if isOne then pure (.bool (k == 1)) else pure (.int .int k)
  | .inr v => pure v

theorem eval_all (c : SCfg) (ctx : Ctx) (m : Meta) (a b : Node) :
    eval c ctx (.builtin m "all" [a, b]) = evalPredLoop c ctx a b (.inl ()) (.inr (.bool false)) (.bool true) := by
  simp (config := {decide := true}) only [eval, builtinNames, List.contains, List.elem, if_true, if_false]
  rfl

theorem eval_none (c : SCfg) (ctx : Ctx) (m : Meta) (a b : Node) :
    eval c ctx (.builtin m "none" [a, b]) = evalPredLoop c ctx a b (.inr (.bool false)) (.inl ()) (.bool true) := by
  simp (config := {decide := true}) only [eval, builtinNames, List.contains, List.elem, if_true, if_false]
  rfl

theorem eval_any (c : SCfg) (ctx : Ctx) (m : Meta) (a b : Node) :
    eval c ctx (.builtin m "any" [a, b]) = evalPredLoop c ctx a b (.inr (.bool true)) (.inl ()) (.bool false) := by
  simp (config := {decide := true}) only [eval, builtinNames, List.contains, List.elem, if_true, if_false]
  rfl

theorem eval_one (c : SCfg) (ctx : Ctx) (m : Meta) (a b : Node) :
    eval c ctx (.builtin m "one" [a, b]) = evalCountLoop c ctx a b true := by
  simp (config := {decide := true}) only [eval, builtinNames, List.contains, List.elem, if_true, if_false]
  rfl

theorem eval_count (c : SCfg) (ctx : Ctx) (m : Meta) (a b : Node) :
    eval c ctx (.builtin m "count" [a, b]) = evalCountLoop c ctx a b false := by
  simp (config := {decide := true}) only [eval, builtinNames, List.contains, List.elem, if_true, if_false]
  rfl

/-- the body of a predicate builtin at element `i`: a boolean or a tolerated failure -/
theorem body_bool {cs : List OTy} {collT : OTy} {Va : VTy} (c : SCfg) (b : Node)
    (hk : vtyOf collT = some Va) (hVa : Va.isColl = true)
    (hbody : EvalOKV E (CtxFor (collT :: cs)) c b (.sc .bool))
    (coll : Val) (hcoll : ValOfV coll Va) (ctx : Ctx) (i : Nat) (s : SState) :
    ResOK E isBoolVal (eval c ((coll, (i : Int)) :: ctx) b s).1 :=
  body_at c b (.sc .bool) hk hVa hbody coll hcoll (i : Int) ctx s

theorem evalPredLoop_spec {cs : List OTy} {collT : OTy} {Va : VTy} (c : SCfg) (a b : Node)
    (t f : Unit ⊕ Val) (dflt : Val)
    (ht : ∀ v, t = .inr v → isBoolVal v) (hf : ∀ v, f = .inr v → isBoolVal v) (hd : isBoolVal dflt)
    (hk : vtyOf collT = some Va) (hVa : Va.isColl = true)
    (ha : EvalOKV E (CtxFor cs) c a Va)
    (hbody : EvalOKV E (CtxFor (collT :: cs)) c b (.sc .bool))
    (ctx : Ctx) (hctx : CtxFor cs ctx) (s : SState) :
    ResOK E isBoolVal (evalPredLoop c ctx a b t f dflt s).1 := by
  have h1 := ha ctx hctx s
  simp only [evalPredLoop, bind]
  unfold SM.bind'
  rcases hea : eval c ctx a s with ⟨ra, s1⟩
  rw [hea] at h1
  cases ra with
  | error e => exact h1
  | ok coll =>
    simp only [] at h1 ⊢
    have hcoll : ValOfV coll Va := h1
    obtain ⟨et, xs, rfl⟩ := arr_of_collV hVa h1
    simp only [lengthV, SM.lift, SM.pure']
    rcases hloop : loopIdx (predStep c ctx (Val.arr et xs) b t f) (↑xs.length : Int).toNat 0 () s1 with ⟨r, s2⟩
    have hs := loopIdx_spec_eq (E := E) (fun _ : Unit => True) isBoolVal _
      (fun i acc s' h => predStep_spec c ctx _ b t f ht hf (body_bool c b hk hVa hbody _ hcoll ctx) i acc s' h)
      _ _ _ _ _ _ hloop trivial
    cases r with
    | error e => exact hs
    | ok x =>
      cases x with
      | inl u => exact hd
      | inr w => exact hs

theorem countStep_spec (c : SCfg) (ctx : Ctx) (coll : Val) (b : Node)
    (hb : ∀ (i : Nat) s, ResOK E isBoolVal (eval c ((coll, (i : Int)) :: ctx) b s).1)
    (i : Nat) (acc : Int) (s : SState) (_ : True) :
    StepOK E (fun _ : Int => True) (fun _ => False) (countStep c ctx coll b i acc s).1 := by
  have h := hb i s
  simp only [countStep, bind]
  unfold SM.bind'
  rcases hev : eval c ((coll, (i : Int)) :: ctx) b s with ⟨r, s1⟩
  rw [hev] at h
  cases r with
  | error e => exact h
  | ok v =>
    obtain ⟨x, rfl⟩ := h
    cases x <;> simp only [asBool, SM.pure', pure] <;> trivial

theorem evalCountLoop_spec {cs : List OTy} {collT : OTy} {Va : VTy} (c : SCfg) (a b : Node) (isOne : Bool)
    (hk : vtyOf collT = some Va) (hVa : Va.isColl = true)
    (ha : EvalOKV E (CtxFor cs) c a Va)
    (hbody : EvalOKV E (CtxFor (collT :: cs)) c b (.sc .bool))
    (ctx : Ctx) (hctx : CtxFor cs ctx) (s : SState) :
    ResOK E (fun v => if isOne then isBoolVal v else ValOfK v (.num .int)) (evalCountLoop c ctx a b isOne s).1 := by
  have h1 := ha ctx hctx s
  simp only [evalCountLoop, bind]
  unfold SM.bind'
  rcases hea : eval c ctx a s with ⟨ra, s1⟩
  rw [hea] at h1
  cases ra with
  | error e => exact h1
  | ok coll =>
    simp only [] at h1 ⊢
    have hcoll : ValOfV coll Va := h1
    obtain ⟨et, xs, rfl⟩ := arr_of_collV hVa h1
    simp only [lengthV, SM.lift, SM.pure']
    rcases hloop : loopIdx (countStep c ctx (Val.arr et xs) b) (↑xs.length : Int).toNat 0 (0 : Int) s1 with ⟨r, s2⟩
    have hs := loopIdx_spec_eq (E := E) (fun _ : Int => True) (fun _ => False) _
      (fun i acc s' h => countStep_spec c ctx _ b (body_bool c b hk hVa hbody _ hcoll ctx) i acc s' h)
      _ _ _ _ _ _ hloop trivial
    cases r with
    | error e => exact hs
    | ok x =>
      cases x with
      | inl n =>
        cases isOne
        · exact ⟨_, rfl⟩
        · exact ⟨_, rfl⟩
      | inr w => exact absurd hs id

end ExprModel
