import ExprModel.Proofs.OptFold
/-
C02, part 4b: soundness of in_array.go, const_range.go, const_expr.go (in_range.go is in OptInRange.lean),
each under the guard that makes it true.
-/
namespace ExprModel
namespace OptProofs
open Spec Opt

variable {c : SCfg}

theorem bind_assoc {α β γ : Type} (m : SM α) (f : α → SM β) (g : β → SM γ) :
    ((m >>= f) >>= g) = (m >>= fun x => f x >>= g) := by
  funext s
  simp only [bind_eq]
  rcases m s with ⟨r, t⟩
  cases r <;> rfl

/-- `RelM.bind` with the provenance of the bound value: it is a value the *original* computation produced -/
theorem RelM.bind_of {α β : Type} {m' m : SM α} {f' f : α → SM β}
    (h : RelM m' m) (hf : ∀ a, (∃ s t, m s = (.ok a, t)) → RelM (f' a) (f a)) : RelM (m' >>= f') (m >>= f) := by
  intro s' s hs
  have h0 := h s' s hs
  rw [bind_eq, bind_eq]
  rcases hm : m s with ⟨r, t⟩
  rcases hm' : m' s' with ⟨r', t'⟩
  rw [hm, hm'] at h0
  rcases h0 with h0 | ⟨h0, h0m⟩
  · simp only at h0; subst h0; exact .inl rfl
  · simp only at h0 h0m; subst h0
    cases r' with
    | ok a => exact hf a ⟨s, t, hm⟩ t' t h0m
    | error e => exact .inr ⟨rfl, h0m⟩

/-! ### in_array.go -/

/-- the operand always evaluates to an `int` (when it evaluates at all) -/
def DynInt (c : SCfg) (l : Node) : Prop := ∀ ctx s v t, eval c ctx l s = (.ok v, t) → ∃ x, v = .int .int x
/-- the operand always evaluates to a string -/
def DynStr (c : SCfg) (l : Node) : Prop := ∀ ctx s v t, eval c ctx l s = (.ok v, t) → ∃ x, v = .str x

def IntLitsOK (xs : List Node) : Prop := ∀ x ∈ xs, ∀ m v, x = .int m v → IntLitOK m v

/-- guard of the in_array pass: the static kind `int` of the left operand is also its dynamic kind when the
    integer-set rewrite fires; the left operand is dynamically a string when the string-set rewrite fires -/
def InArrayOK (c : SCfg) (fl : Flags) : Node → Prop
  | .binary _ _ l (.array _ xs) =>
    (l.kd = .num .int → allInts xs ≠ none → DynInt c l ∧ IntLitsOK xs) ∧
    (allStrs xs ≠ none → (fl.inArrayStrGuard = true → l.kd = .string) → DynStr c l)
  | _ => True

theorem evalList_ints (ctx : Ctx) : ∀ (xs : List Node) (vs : List Int), allInts xs = some vs → IntLitsOK xs →
    evalList c ctx xs = pure (vs.map (Val.int .int))
  | [], vs, h, _ => by simp only [allInts] at h; cases h; simp only [evalList]; rfl
  | x :: rest, vs, h, hok => by
    cases x <;> simp only [allInts] at h <;> try cases h
    rename_i m v
    cases hr : allInts rest with
    | none => simp [hr] at h
    | some vr =>
      simp only [hr, Option.map_some, Option.some.injEq] at h
      subst h
      have ih := evalList_ints ctx rest vr hr (fun x hx => hok x (List.mem_cons_of_mem _ hx))
      have hv := hok (.int m v) List.mem_cons_self m v rfl
      rw [evalList_cons_nonpair _ _ _ _ rfl, eval_int, intConst_plain hv.1 hv.2, ih]
      rfl

theorem evalList_strs (ctx : Ctx) : ∀ (xs : List Node) (ss : List String), allStrs xs = some ss →
    evalList c ctx xs = pure (ss.map Val.str)
  | [], ss, h => by simp only [allStrs] at h; cases h; simp only [evalList]; rfl
  | x :: rest, ss, h => by
    cases x <;> simp only [allStrs] at h <;> try cases h
    rename_i m v
    cases hr : allStrs rest with
    | none => simp [hr] at h
    | some vr =>
      simp only [hr, Option.map_some, Option.some.injEq] at h
      subst h
      have ih := evalList_strs ctx rest vr hr
      rw [evalList_cons_nonpair _ _ _ _ rfl, eval, ih]
      rfl

theorem any_dedupInts (x : Int) : ∀ vs : List Int,
    ((dedupInts vs).map (Val.int .int)).any (fun k => Val.deepEq k (.int .int x)) =
      (vs.map (Val.int .int)).any (fun e => equalV e (.int .int x))
  | [] => rfl
  | v :: vs => by
    have ih := any_dedupInts x vs
    have e1 : ∀ y : Int, Val.deepEq (.int .int y) (.int .int x) = (y == x) := fun y => by simp [Val.deepEq]
    have e2 : ∀ y : Int, equalV (.int .int y) (.int .int x) = (y == x) := fun y => rfl
    simp only [dedupInts]
    split
    · rename_i hc
      rw [ih]
      simp only [List.map_cons, List.any_cons, e2]
      by_cases hvx : v = x
      · subst hvx
        have : (vs.map (Val.int .int)).any (fun e => equalV e (.int .int v)) = true := by
          simp only [List.any_map, List.any_eq_true, Function.comp]
          exact ⟨v, by simpa using hc, by simp [e2]⟩
        simp [this]
      · simp [hvx]
    · simp only [List.map_cons, List.any_cons, e1, e2, ih]

theorem any_dedupStrs (x : String) : ∀ vs : List String,
    ((dedupStrs vs).map Val.str).any (fun k => Val.deepEq k (.str x)) =
      (vs.map Val.str).any (fun e => equalV e (.str x))
  | [] => rfl
  | v :: vs => by
    have ih := any_dedupStrs x vs
    have e1 : ∀ y : String, Val.deepEq (.str y) (.str x) = (y == x) := fun y => by simp [Val.deepEq]
    have e2 : ∀ y : String, equalV (.str y) (.str x) = (y == x) := fun y => rfl
    simp only [dedupStrs]
    split
    · rename_i hc
      rw [ih]
      simp only [List.map_cons, List.any_cons, e2]
      by_cases hvx : v = x
      · subst hvx
        have : (vs.map Val.str).any (fun e => equalV e (.str v)) = true := by
          simp only [List.any_map, List.any_eq_true, Function.comp]
          exact ⟨v, by simpa using hc, by simp [e2]⟩
        simp [this]
      · simp [hvx]
    · simp only [List.map_cons, List.any_cons, e1, e2, ih]


/-- `x in r` / `x not in r` in one shape (`neg` = the operator is `not in`) -/
def evalIn (c : SCfg) (ctx : Ctx) (neg : Bool) (l r : Node) : SM Val :=
  eval c ctx l >>= fun a => eval c ctx r >>= fun b => SM.lift (inV a b) >>= fun x => pure (.bool (neg != x))

theorem eval_in (ctx : Ctx) (m : Meta) (l r : Node) : eval c ctx (.binary m "in" l r) = evalIn c ctx false l r := by
  rw [eval]
  simp only [String.reduceBEq, Bool.or_self, Bool.false_eq_true, if_false, if_true, evalIn, Bool.false_bne]

theorem eval_notin (ctx : Ctx) (m : Meta) (l r : Node) : eval c ctx (.binary m "not in" l r) = evalIn c ctx true l r := by
  rw [eval]
  simp only [String.reduceBEq, Bool.or_self, Bool.false_eq_true, if_false, if_true, evalIn, Bool.true_bne]

theorem inArray_int_core (ctx : Ctx) (neg : Bool) (l : Node) (ma mc : Meta) (xs : List Node) (vs : List Int)
    (hd : DynInt c l) (hx : allInts xs = some vs) (hok : IntLitsOK xs) :
    RelM (evalIn c ctx neg l (.const mc (intSet vs))) (evalIn c ctx neg l (.array ma xs)) := by
  unfold evalIn
  refine RelM.bind_of ((sim_refl c l).ev ctx) (fun a hp => ?_)
  obtain ⟨s, t, hst⟩ := hp
  obtain ⟨x, rfl⟩ := hd ctx s a t hst
  rw [eval, eval, evalList_ints ctx xs vs hx hok]
  simp only [pure_bind, bind_assoc]
  refine RelM.skip_allocAfter _ _ _ (by simp) ?_
  have e : inV (.int .int x) (intSet vs) = inV (.int .int x) (.arr .iface (vs.map (Val.int .int))) := by
    simp only [inV, intSet, elemTMatches, Val.isNilLike, any_dedupInts]
    simp
  rw [e]
  relm

theorem inArray_str_core (ctx : Ctx) (neg : Bool) (l : Node) (ma mc : Meta) (xs : List Node) (ss : List String)
    (hd : DynStr c l) (hx : allStrs xs = some ss) :
    RelM (evalIn c ctx neg l (.const mc (strSet ss))) (evalIn c ctx neg l (.array ma xs)) := by
  unfold evalIn
  refine RelM.bind_of ((sim_refl c l).ev ctx) (fun a hp => ?_)
  obtain ⟨s, t, hst⟩ := hp
  obtain ⟨x, rfl⟩ := hd ctx s a t hst
  rw [eval, eval, evalList_strs ctx xs ss hx]
  simp only [pure_bind, bind_assoc]
  refine RelM.skip_allocAfter _ _ _ (by simp) ?_
  have e : inV (.str x) (strSet ss) = inV (.str x) (.arr .iface (ss.map Val.str)) := by
    simp only [inV, strSet, elemTMatches, Val.isNilLike, any_dedupStrs]
    simp
  rw [e]
  relm


theorem sim_of_ev' {n' n : Node} (hp' : isPair n' = false) (hp : isPair n = false) (kd : n'.kd = n.kd)
    (lit : strLit n = none) (re : reOK n = true → reOK n' = true)
    (ev : ∀ ctx, RelM (eval c ctx n') (eval c ctx n)) : Sim c n' n where
  kd := kd
  lit := by intro s hs; rw [lit] at hs; cases hs
  re := re
  ev := ev
  head := head_of_ev hp' hp ev

theorem inArray_sound (fl : Flags) (N : Node) (hg : InArrayOK c fl N) (st : St) :
    Sim c (inArrayRule fl N st).1 N := by
  unfold inArrayRule
  split
  · rename_i m op l ma xs
    simp only [InArrayOK] at hg
    split
    · rename_i hcond
      simp only [Bool.and_eq_true, Bool.or_eq_true, beq_iff_eq] at hcond
      have hop := hcond.1
      have mk : ∀ (v : Val), (∀ ctx neg, RelM (evalIn c ctx neg l (.const {} v)) (evalIn c ctx neg l (.array ma xs))) →
          Sim c (patch (.binary m op l (.array ma xs)) (.binary {} op l (.const {} v))) (.binary m op l (.array ma xs)) := by
        intro v hv
        refine sim_of_ev' rfl rfl rfl rfl ?_ (fun ctx => ?_)
        · simp only [patch, Node.withMeta, reOK, Bool.and_eq_true]
          exact fun h => ⟨h.1, trivial⟩
        · simp only [patch, Node.withMeta, Node.getMeta]
          rcases hop with rfl | rfl
          · rw [eval_in, eval_in]; exact hv ctx false
          · rw [eval_notin, eval_notin]; exact hv ctx true
      by_cases hk : l.kd = .num .int
      · cases hai : allInts xs with
        | some vs =>
          simp only [hk, beq_self_eq_true, if_true, Option.map_some]
          obtain ⟨hd, hok⟩ := hg.1 hk (by simp [hai])
          exact mk _ (fun ctx neg => inArray_int_core ctx neg l ma {} xs vs hd hai hok)
        | none =>
          simp only [hk, beq_self_eq_true, if_true, Option.map_none]
          split
          · exact sim_refl c _
          · rename_i hsg
            split
            · rename_i ss hss
              have hd := hg.2 (by simp [hss]) (fun hf => by
                cases hq : (l.kd != RKind.string) with
                | false => simpa using hq
                | true => exact absurd (by simp [hf, hq]) hsg)
              exact mk _ (fun ctx neg => inArray_str_core ctx neg l ma {} xs ss hd hss)
            · exact sim_refl c _
      · have e : (l.kd == RKind.num Kind.int) = false := by simpa using hk
        simp only [e, Bool.false_eq_true, if_false]
        split
        · exact sim_refl c _
        · rename_i hsg
          split
          · rename_i ss hss
            have hd := hg.2 (by simp [hss]) (fun hf => by
              cases hq : (l.kd != RKind.string) with
              | false => simpa using hq
              | true => exact absurd (by simp [hf, hq]) hsg)
            exact mk _ (fun ctx neg => inArray_str_core ctx neg l ma {} xs ss hd hss)
          · exact sim_refl c _
    · exact sim_refl c _
  · exact sim_refl c _


/-! ### const_range.go -/

/-- guard of the const_range pass: Go `int` bounds; as long as the code computes the size before it compares
    the bounds (`constRangeNoOverflow = false`) the distance must not overflow; with the code's signed
    accounting of OpRange (C06) only non-descending ranges (a descending range *lowers* the unoptimised counter) -/
def ConstRangeOK (c : SCfg) (fl : Flags) : Node → Prop
  | .binary _ op (.int ma lo) (.int mb hi) =>
    op = ".." → IntLitOK ma lo ∧ IntLitOK mb hi ∧ (fl.constRangeNoOverflow = false → inRange .int (hi - lo + 1)) ∧
      (c.rangeSizeSigned = true → lo ≤ hi + 1)
  | _ => True

theorem toIntR_int {n : Int} (h : inRange .int n) : toIntR (.int .int n) = .ok n := by
  simp only [toIntR, toIntVal, conv, kindOfVal, wrap_of_inRange h]

def rangeCounted (c : SCfg) (lo hi : Int) : Int :=
  if c.rangeSizeSigned = true then hi - lo + 1 else if hi - lo + 1 < 0 then 0 else hi - lo + 1

theorem eval_range_lits (ctx : Ctx) (m ma mb : Meta) (lo hi : Int) (ha : IntLitOK ma lo) (hb : IntLitOK mb hi) :
    eval c ctx (.binary m ".." (.int ma lo) (.int mb hi)) =
      (SM.allocBefore c.budget (rangeCounted c lo hi) (rangeElems lo hi).length >>= fun _ =>
        pure (.arr (.num .int) (rangeElems lo hi))) := by
  rw [eval]
  simp only [String.reduceBEq, Bool.or_self, Bool.false_eq_true, if_false, if_true, eval_int,
    intConst_plain ha.1 ha.2, intConst_plain hb.1 hb.2, pure_bind, toIntR_int ha.2, toIntR_int hb.2, lift_ok, rangeCounted]

theorem rangeVals_eq (lo hi : Int) (hlo : inRange .int lo) (hhi : inRange .int hi) (h : lo ≤ hi) :
    rangeVals lo (hi - lo + 1).toNat = rangeElems lo hi := by
  simp only [rangeVals, rangeElems, show ¬ hi < lo from by omega, if_false]
  apply List.map_congr_left
  intro i hi'
  have hi'' : i < (hi - lo + 1).toNat := by simpa using hi'
  have : inRange .int (lo + (i : Int)) := by
    simp only [inRange, Kind.isSigned, Kind.bits, if_true] at hlo hhi ⊢
    omega
  rw [wrap_of_inRange this]

theorem constRange_sound (fl : Flags) (N : Node) (hg : ConstRangeOK c fl N) (st : St) :
    Sim c (constRangeRule fl N st).1 N := by
  unfold constRangeRule
  split
  · rename_i m op ma lo mb hi
    simp only [ConstRangeOK] at hg
    split
    · rename_i hop
      have hop' : op = ".." := by simpa using hop
      subst hop'
      obtain ⟨ha, hb, hsz, hsg⟩ := hg rfl
      have mk : ∀ (vals : List Val), vals = rangeElems lo hi → 0 ≤ rangeCounted c lo hi →
          Sim c (patch (.binary m ".." (.int ma lo) (.int mb hi)) (.const {} (.arr (.num .int) vals)))
            (.binary m ".." (.int ma lo) (.int mb hi)) := by
        intro vals hv hc
        refine sim_of_ev rfl rfl rfl rfl rfl (fun ctx => ?_)
        rw [eval_range_lits ctx m ma mb lo hi ha hb, hv]
        simp only [patch, Node.withMeta, Node.getMeta]
        rw [eval]
        exact RelM.skip_allocBefore _ _ _ hc (RelM.pure _)
      have hcnt_desc : hi < lo → 0 ≤ rangeCounted c lo hi := by
        intro h
        simp only [rangeCounted]
        split
        · rename_i hs; have := hsg hs; omega
        · split <;> omega
      have hcnt_asc : lo ≤ hi → 0 ≤ rangeCounted c lo hi := by
        intro h
        simp only [rangeCounted]
        split
        · omega
        · split <;> omega
      have hlo := ha.2
      have hhi := hb.2
      simp only [inRange, Kind.isSigned, Kind.bits, if_true] at hlo hhi
      cases hfl : fl.constRangeNoOverflow with
      | true =>
        simp only [if_true]
        split
        · rename_i hlt
          exact mk [] (by simp only [rangeElems, hlt, if_true]) (hcnt_desc hlt)
        · rename_i hge
          split
          · exact sim_refl c _
          · rename_i hsz'
            -- the wrapped size is in [1, 1e6]: the true size did not overflow
            have hw : wrap .int (hi - lo + 1) = hi - lo + 1 := by
              simp only [Bool.or_eq_true, decide_eq_true_eq, not_or, Int.not_lt] at hsz'
              have h1 := hsz'.1
              simp only [wrap, Kind.isSigned, Kind.bits, if_true] at h1 ⊢
              omega
            rw [hw]
            exact mk _ (rangeVals_eq lo hi ha.2 hb.2 (by omega)) (hcnt_asc (by omega))
      | false =>
        simp only [Bool.false_eq_true, if_false, wrap_of_inRange (hsz hfl)]
        split
        · rename_i hlt
          have : hi < lo := by omega
          exact mk [] (by simp only [rangeElems, this, if_true]) (hcnt_desc this)
        · split
          · exact sim_refl c _
          · exact mk _ (rangeVals_eq lo hi ha.2 hb.2 (by omega)) (hcnt_asc (by omega))
    · exact sim_refl c _
  · exact sim_refl c _

/-! ### const_expr.go -/

/-- guard of the const_expr pass: the literal arguments evaluate to the values the optimizer passes
    (`constArgs_eval` gives the syntactic reason), and the registered function is the environment's -/
def ConstExprOK (c : SCfg) (fl : Flags) (fns : ConstFns) : Node → Prop
  | .func _ name args _ => ∀ id vs, fns.lookup name = some id → constArgs fl args = some vs →
      (∀ ctx, evalList c ctx args = pure vs) ∧ callMember c.world c.env name vs = c.world.call id vs
  | _ => True

theorem constExpr_sound (fl : Flags) (fns : ConstFns) (N : Node) (hg : ConstExprOK c fl fns N) (st : St) :
    Sim c (constExprRule fl fns c.world N st).1 N := by
  unfold constExprRule
  split
  · rename_i m name args fast
    simp only [ConstExprOK] at hg
    split
    · exact sim_refl c _
    · rename_i id hid
      split
      · exact sim_refl c _
      · rename_i vs hvs
        obtain ⟨hargs, hcall⟩ := hg id vs hid hvs
        split
        · rename_i v hv
          refine sim_of_ev rfl rfl rfl rfl rfl (fun ctx => ?_)
          simp only [patch, Node.withMeta, Node.getMeta]
          rw [eval, eval, hargs ctx, pure_bind, hcall, hv]
          simp only [callHappened, if_true]
          intro s' s hs
          exact .inr ⟨rfl, hs⟩
        · exact sim_refl c _
  · exact sim_refl c _

end OptProofs
end ExprModel
