import ExprModel.Proofs.Select
/-
Soundness of the non-ambiguous entries of `conf.FieldsFromStruct` *as written* (merge loop in declaration
order): whenever the table holds a non-ambiguous entry for a name, Go's selector rule
(`reflect.FieldByName`) resolves that name, to a field of exactly the recorded type.  The merge loop
errs only on the side of spurious "ambiguous" marks (see the witnesses in `Props/C16.lean`).
-/
namespace ExprModel
open Table

/-- a field of the struct that does not touch the entry of `name` -/
def NoEvent (d : NDefects) (R : Ty → String → Option Tag) (name : String) (f : Field) : Prop :=
  (f.anon = true → R f.ty name = none) ∧ ¬ (accepts d f = true ∧ f.name = name)

theorem loopAt_cons (d : NDefects) (R : Ty → String → Option Tag) (name : String) (f : Field)
    (fs : List Field) (cur : Option Tag) :
    loopAt d R name (f :: fs) cur =
      loopAt d R name fs
        (if (d.unexportedAccepted || f.exported) && f.name = name then some { ty := some f.ty }
         else if f.anon then mergeAt cur (R f.ty name) else cur) := rfl

theorem loopAt_none (d : NDefects) (R : Ty → String → Option Tag) (name : String) :
    ∀ (fs : List Field) (cur : Option Tag), loopAt d R name fs cur = none →
      cur = none ∧ ∀ f ∈ fs, NoEvent d R name f := by
  intro fs cur h
  refine ⟨?_, ?_⟩
  · cases hc : cur with
    | none => rfl
    | some g =>
      have := loopAt_some_of_some d R name fs cur (by rw [hc]; rfl)
      rw [h] at this; cases this
  · intro f hf
    refine ⟨?_, ?_⟩
    · intro ha
      cases hr : R f.ty name with
      | none => rfl
      | some g =>
        have := loopAt_some_of_emb d R name fs cur f hf ha (by rw [hr]; rfl)
        rw [h] at this; cases this
    · rintro ⟨ha, hn⟩
      have := loopAt_some_of_own d R name fs cur f hf ha hn
      rw [h] at this; cases this

theorem step_noEvent {d : NDefects} {R : Ty → String → Option Tag} {name : String} {f : Field}
    (h : NoEvent d R name f) (cur : Option Tag) :
    (if (d.unexportedAccepted || f.exported) && f.name = name then some { ty := some f.ty }
     else if f.anon then mergeAt cur (R f.ty name) else cur) = cur := by
  have h2 : ¬ ((d.unexportedAccepted || f.exported) = true ∧ f.name = name) := h.2
  have : ((d.unexportedAccepted || f.exported) && decide (f.name = name)) = false := by
    cases hx : (d.unexportedAccepted || f.exported) <;> simp_all
  rw [this]
  simp only [Bool.false_eq_true, if_false]
  by_cases ha : f.anon = true
  · rw [if_pos ha, h.1 ha]; rfl
  · rw [if_neg ha]

/-- how a non-ambiguous entry can have come about -/
theorem loopAt_classify (d : NDefects) (R : Ty → String → Option Tag) (name : String) :
    ∀ (fs : List Field) (cur : Option Tag) (g : Tag),
      loopAt d R name fs cur = some g → g.ambiguous = false →
      (cur = some g ∧ ∀ f ∈ fs, NoEvent d R name f) ∨
      (∃ pre f₀ post, fs = pre ++ f₀ :: post ∧ accepts d f₀ = true ∧ f₀.name = name ∧
          g = { ty := some f₀.ty } ∧ ∀ f ∈ post, NoEvent d R name f) ∨
      (cur = none ∧ ∃ pre f₁ post, fs = pre ++ f₁ :: post ∧ f₁.anon = true ∧ R f₁.ty name = some g ∧
          ¬ (accepts d f₁ = true ∧ f₁.name = name) ∧ ∀ f ∈ pre ++ post, NoEvent d R name f) := by
  intro fs
  induction fs with
  | nil =>
    intro cur g h _
    exact Or.inl ⟨h, fun f hf => by cases hf⟩
  | cons f fs ih =>
    intro cur g h ha
    rw [loopAt_cons] at h
    rcases ih _ g h ha with ⟨hcur, hno⟩ | ⟨pre, f₀, post, hfs, hacc, hn, hg, hno⟩ |
        ⟨hcur, pre, f₁, post, hfs, hanon, hR, hnown, hno⟩
    · -- nothing happens after `f`
      by_cases hown : accepts d f = true ∧ f.name = name
      · -- own field: case B with pre = []
        have : ((d.unexportedAccepted || f.exported) && decide (f.name = name)) = true := by
          have := hown.1; unfold accepts at this; simp [this, hown.2]
        rw [this] at hcur
        simp only [if_true] at hcur
        refine Or.inr (Or.inl ⟨[], f, fs, rfl, hown.1, hown.2, ?_, hno⟩)
        cases hcur; rfl
      · have hx : ((d.unexportedAccepted || f.exported) && decide (f.name = name)) = false := by
          unfold accepts at hown
          cases hx : (d.unexportedAccepted || f.exported) <;> simp_all
        rw [hx] at hcur
        simp only [Bool.false_eq_true, if_false] at hcur
        by_cases hanon : f.anon = true
        · rw [if_pos hanon] at hcur
          cases hR : R f.ty name with
          | none =>
            rw [hR] at hcur
            refine Or.inl ⟨hcur, ?_⟩
            intro f' hf'
            rcases List.mem_cons.1 hf' with rfl | hf'
            · exact ⟨fun _ => hR, hown⟩
            · exact hno f' hf'
          | some g' =>
            rw [hR] at hcur
            unfold mergeAt at hcur
            simp only [] at hcur
            cases hc : cur with
            | some c =>
              rw [hc] at hcur
              simp at hcur
              rw [← hcur] at ha; cases ha
            | none =>
              rw [hc] at hcur
              simp at hcur
              subst hcur
              refine Or.inr (Or.inr ⟨rfl, [], f, fs, rfl, hanon, hR, hown, ?_⟩)
              simpa using hno
        · rw [if_neg hanon] at hcur
          refine Or.inl ⟨hcur, ?_⟩
          intro f' hf'
          rcases List.mem_cons.1 hf' with rfl | hf'
          · exact ⟨fun h => absurd h hanon, hown⟩
          · exact hno f' hf'
    · exact Or.inr (Or.inl ⟨f :: pre, f₀, post, by rw [hfs]; rfl, hacc, hn, hg, hno⟩)
    · -- the accumulator is still empty after `f`: `f` is no event
      have hne : NoEvent d R name f := by
        by_cases hown : accepts d f = true ∧ f.name = name
        · have : ((d.unexportedAccepted || f.exported) && decide (f.name = name)) = true := by
            have := hown.1; unfold accepts at this; simp [this, hown.2]
          rw [this] at hcur; simp at hcur
        · have hx : ((d.unexportedAccepted || f.exported) && decide (f.name = name)) = false := by
            unfold accepts at hown
            cases hx : (d.unexportedAccepted || f.exported) <;> simp_all
          rw [hx] at hcur
          simp only [Bool.false_eq_true, if_false] at hcur
          refine ⟨?_, hown⟩
          intro hanon
          rw [if_pos hanon] at hcur
          unfold mergeAt at hcur
          cases hR : R f.ty name with
          | none => rfl
          | some g' => rw [hR] at hcur; simp only [] at hcur; split at hcur <;> cases hcur
      have hc : cur = none := by
        have := step_noEvent hne cur
        rw [this] at hcur; exact hcur
      refine Or.inr (Or.inr ⟨hc, f :: pre, f₁, post, by rw [hfs]; rfl, hanon, hR, hnown, ?_⟩)
      intro f' hf'
      have hf'' : f' = f ∨ f' ∈ pre ∨ f' ∈ post := by simpa using hf'
      rcases hf'' with rfl | h | h
      · exact hne
      · exact hno f' (List.mem_append.2 (Or.inl h))
      · exact hno f' (List.mem_append.2 (Or.inr h))

/-! ### well-formedness needed for soundness: field names of one struct are distinct (Go's rule) -/

def NamesWF (t : Ty) : Prop :=
  ∀ d, ∀ u ∈ levelTys d t, (u.fields.map Field.name).Nodup

theorem NamesWF.sub {t : Ty} (h : NamesWF t) {f : Field} (hf : f ∈ t.embedded) : NamesWF (embTarget f) := by
  intro d u hu
  apply h (d + 1) u
  simp only [levelTys, List.mem_flatMap]
  exact ⟨f, hf, hu⟩

theorem NamesWF.here {t : Ty} (h : NamesWF t) : (t.fields.map Field.name).Nodup :=
  h 0 t (by simp [levelTys])

theorem filter_name_eq_singleton (name : String) :
    ∀ (fs : List Field) (f₀ : Field), (fs.map Field.name).Nodup → f₀ ∈ fs → f₀.name = name →
      fs.filter (fun f => f.name = name) = [f₀] := by
  intro fs
  induction fs with
  | nil => intro f₀ _ h; cases h
  | cons f fs ih =>
    intro f₀ hnd hf hn
    rw [List.map_cons, List.nodup_cons] at hnd
    rcases List.mem_cons.1 hf with rfl | hf
    · rw [List.filter_cons, if_pos (by simpa using hn)]
      congr 1
      apply List.filter_eq_nil_iff.2
      intro x hx hxn
      apply hnd.1
      have : x.name = f₀.name := by rw [hn]; simpa using hxn
      rw [← this]
      exact List.mem_map.2 ⟨x, hx, rfl⟩
    · have hne : ¬ f.name = name := by
        intro h
        apply hnd.1
        rw [h, ← hn]
        exact List.mem_map.2 ⟨f₀, hf, rfl⟩
      rw [List.filter_cons, if_neg (by simpa using hne)]
      exact ih f₀ hnd.2 hf hn

/-- every field called `name`, at any depth, is one the checker variant accepts (true for every name
under `unexportedAccepted`; otherwise: the name is an exported one) -/
def AllAccepted (d : NDefects) (t : Ty) (name : String) : Prop :=
  ∀ k, ∀ f ∈ levelFields k t, f.name = name → accepts d f = true

theorem AllAccepted.sub {d : NDefects} {t : Ty} {name : String} (h : AllAccepted d t name) {e : Field}
    (he : e ∈ t.embedded) : AllAccepted d (embTarget e) name := by
  intro k f hf hn
  apply h (k + 1) f _ hn
  rw [levelFields_succ]
  exact List.mem_flatMap.2 ⟨e, he, hf⟩

theorem rawAt_emb (d : NDefects) (fuel : Nat) {t : Ty} (hwf : EmbWF t) {e : Field} (he : e ∈ t.embedded)
    (name : String) : rawAt d fuel e.ty name = rawAt d fuel (embTarget e) name := by
  have hpe := hwf.here he
  apply rawAt_congr
  rw [deref_eq_embTarget hpe, Ty.deref_of_not_isPtr hpe]

/-- no entry ⇒ the name does not occur at any depth -/
theorem rawAt_none_no_occ (d : NDefects) (name : String) :
    ∀ (fuel : Nat) (t : Ty), t.depth ≤ fuel → EmbWF t → t.isPtr = false → AllAccepted d t name →
      rawAt d fuel t name = none → ∀ j, occAt j t name = []
  | 0, t, hd, _, _, _, _ => absurd hd (Nat.not_le.2 (Ty.depth_pos t))
  | fuel + 1, t, hd, hwf, hp, hall, h => by
    rw [rawAt_struct d fuel hp] at h
    obtain ⟨_, hno⟩ := loopAt_none d _ name _ _ h
    intro j
    cases j with
    | zero =>
      rw [occAt_zero]
      apply List.filter_eq_nil_iff.2
      intro f hf hn
      have hn' : f.name = name := by simpa using hn
      exact (hno f hf).2 ⟨hall 0 f (by rw [levelFields_zero]; exact hf) hn', hn'⟩
    | succ j =>
      rw [occAt_succ]
      apply List.flatMap_eq_nil_iff.2
      intro e he
      have hne := hno e (mem_embedded.1 he).1
      have hR := hne.1 (mem_embedded.1 he).2
      rw [rawAt_emb d fuel hwf he] at hR
      exact rawAt_none_no_occ d name fuel (embTarget e)
        (by have := embTarget_depth_lt he; omega) (hwf.sub he) (hwf.here he) (hall.sub he) hR j

theorem flatMap_single {α β : Type} (F : α → List β) (pre post : List α) (x : α)
    (h : ∀ y ∈ pre ++ post, F y = []) : (pre ++ x :: post).flatMap F = F x := by
  rw [List.flatMap_append, List.flatMap_cons]
  have h1 : pre.flatMap F = [] :=
    List.flatMap_eq_nil_iff.2 fun y hy => h y (List.mem_append.2 (Or.inl hy))
  have h2 : post.flatMap F = [] :=
    List.flatMap_eq_nil_iff.2 fun y hy => h y (List.mem_append.2 (Or.inr hy))
  rw [h1, h2]; simp

/-- **Soundness of the merge loop's non-ambiguous entries.** -/
theorem rawAt_sound (d : NDefects) (name : String) :
    ∀ (fuel : Nat) (t : Ty) (g : Tag), t.depth ≤ fuel → EmbWF t → NamesWF t → t.isPtr = false →
      AllAccepted d t name → rawAt d fuel t name = some g → g.ambiguous = false →
      ∃ k f, (∀ j, j < k → occAt j t name = []) ∧ occAt k t name = [f] ∧ g = { ty := some f.ty }
  | 0, t, _, hd, _, _, _, _, _, _ => absurd hd (Nat.not_le.2 (Ty.depth_pos t))
  | fuel + 1, t, g, hd, hwf, hnames, hp, hall, h, ha => by
    rw [rawAt_struct d fuel hp] at h
    rcases loopAt_classify d _ name _ _ g h ha with ⟨hcur, _⟩ | ⟨pre, f₀, post, hfs, hacc, hn, hg, _⟩ |
        ⟨_, pre, f₁, post, hfs, hanon, hR, hnown, hno⟩
    · cases hcur
    · -- an own field: depth 0
      refine ⟨0, f₀, fun j hj => absurd hj (Nat.not_lt_zero j), ?_, hg⟩
      rw [occAt_zero]
      exact filter_name_eq_singleton name _ f₀ hnames.here (by rw [hfs]; simp) hn
    · -- exactly one embedded struct knows the name
      have hf₁ : f₁ ∈ t.embedded := mem_embedded.2 ⟨by rw [hfs]; simp, hanon⟩
      rw [rawAt_emb d fuel hwf hf₁] at hR
      obtain ⟨k, f, h0, hk, hg⟩ := rawAt_sound d name fuel (embTarget f₁) g
        (by have := embTarget_depth_lt hf₁; omega) (hwf.sub hf₁) (hnames.sub hf₁) (hwf.here hf₁)
        (hall.sub hf₁) hR ha
      -- the other embedded structs have no occurrence at any depth
      have hother : ∀ e ∈ pre ++ post, e.anon = true → ∀ j, occAt j (embTarget e) name = [] := by
        intro e he hean j
        have hemem : e ∈ t.embedded := mem_embedded.2 ⟨by
          rw [hfs]
          rcases List.mem_append.1 he with h | h
          · exact List.mem_append.2 (Or.inl h)
          · exact List.mem_append.2 (Or.inr (List.mem_cons_of_mem _ h)), hean⟩
        have hRe := (hno e he).1 hean
        rw [rawAt_emb d fuel hwf hemem] at hRe
        exact rawAt_none_no_occ d name fuel (embTarget e)
          (by have := embTarget_depth_lt hemem; omega) (hwf.sub hemem) (hwf.here hemem) (hall.sub hemem) hRe j
      have hsucc : ∀ j, occAt (j + 1) t name = occAt j (embTarget f₁) name := by
        intro j
        rw [occAt_succ]
        unfold Ty.embedded
        rw [hfs, List.filter_append, List.filter_cons, if_pos hanon]
        apply flatMap_single
        intro y hy
        rcases List.mem_append.1 hy with hy | hy
        · have := List.mem_filter.1 hy
          exact hother y (List.mem_append.2 (Or.inl this.1)) this.2 j
        · have := List.mem_filter.1 hy
          exact hother y (List.mem_append.2 (Or.inr this.1)) this.2 j
      have hzero : occAt 0 t name = [] := by
        rw [occAt_zero]
        apply List.filter_eq_nil_iff.2
        intro f' hf' hn'
        have hn'' : f'.name = name := by simpa using hn'
        have hacc' := hall 0 f' (by rw [levelFields_zero]; exact hf') hn''
        rw [hfs] at hf'
        rcases List.mem_append.1 hf' with hm | hm
        · exact (hno f' (List.mem_append.2 (Or.inl hm))).2 ⟨hacc', hn''⟩
        · rcases List.mem_cons.1 hm with rfl | hm
          · exact hnown ⟨hacc', hn''⟩
          · exact (hno f' (List.mem_append.2 (Or.inr hm))).2 ⟨hacc', hn''⟩
      refine ⟨k + 1, f, ?_, by rw [hsucc]; exact hk, hg⟩
      intro j hj
      cases j with
      | zero => exact hzero
      | succ j => rw [hsucc]; exact h0 j (by omega)

/-- in terms of `reflect`: the recorded type is the type of the field `FieldByName` finds -/
theorem rawAt_sound_reflField (d : NDefects) (name : String) (t : Ty) (g : Tag) (hwf : EmbWF t)
    (hnames : NamesWF t) (hp : t.isPtr = false) (hall : AllAccepted d t name)
    (h : rawAt d (t.depth + 1) t name = some g) (ha : g.ambiguous = false) :
    ∃ f, reflField t name = .found f ∧ g = { ty := some f.ty } := by
  obtain ⟨k, f, h0, hk, hg⟩ := rawAt_sound d name (t.depth + 1) t g (by omega) hwf hnames hp hall h ha
  exact ⟨f, (reflField_found_iff t name f).2 ⟨k, h0, hk⟩, hg⟩

end ExprModel
