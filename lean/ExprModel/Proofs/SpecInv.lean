import ExprModel.Spec.Eval
/-
Invariants of the reference evaluator's allocation accounting (`Spec.eval`), for every configuration
with `rangeSizeSigned = false` (the semantics the properties require; `sliceToFirst` is arbitrary):

* the budget counter always equals the number of elements actually built (`memory = created`), on
  success and on failure alike;
* a successful evaluation that started below the budget ends below the budget, and more generally the
  counter reaches the budget only in a run that ends with the budget error;
* `created` never decreases.

Method: a Hoare-style triple `Tr lim m Q` over the state monad `SM`, closure lemmas for the monad
primitives and for `loopIdx`, one lemma per node kind, assembled with `Spec.eval.mutual_induct`.
-/
namespace ExprModel
namespace Spec

/-- `m` never decreases `created`, establishes `Q` on its result, and — started with
    `memory = created` — keeps that equation (also when it fails) and stays below `lim` unless it ends
    with the budget error. -/
def Tr {α} (lim : Int) (m : SM α) (Q : α → Prop) : Prop :=
  ∀ s : SState, s.created ≤ (m s).2.created ∧ (∀ a, (m s).1 = .ok a → Q a) ∧
    (s.memory = (s.created : Int) →
      (m s).2.memory = ((m s).2.created : Int) ∧
      (s.memory < lim → (m s).1 ≠ .error .budget → (m s).2.memory < lim))

/-- the trivial postcondition -/
abbrev T {α} : α → Prop := fun _ => True

theorem bind_eq {α β} (m : SM α) (f : α → SM β) : (m >>= f) = SM.bind' m f := rfl
theorem pure_eq {α} (a : α) : (pure a : SM α) = SM.pure' a := rfl

namespace Tr
variable {α β : Type} {lim : Int}

theorem mono {m : SM α} {Q Q' : α → Prop} (h : Tr lim m Q) (hq : ∀ a, Q a → Q' a) : Tr lim m Q' := by
  intro s
  obtain ⟨h1, h2, h3⟩ := h s
  exact ⟨h1, fun a ha => hq a (h2 a ha), h3⟩

/-- a computation that leaves the state alone -/
theorem of_state_eq {m : SM α} {Q : α → Prop} (hs : ∀ s, (m s).2 = s)
    (hq : ∀ s a, (m s).1 = .ok a → Q a) : Tr lim m Q := by
  intro s
  rw [hs s]
  exact ⟨Nat.le_refl _, hq s, fun h => ⟨h, fun h _ => h⟩⟩

theorem pure {Q : α → Prop} {a : α} (h : Q a) : Tr lim (Pure.pure a : SM α) Q := by
  refine of_state_eq (fun _ => rfl) ?_
  intro s b hb
  have : a = b := by simpa [pure_eq, SM.pure'] using hb
  exact this ▸ h

theorem fail (e : ErrClass) : Tr lim (SM.fail e : SM α) T :=
  of_state_eq (fun _ => rfl) fun _ _ _ => trivial

theorem bind {m : SM α} {f : α → SM β} {Q : α → Prop} {Q' : β → Prop}
    (hm : Tr lim m Q) (hf : ∀ a, Q a → Tr lim (f a) Q') : Tr lim (m >>= f) Q' := by
  intro s
  obtain ⟨h1, h2, h3⟩ := hm s
  rw [bind_eq]
  unfold SM.bind'
  match hms : m s with
  | (.ok a, s') =>
    rw [hms] at h1 h2 h3
    simp only at h1 h2 h3 ⊢
    obtain ⟨g1, g2, g3⟩ := hf a (h2 a rfl) s'
    refine ⟨Nat.le_trans h1 g1, g2, fun hs => ?_⟩
    obtain ⟨h4, h5⟩ := h3 hs
    obtain ⟨g4, g5⟩ := g3 h4
    exact ⟨g4, fun hl => g5 (h5 hl (by simp))⟩
  | (.error e, s') =>
    rw [hms] at h1 h2 h3
    simp only at h1 h2 h3 ⊢
    refine ⟨h1, fun b hb => by simp at hb, fun hs => ?_⟩
    obtain ⟨h4, h5⟩ := h3 hs
    exact ⟨h4, fun hl hne => h5 hl (fun h => hne (by cases h; rfl))⟩

/-- `bind` when nothing is needed about the intermediate value -/
theorem bindT {m : SM α} {f : α → SM β} {Q' : β → Prop}
    (hm : Tr lim m T) (hf : ∀ a, Tr lim (f a) Q') : Tr lim (m >>= f) Q' :=
  bind hm fun a _ => hf a

/-- lifting a pure computation; the postcondition records the value -/
theorem lift' (r : R α) : Tr lim (SM.lift r) (fun a => r = .ok a) := by
  cases r with
  | ok a => exact pure (Q := fun b => Except.ok a = .ok b) rfl
  | error e => exact of_state_eq (fun _ => rfl) fun s b hb => by simp [SM.lift, SM.fail] at hb

theorem lift (r : R α) : Tr lim (SM.lift r) T := mono (lift' r) fun _ _ => trivial

theorem logCall (name : String) (args : List Val) : Tr lim (SM.logCall name args) T := by
  intro s
  exact ⟨Nat.le_refl _, fun _ _ => trivial, fun h => ⟨h, fun h _ => h⟩⟩

theorem asBool (v : Val) : Tr lim (Spec.asBool v) T := by
  unfold Spec.asBool
  split
  · exact pure trivial
  · exact fail _

/-- counting after building, when what is counted is what was built -/
theorem allocAfter {k : Int} {b : Nat} (h : k = (b : Int)) : Tr lim (SM.allocAfter lim k b) T := by
  intro s
  unfold SM.allocAfter
  simp only
  split
  · exact ⟨by simp, fun _ _ => trivial, fun hs => ⟨by simp; omega, fun _ hne => by simp at hne⟩⟩
  · exact ⟨by simp, fun _ _ => trivial, fun hs => ⟨by simp; omega, fun _ _ => by simp; omega⟩⟩

/-- refusing before building, when what is counted is what would be built -/
theorem allocBefore {k : Int} {b : Nat} (h : k = (b : Int)) : Tr lim (SM.allocBefore lim k b) T := by
  intro s
  unfold SM.allocBefore
  split
  · exact ⟨Nat.le_refl _, fun _ _ => trivial, fun hs => ⟨hs, fun _ hne => by simp at hne⟩⟩
  · exact ⟨by simp, fun _ _ => trivial, fun hs => ⟨by simp; omega, fun _ _ => by simp; omega⟩⟩

/-- the indexed loop, for an invariant `I index accumulator` -/
theorem loopIdx {σ : Type} (I : Nat → σ → Prop) (body : Nat → σ → SM (σ ⊕ Val))
    (hb : ∀ i acc, I i acc → Tr lim (body i acc) (fun r => ∀ a, r = .inl a → I (i + 1) a)) :
    ∀ fuel i acc, I i acc →
      Tr lim (Spec.loopIdx body fuel i acc) (fun r => ∀ a, r = .inl a → I (i + fuel) a)
  | 0, i, acc, h => by
    unfold Spec.loopIdx
    exact pure (fun a ha => by cases ha; simpa using h)
  | fuel + 1, i, acc, h => by
    unfold Spec.loopIdx
    refine bind (hb i acc h) ?_
    intro r hr
    cases r with
    | inl acc' =>
      refine mono (loopIdx I body hb fuel (i + 1) acc' (hr acc' rfl)) ?_
      intro r' h' a ha
      have := h' a ha
      rwa [Nat.add_assoc, Nat.add_comm 1 fuel] at this
    | inr v => exact pure (fun a ha => by cases ha)

/-- the indexed loop without an invariant -/
theorem loopIdxT {σ : Type} {body : Nat → σ → SM (σ ⊕ Val)}
    (hb : ∀ i acc, Tr lim (body i acc) T) (fuel i : Nat) (acc : σ) :
    Tr lim (Spec.loopIdx body fuel i acc) T :=
  mono (loopIdx (fun _ _ => True) body (fun i acc _ => mono (hb i acc) fun _ _ _ _ => trivial)
    fuel i acc trivial) fun _ _ => trivial

theorem ite {p : Prop} [Decidable p] {t e : SM α} {Q : α → Prop}
    (ht : p → Tr lim t Q) (he : ¬p → Tr lim e Q) : Tr lim (if p then t else e) Q := by
  split
  · exact ht ‹_›
  · exact he ‹_›

end Tr

-- keep `intro` and `assumption` from looking inside the triple while the node lemmas are assembled
attribute [local irreducible] Tr

/-- the size a range is charged with (clamped at 0) is the number of elements built -/
theorem rangeElems_length (lo hi : Int) :
    (if hi - lo + 1 < 0 then 0 else hi - lo + 1) = ((rangeElems lo hi).length : Int) := by
  unfold rangeElems
  split <;> split <;> simp <;> omega

/-- `lengthV` never yields a negative length -/
theorem lengthV_nonneg_inv {v : Val} {n : Int} (h : lengthV v = .ok n) : 0 ≤ n := by
  unfold lengthV at h
  split at h <;> simp at h <;> omega

/-- one step of the structural proof of a `Tr … T` goal -/
macro "tr_step" : tactic => `(tactic| first
  | assumption
  | exact Tr.pure trivial
  | exact Tr.fail _
  | exact Tr.lift _
  | exact Tr.logCall _ _
  | exact Tr.asBool _
  | exact Tr.allocAfter rfl
  | exact Tr.allocBefore (rangeElems_length _ _)
  | (refine Tr.bindT ?_ ?_)
  | (refine Tr.loopIdxT ?_ _ _ _)
  | (refine Tr.ite ?_ ?_)
  | intro _
  | split)

macro "tr_auto" : tactic => `(tactic| repeat' tr_step)

section Nodes
variable {c : SCfg} {ctx : Ctx}

theorem tr_unary {m op x} (hx : Tr c.budget (eval c ctx x) T) :
    Tr c.budget (eval c ctx (.unary m op x)) T := by
  unfold eval; tr_auto

theorem tr_binary {m op l r} (hc : c.rangeSizeSigned = false)
    (hl : Tr c.budget (eval c ctx l) T) (hr : Tr c.budget (eval c ctx r) T) :
    Tr c.budget (eval c ctx (.binary m op l r)) T := by
  unfold eval; simp only [hc, Bool.false_eq_true, if_false]; tr_auto

theorem tr_matches {m hasRe l r}
    (hl : Tr c.budget (eval c ctx l) T) (hr : Tr c.budget (eval c ctx r) T) :
    Tr c.budget (eval c ctx (.matches m hasRe l r)) T := by
  unfold eval
  refine Tr.bindT hl fun a => Tr.ite (fun _ => ?_) (fun _ => ?_)
  · extract_lets pat
    tr_auto
  · tr_auto

theorem tr_prop {m x name nilsafe} (hx : Tr c.budget (eval c ctx x) T) :
    Tr c.budget (eval c ctx (.prop m x name nilsafe)) T := by
  unfold eval; tr_auto

theorem tr_index {m x i} (hx : Tr c.budget (eval c ctx x) T) (hi : Tr c.budget (eval c ctx i) T) :
    Tr c.budget (eval c ctx (.index m x i)) T := by
  unfold eval; tr_auto

theorem tr_slice {m x f t} (hx : Tr c.budget (eval c ctx x) T)
    (hf : ∀ n, f = some n → Tr c.budget (eval c ctx n) T)
    (ht : ∀ n, t = some n → Tr c.budget (eval c ctx n) T) :
    Tr c.budget (eval c ctx (.slice m x f t)) T := by
  unfold eval
  cases f <;> cases t <;> tr_auto <;> first | exact hf _ rfl | exact ht _ rfl

theorem tr_method {m x name args nilsafe} (hx : Tr c.budget (eval c ctx x) T)
    (ha : Tr c.budget (evalList c ctx args) T) :
    Tr c.budget (eval c ctx (.method m x name args nilsafe)) T := by
  unfold eval; tr_auto

theorem tr_func {m name args fast} (ha : Tr c.budget (evalList c ctx args) T) :
    Tr c.budget (eval c ctx (.func m name args fast)) T := by
  unfold eval; tr_auto

theorem tr_cond {m cnd a b} (hc : Tr c.budget (eval c ctx cnd) T)
    (ha : Tr c.budget (eval c ctx a) T) (hb : Tr c.budget (eval c ctx b) T) :
    Tr c.budget (eval c ctx (.cond m cnd a b)) T := by
  unfold eval; tr_auto

theorem tr_array {m xs} (hx : Tr c.budget (evalList c ctx xs) T) :
    Tr c.budget (eval c ctx (.array m xs)) T := by
  unfold eval; tr_auto

theorem tr_map {m ps} (hx : Tr c.budget (evalList c ctx ps) T) :
    Tr c.budget (eval c ctx (.map m ps)) T := by
  unfold eval; tr_auto

theorem tr_pointer {m} : Tr c.budget (eval c ctx (.pointer m)) T := by
  unfold eval; tr_auto

theorem tr_builtin_len {m a} (ha : Tr c.budget (eval c ctx a) T) :
    Tr c.budget (eval c ctx (.builtin m "len" [a])) T := by
  unfold eval
  split
  · rename_i h; cases h; tr_auto
  · rename_i h; cases h
  · exact Tr.fail _

/-- the seven closure builtins; `map` is the one place where a value fact is needed: the accumulator
    has exactly `n` elements when the loop is left normally -/
theorem tr_builtin2 {m name a b} (ha : Tr c.budget (eval c ctx a) T)
    (hb : ∀ (coll : Val) (i : Nat), Tr c.budget (eval c ((coll, (i : Int)) :: ctx) b) T) :
    Tr c.budget (eval c ctx (.builtin m name [a, b])) T := by
  unfold eval
  split
  · rename_i h; cases h
  case h_3 h _ => exact (h _ _ rfl).elim
  rename_i h; cases h
  refine Tr.ite (fun _ => ?_) (fun _ => Tr.fail _)
  refine Tr.bindT ha fun coll => ?_
  refine Tr.bind (Tr.lift' _) fun n hn => ?_
  have hb' := hb coll
  refine Tr.ite (fun _ => ?_) (fun _ => ?_)
  · tr_auto; exact hb' _
  refine Tr.ite (fun _ => ?_) (fun _ => ?_)
  · tr_auto; exact hb' _
  refine Tr.ite (fun _ => ?_) (fun _ => ?_)
  · tr_auto; exact hb' _
  refine Tr.ite (fun _ => ?_) (fun _ => ?_)
  · tr_auto; exact hb' _
  refine Tr.ite (fun _ => ?_) (fun _ => ?_)
  · tr_auto; exact hb' _
  refine Tr.bind (Tr.loopIdx (fun i (acc : List Val) => acc.length = i) _ ?_ n.toNat 0 [] rfl) ?_
  · intro i acc hi
    refine Tr.bind (hb' i) fun r _ => Tr.pure ?_
    intro acc' h
    cases h
    simp [hi]
  · intro r hr
    cases r with
    | inl acc =>
      refine Tr.bindT (Tr.allocAfter ?_) fun _ => Tr.pure trivial
      have h1 := hr acc rfl
      have h2 := lengthV_nonneg_inv hn
      omega
    | inr v => exact Tr.pure trivial

theorem tr_builtin2_bad {m name a b} (h : ¬builtinNames.contains name = true) :
    Tr c.budget (eval c ctx (.builtin m name [a, b])) T := by
  unfold eval
  split
  · rename_i h'; cases h'
  · rename_i h'; cases h'; rw [if_neg h]; exact Tr.fail _
  · exact Tr.fail _

theorem tr_builtin_bad {m name args} (h2 : ∀ a b : Node, args = [a, b] → False)
    (h1 : ∀ a : Node, name = "len" → args = [a] → False) :
    Tr c.budget (eval c ctx (.builtin m name args)) T := by
  unfold eval
  split
  · exact (h1 _ rfl rfl).elim
  · exact (h2 _ _ rfl).elim
  · exact Tr.fail _

theorem tr_list_nil : Tr c.budget (evalList c ctx []) T := by
  unfold evalList; tr_auto

theorem tr_list_pair {m k v rest} (hk : Tr c.budget (eval c ctx k) T)
    (hv : Tr c.budget (eval c ctx v) T) (hr : Tr c.budget (evalList c ctx rest) T) :
    Tr c.budget (evalList c ctx (.pair m k v :: rest)) T := by
  unfold evalList; tr_auto

theorem tr_list_cons {n rest} (hn : ∀ m k v, n = Node.pair m k v → False)
    (h : Tr c.budget (eval c ctx n) T) (hr : Tr c.budget (evalList c ctx rest) T) :
    Tr c.budget (evalList c ctx (n :: rest)) T := by
  unfold evalList
  split
  · rename_i h; cases h
  · rename_i h; cases h; exact (hn _ _ _ rfl).elim
  · rename_i h; cases h; tr_auto

end Nodes

/-- every evaluation (of a node or of an argument list) satisfies the accounting triple -/
theorem eval_tr_all (c : SCfg) (hc : c.rangeSizeSigned = false) :
    (∀ ctx n, Tr c.budget (eval c ctx n) T) ∧ (∀ ctx ns, Tr c.budget (evalList c ctx ns) T) := by
  apply eval.mutual_induct (motive_1 := fun ctx n => Tr c.budget (eval c ctx n) T)
    (motive_2 := fun ctx ns => Tr c.budget (evalList c ctx ns) T)
  · intro ctx m; unfold eval; exact Tr.pure trivial
  · intro ctx m name nilsafe; unfold eval; exact Tr.lift _
  · intro ctx m v; unfold eval; exact Tr.pure trivial
  · intro ctx m v; unfold eval; exact Tr.pure trivial
  · intro ctx m v; unfold eval; exact Tr.pure trivial
  · intro ctx m v; unfold eval; exact Tr.pure trivial
  · intro ctx m v; unfold eval; exact Tr.pure trivial
  · intro ctx m op x ih; exact tr_unary ih
  · intro ctx m op l r _ hl hr; exact tr_binary hc hl hr
  · intro ctx m op l r _ _ hl hr; exact tr_binary hc hl hr
  · intro ctx m op l r _ _ hl hr; exact tr_binary hc hl hr
  · intro ctx m hasRe l r hl hr; exact tr_matches hl hr
  · intro ctx m x name nilsafe hx; exact tr_prop hx
  · intro ctx m x i hx hi; exact tr_index hx hi
  · intro ctx m x f t hx hf ht
    exact tr_slice hx (fun n hn => by subst hn; exact hf) (fun n hn => by subst hn; exact ht)
  · intro ctx m x name args nilsafe hx ha; exact tr_method hx ha
  · intro ctx m name args fast ha; exact tr_func ha
  · intro ctx m a ha; exact tr_builtin_len ha
  · intro ctx m name a b _ ha hb; exact tr_builtin2 ha hb
  · intro ctx m name a b h; exact tr_builtin2_bad h
  · intro ctx m name args h2 h1; exact tr_builtin_bad h2 h1
  · intro ctx m x hx; unfold eval; exact hx
  · intro m coll i tail; exact tr_pointer
  · intro m; exact tr_pointer
  · intro ctx m cnd a b hc ha hb; exact tr_cond hc ha hb
  · intro ctx m xs hx; exact tr_array hx
  · intro ctx m ps hx; exact tr_map hx
  · intro ctx m k v; unfold eval; exact Tr.fail _
  · intro ctx; exact tr_list_nil
  · intro ctx m k v rest hk hv hr; exact tr_list_pair hk hv hr
  · intro ctx n rest hn h hr; exact tr_list_cons hn h hr


theorem eval_tr (c : SCfg) (hc : c.rangeSizeSigned = false) (ctx : Ctx) (n : Node) :
    Tr c.budget (eval c ctx n) T :=
  (eval_tr_all c hc).1 ctx n

/-! ### The statements about `eval` -/

section Main
variable (c : SCfg) (hc : c.rangeSizeSigned = false) (ctx : Ctx) (n : Node) (s : SState)
include hc

/-- `created` never decreases (no assumption on the start state). -/
theorem eval_created_mono : s.created ≤ (eval c ctx n s).2.created := by
  have h := eval_tr c hc ctx n
  unfold Tr at h
  exact (h s).1

/-- Started with `memory = created`, the evaluation ends with `memory = created` — whether it succeeds
    or fails (the state survives a failure). -/
theorem eval_memory_eq_created (hs : s.memory = (s.created : Int)) :
    (eval c ctx n s).2.memory = ((eval c ctx n s).2.created : Int) := by
  have h := eval_tr c hc ctx n
  unfold Tr at h
  exact ((h s).2.2 hs).1

/-- Started with `memory = created` below the budget, every outcome other than the budget error
    (success in particular) leaves the counter below the budget. -/
theorem eval_lt_budget_of_not_budget_error (hs : s.memory = (s.created : Int))
    (hlt : s.memory < c.budget) (hne : (eval c ctx n s).1 ≠ .error .budget) :
    (eval c ctx n s).2.memory < c.budget := by
  have h := eval_tr c hc ctx n
  unfold Tr at h
  exact ((h s).2.2 hs).2 hlt hne

/-- A successful evaluation started with `memory = created` below the budget ends below the budget. -/
theorem eval_ok_lt_budget {v : Val} (hs : s.memory = (s.created : Int)) (hlt : s.memory < c.budget)
    (hok : (eval c ctx n s).1 = .ok v) : (eval c ctx n s).2.memory < c.budget :=
  eval_lt_budget_of_not_budget_error c hc ctx n s hs hlt (by rw [hok]; simp)

/-- The counter reaches the budget only in an evaluation that ends with the budget error. -/
theorem eval_budget_error_of_ge_budget (hs : s.memory = (s.created : Int)) (hlt : s.memory < c.budget)
    (hge : c.budget ≤ (eval c ctx n s).2.memory) : (eval c ctx n s).1 = .error .budget :=
  Classical.byContradiction fun hne =>
    Int.not_le.mpr (eval_lt_budget_of_not_budget_error c hc ctx n s hs hlt hne) hge

end Main

/-! ### Where a budget error comes from: the two accounting primitives

`eval_budget_error_of_ge_budget` is the state-level half of "the budget error happens exactly at the
limit".  The converse cannot be phrased on the final state alone: a refused range leaves no trace of its
size in `SState` (an `∃ k ≥ 0, memory + k ≥ budget` would hold trivially).  The budget error is raised by
`allocAfter` / `allocBefore` only; the lemmas below say precisely when. -/

/-- `allocAfter` fails exactly when the counter, after adding, has reached the limit; the failing
    state already contains the addition. -/
theorem allocAfter_budget_error_iff (lim k : Int) (b : Nat) (s : SState) :
    (SM.allocAfter lim k b s).1 = .error .budget ↔ lim ≤ (SM.allocAfter lim k b s).2.memory := by
  unfold SM.allocAfter
  simp only
  split <;> simp_all

theorem allocAfter_state (lim k : Int) (b : Nat) (s : SState) :
    (SM.allocAfter lim k b s).2 = { s with memory := s.memory + k, created := s.created + b } := by
  unfold SM.allocAfter
  simp only
  split <;> rfl

/-- `allocBefore` fails exactly when the counter plus the (clamped) size of the refused collection would
    reach the limit; the failing state is the state before. -/
theorem allocBefore_budget_error_iff (lim k : Int) (b : Nat) (s : SState) :
    (SM.allocBefore lim k b s).1 = .error .budget ↔ lim ≤ s.memory + k := by
  unfold SM.allocBefore
  split <;> simp_all

theorem allocBefore_error_state (lim k : Int) (b : Nat) (s : SState) (e : ErrClass)
    (h : (SM.allocBefore lim k b s).1 = .error e) : (SM.allocBefore lim k b s).2 = s := by
  unfold SM.allocBefore at h ⊢
  split <;> simp_all

/-! ### Corollaries for `Spec.run` -/

theorem run_state (c : SCfg) (cast : Option Nat) (n : Node) : (run c cast n).2 = (eval c [] n {}).2 := by
  unfold run
  split
  · rename_i h; rw [h]; split <;> rfl
  · rfl

theorem run_ok (c : SCfg) (cast : Option Nat) (n : Node) {v : Val} (h : (run c cast n).1 = .ok v) :
    ∃ w, (eval c [] n {}).1 = .ok w := by
  unfold run at h
  split at h
  · rename_i w s hw; exact ⟨w, by rw [hw]⟩
  · exact ⟨v, h⟩

theorem run_error_of_eval_error (c : SCfg) (cast : Option Nat) (n : Node) {e : ErrClass}
    (h : (eval c [] n {}).1 = .error e) : (run c cast n).1 = .error e := by
  unfold run
  split
  · rename_i w s hw; rw [hw] at h; simp at h
  · exact h

/-- After a whole run the budget counter equals the number of elements built (success or failure). -/
theorem spec_memory_eq_created (c : SCfg) (cast : Option Nat) (n : Node)
    (hc : c.rangeSizeSigned = false) :
    (run c cast n).2.memory = ((run c cast n).2.created : Int) := by
  rw [run_state]
  exact eval_memory_eq_created c hc [] n {} rfl

/-- A successful run has built fewer elements than the budget. -/
theorem spec_success_lt_budget (c : SCfg) (cast : Option Nat) (n : Node) {v : Val}
    (hc : c.rangeSizeSigned = false) (hb : 0 < c.budget) (hok : (run c cast n).1 = .ok v) :
    ((run c cast n).2.created : Int) < c.budget := by
  rw [← spec_memory_eq_created c cast n hc, run_state]
  obtain ⟨w, hw⟩ := run_ok c cast n hok
  exact eval_ok_lt_budget c hc [] n {} rfl hb hw

/-- The number of elements built reaches the budget only in a run that ends with the budget error. -/
theorem spec_budget_error_of_created_ge_budget (c : SCfg) (cast : Option Nat) (n : Node)
    (hc : c.rangeSizeSigned = false) (hb : 0 < c.budget)
    (hge : c.budget ≤ ((run c cast n).2.created : Int)) : (run c cast n).1 = .error .budget := by
  rw [← spec_memory_eq_created c cast n hc, run_state] at hge
  exact run_error_of_eval_error c cast n (eval_budget_error_of_ge_budget c hc [] n {} rfl hb hge)

end Spec
end ExprModel
