import ExprModel.VM.Step
import ExprModel.Proofs.BcCompile
/-
C05, part 10 (stack balance, partial): for the straight-line sub-language (literals, unary operators, arithmetic and
ordering operators) running the compiled fragment on the byte-level VM model from ANY stack `st` either fails with
an ordinary run-time error (never a pop of an empty stack, never a malformed-program error) or ends exactly
at the end of the fragment with `v :: st` and the scope stack it found.
The general statement (all constructs, loops with their relational invariant) is the shape of C01's refinement.
-/
namespace ExprModel.Bc

/-- the program the VM runs: the encoded bytes and the constant pool -/
def progOfCode (is : List Instr) (consts : Array Val) : Prog := { code := (encodeAll is).toArray, consts := consts }

theorem bc_fetch_byte (pre : List Instr) (i : Instr) (post : List Instr) (consts : Array Val) (k : Nat) :
    (progOfCode (pre ++ i :: post) consts).code[codeSize pre + k]? = (i.encode ++ encodeAll post)[k]? := by
  simp only [progOfCode, List.getElem?_toArray, encodeAll_append, encodeAll_cons]
  rw [List.getElem?_append_right (by rw [codeSize_eq_length]; omega), codeSize_eq_length]
  congr 1; omega

theorem bc_fetch_op (pre : List Instr) (i : Instr) (post : List Instr) (consts : Array Val) :
    (progOfCode (pre ++ i :: post) consts).code[codeSize pre]? = some i.op.code := by
  have := bc_fetch_byte pre i post consts 0
  simp only [Nat.add_zero] at this
  rw [this]; unfold Instr.encode; split <;> rfl

theorem bc_fetch_arg (pre : List Instr) (i : Instr) (post : List Instr) (consts : Array Val) (ha : i.op.hasArg = true) :
    (progOfCode (pre ++ i :: post) consts).code[codeSize pre + 1]? = some (i.arg % 256) ∧
    (progOfCode (pre ++ i :: post) consts).code[codeSize pre + 1 + 1]? = some (i.arg / 256 % 256) := by
  have h1 := bc_fetch_byte pre i post consts 1
  have h2 := bc_fetch_byte pre i post consts 2
  simp only [Instr.encode, ha, if_true, List.cons_append, List.nil_append] at h1 h2
  exact ⟨by rw [h1]; rfl, by rw [show codeSize pre + 1 + 1 = codeSize pre + 2 by omega, h2]; rfl⟩

/-- `n` iterations of the dispatch loop's body -/
def stepN (c : Cfg) (p : Prog) : Nat → VM → RV VM
  | 0, s => .ok s
  | n + 1, s =>
    match step c p s with
    | .ok s' => stepN c p n s'
    | .error e => .error e

theorem stepN_add (c : Cfg) (p : Prog) : ∀ (a b : Nat) (s : VM),
    stepN c p (a + b) s = (match stepN c p a s with
      | .ok s' => stepN c p b s'
      | .error e => .error e)
  | 0, b, s => by simp [stepN]
  | a + 1, b, s => by
    have : a + 1 + b = (a + b) + 1 := by omega
    rw [this, stepN, stepN]
    cases step c p s with
    | ok s' => exact stepN_add c p a b s'
    | error e => rfl

/-- outcome of running a fragment that was entered with stack `st` and scopes `sc`: it ends at `target` with one
    more value and the same scopes, or fails with an ordinary run-time error -/
def StackBal (st : List Val) (sc : List Scope) (target : Nat) : RV VM → Prop
  | .ok s' => s'.ip = target ∧ (∃ v, s'.stack = v :: st) ∧ s'.scopes = sc
  | .error (e, _) => e ≠ .underflow ∧ e ≠ .badop ∧ e ≠ .fuel

/-! ### single steps -/

theorem step_push_bal (c : Cfg) (p : Prog) (s : VM) (lo hi : Nat) (v : Val)
    (hcode : p.code[s.ip]? = some Op.push.code) (h1 : p.code[s.ip + 1]? = some lo) (h2 : p.code[s.ip + 1 + 1]? = some hi)
    (hc : p.consts[lo + 256 * hi]? = some v) : StackBal s.stack s.scopes (s.ip + 3) (step c p s) := by
  have : step c p s = .ok { s with pp := s.ip, ip := s.ip + 1 + 2, stack := v :: s.stack } := by
    simp [step, hcode, Op.ofCode_code, readConst, readArg, h1, h2, hc, VM.push, bind, Except.bind, pure, Except.pure]
  rw [this]; exact ⟨rfl, ⟨v, rfl⟩, rfl⟩

theorem step_lit_bal (c : Cfg) (p : Prog) (s : VM) (op : Op) (hop : op = .nil_ ∨ op = .true_ ∨ op = .false_)
    (hcode : p.code[s.ip]? = some op.code) : StackBal s.stack s.scopes (s.ip + 1) (step c p s) := by
  rcases hop with rfl | rfl | rfl <;>
    simp [step, hcode, Op.ofCode_code, VM.push, pure, Except.pure, StackBal]

theorem step_unop_bal (c : Cfg) (p : Prog) (s : VM) (op : Op) (hop : op = .not_ ∨ op = .negate)
    (hcode : p.code[s.ip]? = some op.code) (v : Val) (st : List Val) (hs : s.stack = v :: st) :
    StackBal st s.scopes (s.ip + 1) (step c p s) := by
  rcases hop with rfl | rfl
  · have : step c p s = (match notV v with
        | .ok r => .ok { s with pp := s.ip, ip := s.ip + 1, stack := r :: st }
        | .error e => .error (e, { s with pp := s.ip, ip := s.ip + 1, stack := st })) := by
      simp [step, hcode, Op.ofCode_code, VM.pop, hs, VM.push, bind, Except.bind, pure, Except.pure, liftR]
      cases notV v <;> rfl
    rw [this]
    cases v <;> simp [notV, StackBal]
  · have : step c p s = (match negV v with
        | .ok r => .ok { s with pp := s.ip, ip := s.ip + 1, stack := r :: st }
        | .error e => .error (e, { s with pp := s.ip, ip := s.ip + 1, stack := st })) := by
      simp [step, hcode, Op.ofCode_code, VM.pop, hs, VM.push, bind, Except.bind, pure, Except.pure, liftR]
      cases negV v <;> rfl
    rw [this]
    unfold negV
    cases negateVal v <;> simp [StackBal]

theorem binHelper_err (h : Helper) (a b : Val) (e : ErrClass) (he : binHelper h a b = .error e) :
    e ≠ .underflow ∧ e ≠ .badop ∧ e ≠ .fuel := by
  unfold binHelper at he
  split at he
  · cases he
  · cases he; exact ⟨by decide, by decide, by decide⟩
  · cases he; exact ⟨by decide, by decide, by decide⟩

theorem step_binop_bal (c : Cfg) (p : Prog) (s : VM) (op : Op) (h : Helper) (hop : binOpOf op = some h)
    (hcode : p.code[s.ip]? = some op.code) (a b : Val) (st : List Val) (hs : s.stack = b :: a :: st) :
    StackBal st s.scopes (s.ip + 1) (step c p s) := by
  have key : step c p s = (match binHelper h a b with
      | .ok r => .ok { s with pp := s.ip, ip := s.ip + 1, stack := r :: st }
      | .error e => .error (e, { s with pp := s.ip, ip := s.ip + 1, stack := st })) := by
    cases op <;> simp [binOpOf] at hop <;> subst hop <;>
      (simp [step, hcode, Op.ofCode_code, VM.pop2, VM.pop, hs, VM.push, bind, Except.bind, pure, Except.pure, liftR,
        binOpOf]
       cases binHelper _ a b <;> rfl)
  rw [key]
  cases hb : binHelper h a b with
  | ok r => exact ⟨rfl, ⟨r, rfl⟩, rfl⟩
  | error e => exact binHelper_err h a b e hb

/-! ### the straight-line sub-language -/

/-- literals, unary operators, and the binary operators compiled to one arithmetic / ordering opcode -/
inductive StraightLine : Node → Prop
  | nil (m : Meta) : StraightLine (.nil m)
  | bool (m : Meta) (b : Bool) : StraightLine (.bool m b)
  | int (m : Meta) (v : Int) : StraightLine (.int m v)
  | float (m : Meta) (v : UInt64) : StraightLine (.float m v)
  | str (m : Meta) (s : String) : StraightLine (.str m s)
  | const (m : Meta) (v : Val) : StraightLine (.const m v)
  | unary (m : Meta) (op : String) (x : Node) : StraightLine x → StraightLine (.unary m op x)
  | binary (m : Meta) (op : String) (l r : Node) (o : Op) (h : Helper) :
      binSimpleOp op = some [o] → binOpOf o = some h → StraightLine l → StraightLine r → StraightLine (.binary m op l r)

/-- the property of one compiled fragment: placed anywhere (`pre`, `post`) in a program whose pool extends the
    fragment's, entered at its first byte with any stack and scopes, it is stack-balanced -/
def StackBalanced (code : List LInstr) (consts : Array Val) : Prop :=
  ∀ (pre post : List Instr) (vc : Cfg) (s : VM), s.ip = codeSize pre →
    StackBal s.stack s.scopes (codeSize pre + lsize code)
      (stepN vc (progOfCode (pre ++ instrs code ++ post) consts) (instrs code).length s)

theorem balanced_push {consts : Array Val} {k : Nat} (l : Loc) (hk : AnyAt consts k) (h16 : k < 65536) :
    StackBalanced [li l .push k] consts := by
  intro pre post vc s hip
  obtain ⟨v, hv⟩ := hk
  have hop := bc_fetch_op pre ⟨.push, k⟩ post consts
  have harg := bc_fetch_arg pre ⟨.push, k⟩ post consts rfl
  simp only [instrs_cons, instrs_nil, li_instr, List.length_singleton, stepN, List.append_assoc, List.cons_append,
    List.nil_append]
  have hb := step_push_bal vc (progOfCode (pre ++ ⟨.push, k⟩ :: post) consts) s (k % 256) (k / 256 % 256) v
    (by rw [hip]; exact hop) (by rw [hip]; exact harg.1) (by rw [hip]; exact harg.2)
    (by show consts[k % 256 + 256 * (k / 256 % 256)]? = some v
        have : k % 256 + 256 * (k / 256 % 256) = k := by omega
        rw [this]; exact hv)
  have hsz : codeSize pre + lsize [li l .push k] = s.ip + 3 := by rw [hip]; rfl
  rw [hsz]
  cases hst : step vc (progOfCode (pre ++ ⟨.push, k⟩ :: post) consts) s with
  | ok s' => rw [hst] at hb; exact hb
  | error e => rw [hst] at hb; exact hb

theorem balanced_lit {consts : Array Val} (l : Loc) (op : Op) (hop : op = .nil_ ∨ op = .true_ ∨ op = .false_) :
    StackBalanced [li l op] consts := by
  intro pre post vc s hip
  have hna : op.hasArg = false := by rcases hop with rfl | rfl | rfl <;> rfl
  have hfo := bc_fetch_op pre ⟨op, 0⟩ post consts
  simp only [instrs_cons, instrs_nil, li_instr, List.length_singleton, stepN, List.append_assoc, List.cons_append,
    List.nil_append]
  have hb := step_lit_bal vc (progOfCode (pre ++ ⟨op, 0⟩ :: post) consts) s op hop (by rw [hip]; exact hfo)
  have hsz : codeSize pre + lsize [li l op] = s.ip + 1 := by
    rw [hip]; simp [lsize_eq, Instr.size, hna]
  rw [hsz]
  cases hst : step vc (progOfCode (pre ++ ⟨op, 0⟩ :: post) consts) s with
  | ok s' => rw [hst] at hb; exact hb
  | error e => rw [hst] at hb; exact hb

/-- `x; op` for a unary opcode -/
theorem balanced_unop {consts : Array Val} {cx : List LInstr} (l : Loc) (op : Op) (hop : op = .not_ ∨ op = .negate)
    (hx : StackBalanced cx consts) : StackBalanced (cx ++ [li l op]) consts := by
  intro pre post vc s hip
  have hna : op.hasArg = false := by rcases hop with rfl | rfl <;> rfl
  have hprog : pre ++ instrs (cx ++ [li l op]) ++ post = pre ++ instrs cx ++ (⟨op, 0⟩ :: post) := by simp
  have hlen : (instrs (cx ++ [li l op])).length = (instrs cx).length + 1 := by simp
  rw [hprog, hlen, stepN_add]
  have h1 := hx pre (⟨op, 0⟩ :: post) vc s hip
  cases hr : stepN vc (progOfCode (pre ++ instrs cx ++ (⟨op, 0⟩ :: post)) consts) (instrs cx).length s with
  | error e => rw [hr] at h1; exact h1
  | ok s1 =>
    rw [hr] at h1
    obtain ⟨hip1, ⟨v, hst1⟩, hsc1⟩ := h1
    simp only [stepN]
    have hfo := bc_fetch_op (pre ++ instrs cx) ⟨op, 0⟩ post consts
    have hip1' : s1.ip = codeSize (pre ++ instrs cx) := by rw [hip1]; simp [lsize_eq]
    have hb := step_unop_bal vc (progOfCode (pre ++ instrs cx ++ (⟨op, 0⟩ :: post)) consts) s1 op hop
      (by rw [hip1']; exact hfo) v s.stack hst1
    have hsz : codeSize pre + lsize (cx ++ [li l op]) = s1.ip + 1 := by
      rw [hip1]; simp [lsize_eq, Instr.size, hna]; omega
    rw [hsz, ← hsc1]
    cases hst : step vc (progOfCode (pre ++ instrs cx ++ (⟨op, 0⟩ :: post)) consts) s1 with
    | ok s' => rw [hst] at hb; exact hb
    | error e => rw [hst] at hb; exact hb

/-- `l; r; op` for an arithmetic / ordering opcode -/
theorem balanced_binop {consts : Array Val} {cl cr : List LInstr} (l : Loc) (op : Op) (h : Helper)
    (hop : binOpOf op = some h) (hl : StackBalanced cl consts) (hr : StackBalanced cr consts) :
    StackBalanced (cl ++ cr ++ [li l op]) consts := by
  intro pre post vc s hip
  have hna : op.hasArg = false := by cases op <;> simp [binOpOf] at hop <;> rfl
  have hprog : pre ++ instrs (cl ++ cr ++ [li l op]) ++ post = pre ++ instrs cl ++ (instrs cr ++ ⟨op, 0⟩ :: post) := by simp
  have hlen : (instrs (cl ++ cr ++ [li l op])).length = (instrs cl).length + ((instrs cr).length + 1) := by
    simp <;> omega
  rw [hprog, hlen, stepN_add]
  have h1 := hl pre (instrs cr ++ ⟨op, 0⟩ :: post) vc s hip
  cases hr1 : stepN vc (progOfCode (pre ++ instrs cl ++ (instrs cr ++ ⟨op, 0⟩ :: post)) consts) (instrs cl).length s with
  | error e => rw [hr1] at h1; exact h1
  | ok s1 =>
    rw [hr1] at h1
    obtain ⟨hip1, ⟨a, hst1⟩, hsc1⟩ := h1
    simp only
    rw [stepN_add]
    have hprog2 : pre ++ instrs cl ++ (instrs cr ++ ⟨op, 0⟩ :: post) = (pre ++ instrs cl) ++ instrs cr ++ (⟨op, 0⟩ :: post) := by
      simp
    rw [hprog2]
    have hip1' : s1.ip = codeSize (pre ++ instrs cl) := by rw [hip1]; simp [lsize_eq]
    have h2 := hr (pre ++ instrs cl) (⟨op, 0⟩ :: post) vc s1 hip1'
    cases hr2 : stepN vc (progOfCode ((pre ++ instrs cl) ++ instrs cr ++ (⟨op, 0⟩ :: post)) consts) (instrs cr).length s1 with
    | error e => rw [hr2] at h2; exact h2
    | ok s2 =>
      rw [hr2] at h2
      obtain ⟨hip2, ⟨b, hst2⟩, hsc2⟩ := h2
      simp only [stepN]
      have hfo := bc_fetch_op ((pre ++ instrs cl) ++ instrs cr) ⟨op, 0⟩ post consts
      have hip2' : s2.ip = codeSize ((pre ++ instrs cl) ++ instrs cr) := by rw [hip2]; simp [lsize_eq]; omega
      have hb := step_binop_bal vc (progOfCode ((pre ++ instrs cl) ++ instrs cr ++ (⟨op, 0⟩ :: post)) consts) s2 op h hop
        (by rw [hip2']; exact hfo) a b s.stack (by rw [hst2, hst1])
      have hsz : codeSize pre + lsize (cl ++ cr ++ [li l op]) = s2.ip + 1 := by
        rw [hip2]; simp [lsize_eq, Instr.size, hna]; omega
      rw [hsz, ← hsc1, ← hsc2]
      cases hst : step vc (progOfCode ((pre ++ instrs cl) ++ instrs cr ++ (⟨op, 0⟩ :: post)) consts) s2 with
      | ok s' => rw [hst] at hb; exact hb
      | error e => rw [hst] at hb; exact hb

theorem StackBalanced.mono {code : List LInstr} {c c' : Array Val} (h : ∀ c'', PoolExt c c'' → StackBalanced code c'') (e : PoolExt c c') :
    ∀ c'', PoolExt c' c'' → StackBalanced code c'' := fun c'' e' => h c'' (e.trans e')

theorem binSimple_not_special {op : String} {o : Op} (h : binSimpleOp op = some [o]) :
    (op == "==") = false ∧ (op == "or" || op == "||") = false ∧ (op == "and" || op == "&&") = false := by
  refine ⟨?_, ?_, ?_⟩
  · cases hb : (op == "==")
    · rfl
    · have : op = "==" := by simpa using hb
      subst this; simp [binSimpleOp] at h
  · cases hb : (op == "or" || op == "||")
    · rfl
    · simp only [Bool.or_eq_true, beq_iff_eq] at hb
      rcases hb with rfl | rfl <;> simp [binSimpleOp] at h
  · cases hb : (op == "and" || op == "&&")
    · rfl
    · simp only [Bool.or_eq_true, beq_iff_eq] at hb
      rcases hb with rfl | rfl <;> simp [binSimpleOp] at h

/-- every straight-line tree compiles to a stack-balanced fragment, against every pool extending its own -/
theorem balanced_sl (cfg : CompCfg) {n : Node} (hsl : StraightLine n) :
    ∀ (p0 : Pool) (code : List LInstr) (p1 : Pool), PoolOk p0 → compileNode cfg n p0 = .ok (code, p1) →
      ∀ consts, PoolExt p1.consts consts → StackBalanced code consts := by
  induction hsl with
  | nil m =>
    intro p0 code p1 _ h consts _
    simp only [compileNode, Except.ok.injEq, Prod.mk.injEq] at h
    obtain ⟨rfl, rfl⟩ := h
    exact balanced_lit _ _ (Or.inl rfl)
  | bool m b =>
    intro p0 code p1 _ h consts _
    simp only [compileNode, Except.ok.injEq, Prod.mk.injEq] at h
    obtain ⟨rfl, rfl⟩ := h
    cases b
    · exact balanced_lit _ _ (Or.inr (Or.inr rfl))
    · exact balanced_lit _ _ (Or.inr (Or.inl rfl))
  | int m v =>
    intro p0 code p1 hp h consts he
    simp only [compileNode] at h
    obtain ⟨⟨k, p2⟩, h1, h⟩ := cr_bind_ok h
    cr_fin h
    obtain ⟨hp2, _, hk⟩ := mkConst_any hp h1
    have := (mkConst_index_lt hp h1)
    exact balanced_push _ (hk.mono he) (by omega)
  | float m v =>
    intro p0 code p1 hp h consts he
    simp only [compileNode] at h
    obtain ⟨⟨k, p2⟩, h1, h⟩ := cr_bind_ok h
    cr_fin h
    obtain ⟨hp2, _, hk⟩ := mkConst_any hp h1
    have := (mkConst_index_lt hp h1)
    exact balanced_push _ (hk.mono he) (by omega)
  | str m s =>
    intro p0 code p1 hp h consts he
    simp only [compileNode] at h
    obtain ⟨⟨k, p2⟩, h1, h⟩ := cr_bind_ok h
    cr_fin h
    obtain ⟨hp2, _, hk⟩ := mkConst_any hp h1
    have := (mkConst_index_lt hp h1)
    exact balanced_push _ (hk.mono he) (by omega)
  | const m v =>
    intro p0 code p1 hp h consts he
    unfold compileNode at h
    split at h
    · simp only [Except.ok.injEq, Prod.mk.injEq] at h
      obtain ⟨rfl, rfl⟩ := h
      exact balanced_lit _ _ (Or.inl rfl)
    · obtain ⟨⟨k, p2⟩, h1, h⟩ := cr_bind_ok h
      cr_fin h
      obtain ⟨hp2, _, hk⟩ := mkConst_any hp h1
      have := (mkConst_index_lt hp h1)
      exact balanced_push _ (hk.mono he) (by omega)
  | unary m op x _ ih =>
    intro p0 code p1 hp h consts he
    simp only [compileNode] at h
    obtain ⟨⟨cx, p2⟩, h1, h⟩ := cr_bind_ok h
    dsimp only at h
    split at h
    · cr_fin h; exact balanced_unop _ _ (Or.inl rfl) (ih _ _ _ hp h1 consts he)
    · split at h
      · cr_fin h; exact ih _ _ _ hp h1 consts he
      · split at h
        · cr_fin h; exact balanced_unop _ _ (Or.inr rfl) (ih _ _ _ hp h1 consts he)
        · cases h
  | binary m op l r o hh hbs hbo _ _ ihl ihr =>
    intro p0 code p1 hp h consts he
    obtain ⟨e1, e2, e3⟩ := binSimple_not_special hbs
    simp only [compileNode, e1, e2, e3, hbs, Bool.false_eq_true, if_false] at h
    obtain ⟨⟨cl, p2⟩, h1, h⟩ := cr_bind_ok h
    obtain ⟨⟨cr, p3⟩, h2, h⟩ := cr_bind_ok h
    dsimp only at h2 h
    cr_fin h
    have rl := compileNode_wf cfg l _ _ _ hp h1
    have rr := compileNode_wf cfg r _ _ _ rl.1 h2
    have := balanced_binop m.loc o hh hbo (ihl _ _ _ hp h1 consts (rr.2.1.trans he)) (ihr _ _ _ rl.1 h2 consts he)
    simpa using this

/-! ### whole runs -/

theorem bc_step_oob (c : Cfg) (p : Prog) (s : VM) (h : p.code.size ≤ s.ip) :
    step c p s = .error (.badop, { s with pp := s.ip, ip := s.ip + 1 }) := by
  have hnone : p.code[s.ip]? = none := Array.getElem?_eq_none h
  have h255 : Op.ofCode? 255 = none := by decide
  simp [step, hnone, h255, failV]

theorem bc_step_ip_lt (c : Cfg) (p : Prog) (s : VM) (h : ∀ s', step c p s ≠ .error (.badop, s')) : s.ip < p.code.size := by
  rcases Nat.lt_or_ge s.ip p.code.size with h' | h'
  · exact h'
  · exact absurd (bc_step_oob c p s h') (h _)

/-- the dispatch loop follows `stepN` as long as no step reports a malformed program -/
theorem loop_of_stepN (c : Cfg) (p : Prog) : ∀ (n : Nat) (s : VM) (fuel : Nat), n ≤ fuel →
    match stepN c p n s with
    | .ok s' => loop c p fuel s = loop c p (fuel - n) s'
    | .error (e, s') => e ≠ .badop → loop c p fuel s = (.error e, s')
  | 0, s, fuel, _ => by simp [stepN]
  | n + 1, s, fuel, hf => by
    obtain ⟨f, rfl⟩ : ∃ f, fuel = f + 1 := ⟨fuel - 1, by omega⟩
    simp only [stepN]
    cases hst : step c p s with
    | ok s1 =>
      have hlt : s.ip < p.code.size := bc_step_ip_lt c p s (by intro s' h; rw [hst] at h; cases h)
      have ih := loop_of_stepN c p n s1 f (by omega)
      simp only
      cases hr : stepN c p n s1 with
      | ok s' =>
        rw [hr] at ih
        simp only [loop, hlt, if_true, hst]
        have : f + 1 - (n + 1) = f - n := by omega
        rw [this]; exact ih
      | error es =>
        obtain ⟨e, s'⟩ := es
        rw [hr] at ih
        intro he
        simp only [loop, hlt, if_true, hst]
        exact ih he
    | error es =>
      obtain ⟨e, s'⟩ := es
      simp only
      intro he
      have hlt : s.ip < p.code.size := bc_step_ip_lt c p s (by
        intro s'' h; rw [hst] at h
        simp only [Except.error.injEq, Prod.mk.injEq] at h
        exact he h.1)
      simp only [loop, hlt, if_true, hst]

/-- a balanced program, run from the prologue: success leaves an empty stack and no scope; failures are
    ordinary run-time errors -/
theorem run_of_balanced {code : List LInstr} {consts : Array Val} (hb : StackBalanced code consts) (vc : Cfg)
    (fuel : Nat) (hf : (instrs code).length < fuel) :
    match (run vc (progOfCode (instrs code) consts) fuel).1 with
    | .ok _ => (run vc (progOfCode (instrs code) consts) fuel).2.stack = [] ∧
               (run vc (progOfCode (instrs code) consts) fuel).2.scopes = []
    | .error e => e ≠ .underflow ∧ e ≠ .badop ∧ e ≠ .fuel := by
  have h0 := hb [] [] vc (prologue vc {}) rfl
  simp only [List.nil_append, List.append_nil, codeSize_nil, Nat.zero_add] at h0
  have hl := loop_of_stepN vc (progOfCode (instrs code) consts) (instrs code).length (prologue vc {}) fuel (by omega)
  unfold run runOn
  cases hr : stepN vc (progOfCode (instrs code) consts) (instrs code).length (prologue vc {}) with
  | ok s' =>
    rw [hr] at h0 hl
    obtain ⟨hip, ⟨v, hst⟩, hsc⟩ := h0
    simp only at hl
    rw [hl]
    obtain ⟨k, hk⟩ : ∃ k, fuel - (instrs code).length = k + 1 := ⟨fuel - (instrs code).length - 1, by omega⟩
    have hsize : (progOfCode (instrs code) consts).code.size = lsize code := by
      simp [progOfCode, codeSize_eq_length, lsize_eq]
    have hnlt : ¬ s'.ip < (progOfCode (instrs code) consts).code.size := by rw [hsize, hip]; omega
    rw [hk]
    simp only [loop, hnlt, if_false, hst]
    exact ⟨rfl, by simpa [prologue] using hsc⟩
  | error es =>
    obtain ⟨e, s'⟩ := es
    rw [hr] at h0 hl
    simp only at hl
    rw [hl h0.2.1]
    exact h0

end ExprModel.Bc
