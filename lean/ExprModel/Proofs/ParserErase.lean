import ExprModel.Proofs.ParserEraseDefs
/-
The accepted token lists are printings, part 1: the invariant and the expression-level functions.
-/
namespace ExprModel.Parser

variable (cfg : Cfg) (sh : NumShow)

/-- what the erase theorem assumes about the tables: `#` is no operator -/
structure EraHyp (cfg : Cfg) : Prop where
  bin_hash : cfg.tb.binary.lookup "#" = none
  un_hash : cfg.tb.unary.lookup "#" = none

/-- the conditions on the input that the theorem is stated under, closed under taking suffixes -/
def Plain (ts : List Token) : Prop := altFree ts = true ∧ numbersPlain cfg sh ts

theorem Plain.of_cons {ts ts' : List Token} {w : List String} (h : Plain cfg sh ts) (hc : Cons ts ts' w) :
    Plain cfg sh ts' := by
  obtain ⟨pre, rfl, _, _⟩ := hc
  exact ⟨altFree_suffix pre ts' h.1, fun t ht => h.2 t (List.mem_append_right _ ht)⟩

theorem keep_of_operator {t : Token} (hk : t.kind = .operator) (hv : t.value ≠ "#") : keepTok t = true := by
  simp [keepTok, Token.is, hk, hv]

theorem keep_of_plain_kind {t : Token} (h1 : t.kind ≠ .operator) (h2 : t.kind ≠ .bracket) : keepTok t = true := by
  simp [keepTok, Token.is, h1, h2]

theorem keep_of_value {t : Token} (h1 : t.value ≠ "(") (h2 : t.value ≠ ")") (h3 : t.value ≠ "#") : keepTok t = true := by
  simp [keepTok, Token.is, h1, h2, h3]

theorem kind_of_is {t : Token} {k : TokKind} {v : String} (h : t.is k v = true) : t.kind = k ∧ t.value = v := by
  simpa [Token.is] using h

theorem cons_of_next {ts ts1 : List Token} (he : ts = cur ts :: ts1) (hk : keepTok (cur ts) = true)
    (hne : (cur ts).kind ≠ .eof) : Cons ts ts1 [nv (cur ts).value] := by
  have := Cons.step_keep (t := cur ts) (ts1 := ts1) hk hne
  rwa [← he] at this

theorem cons_of_next_drop {ts ts1 : List Token} (he : ts = cur ts :: ts1) (hk : keepTok (cur ts) = false)
    (hne : (cur ts).kind ≠ .eof) : Cons ts ts1 [] := by
  have := Cons.step_drop (t := cur ts) (ts1 := ts1) hk hne
  rwa [← he] at this

/-- consuming a token that was tested with `is k v` (`k` operator or bracket, not a parenthesis or `#`) -/
theorem cons_of_is {ts ts1 : List Token} {k : TokKind} {v : String} (he : ts = cur ts :: ts1)
    (his : (cur ts).is k v = true) (hk : k = .operator ∨ k = .bracket)
    (h1 : v ≠ "(") (h2 : v ≠ ")") (h3 : v ≠ "#") : Cons ts ts1 [nv v] := by
  obtain ⟨hkind, hval⟩ := kind_of_is his
  have := cons_of_next he (keep_of_value (by rw [hval]; exact h1) (by rw [hval]; exact h2) (by rw [hval]; exact h3))
    (by rw [hkind]; rcases hk with rfl | rfl <;> decide)
  rwa [hval] at this

theorem cons_of_paren {ts ts1 : List Token} {v : String} (he : ts = cur ts :: ts1)
    (his : (cur ts).is .bracket v = true) (hv : v = "(" ∨ v = ")") : Cons ts ts1 [] := by
  obtain ⟨hkind, hval⟩ := kind_of_is his
  refine cons_of_next_drop he ?_ (by rw [hkind]; decide)
  rcases hv with rfl | rfl <;> simp [keepTok, Token.is, hkind, hval]

theorem altFree_quest_colon {ts ts1 : List Token} (he : ts = cur ts :: ts1)
    (h1 : (cur ts).is .operator "?" = true) (h2 : (cur ts1).is .operator ":" = true) : altFree ts = false := by
  cases ts1 with
  | nil => simp [cur, eofTok, Token.is] at h2
  | cons b rest =>
    rw [he]
    simp only [cur] at h2
    simp [altFree, h1, h2]

theorem altFree_comma_close {ts ts1 : List Token} (he : ts = cur ts :: ts1)
    (h1 : (cur ts).is .operator "," = true)
    (h2 : (cur ts1).is .bracket "]" = true ∨ (cur ts1).is .bracket "}" = true) : altFree ts = false := by
  cases ts1 with
  | nil => rcases h2 with h2 | h2 <;> simp [cur, eofTok, Token.is] at h2
  | cons b rest =>
    rw [he]
    simp only [cur] at h2
    rcases h2 with h2 | h2 <;> simp [altFree, h1, h2]

/-- the text of the elements a loop consumed: with the leading comma unless it started the list -/
def flatLb (b : Bool) (ns : List Node) : List String := if b = true then flatL sh ns else flatL' sh ns
def flatPb (b : Bool) (ps : List Node) : List String := if b = true then flatP sh ps else flatP' sh ps

/-- results of the expression-level functions: the consumed text is the text of the tree -/
abbrev QE (ts : List Token) : Node → List Token → Prop := fun n ts' => Cons ts ts' (flat sh n)
/-- results of the loops that extend a tree: the consumed text is what was appended to the tree's text -/
abbrev QA (ts : List Token) (l : Node) : Node → List Token → Prop :=
  fun n ts' => ∃ w, Cons ts ts' w ∧ flat sh n = flat sh l ++ w

structure EraAt (f : Nat) : Prop where
  expr : ∀ d p ts, Plain cfg sh ts → Post (QE sh ts) (parseExpression cfg f d p ts)
  loop : ∀ d p l ts, Plain cfg sh ts → Post (QA sh ts l) (exprLoop cfg f d p l ts)
  prim : ∀ d ts, Plain cfg sh ts → Post (QE sh ts) (parsePrimary cfg f d ts)
  cond : ∀ d nd ts, Plain cfg sh ts → Post (QA sh ts nd) (parseConditional cfg f d nd ts)
  pexp : ∀ d ts, Plain cfg sh ts → Post (QE sh ts) (parsePrimaryExpression cfg f d ts)
  ident : ∀ d tok ts, Plain cfg sh ts →
    Post (fun n ts' => ∃ w, Cons ts ts' w ∧ flat sh n = nv tok.value :: w) (parseIdentifierExpression cfg f d tok ts)
  clos : ∀ d ts, Plain cfg sh ts → Post (QE sh ts) (parseClosure cfg f d ts)
  arr : ∀ d ts, Plain cfg sh ts → Post (QE sh ts) (parseArray cfg f d ts)
  arrL : ∀ d b ts, Plain cfg sh ts →
    Post (fun ns ts' => Cons ts ts' (flatLb sh b ns)) (arrayLoop cfg f d b ts)
  map : ∀ d ts, Plain cfg sh ts → Post (QE sh ts) (parseMap cfg f d ts)
  mapL : ∀ d l b ts, Plain cfg sh ts →
    Post (fun ps ts' => Cons ts ts' (flatPb sh b ps)) (mapLoop cfg f d l b ts)
  post : ∀ d nd b ts, Plain cfg sh ts → Post (QA sh ts nd) (parsePostfix cfg f d nd b ts)
  args : ∀ d ts, Plain cfg sh ts → Post (fun as ts' => Cons ts ts' (flatL sh as)) (parseArguments cfg f d ts)
  argsL : ∀ d b ts, Plain cfg sh ts →
    Post (fun ns ts' => Cons ts ts' (flatLb sh b ns)) (argsLoop cfg f d b ts)

theorem era_expr {f : Nat} (ih : EraAt cfg sh f) : ∀ d p ts, Plain cfg sh ts →
    Post (QE sh ts) (parseExpression cfg (f+1) d p ts) := by
  intro d p ts hpl
  rw [parseExpression]
  refine Post.bind (ih.prim d ts hpl) ?_
  intro l ts1 hl
  refine Post.bind (ih.loop d p l ts1 (hpl.of_cons cfg sh hl)) ?_
  intro e ts2 ⟨w, hw, hfe⟩
  have h2 := hl.trans hw
  split
  · refine (ih.cond d e ts2 (hpl.of_cons cfg sh h2)).mono ?_
    intro n ts3 ⟨w', hw', hfn⟩
    exact (h2.trans hw').cast (by rw [hfn, hfe])
  · exact Post.ok (h2.cast hfe.symm)

theorem era_loop (hy : EraHyp cfg) {f : Nat} (ih : EraAt cfg sh f) : ∀ d p l ts, Plain cfg sh ts →
    Post (QA sh ts l) (exprLoop cfg (f+1) d p l ts) := by
  intro d p l ts hpl
  rw [exprLoop]
  split
  · next q a hb =>
    obtain ⟨hk, hlk⟩ := binOp_lookup cfg hb
    split
    · refine Post.bind (post_next' ts) ?_
      intro _ ts1 he
      have hkeep : keepTok (cur ts) = true :=
        keep_of_operator hk (by intro hv; rw [hv, hy.bin_hash] at hlk; cases hlk)
      have hc1 := cons_of_next he hkeep (by rw [hk]; decide)
      refine Post.bind (ih.expr d _ ts1 (hpl.of_cons cfg sh hc1)) ?_
      intro r ts2 hr
      have hc2 := hc1.trans hr
      have tail : ∀ node, flat sh node = flat sh l ++ nv (cur ts).value :: flat sh r →
          Post (QA sh ts l) (exprLoop cfg f d p node ts2) := by
        intro node hnode
        refine (ih.loop d p node ts2 (hpl.of_cons cfg sh hc2)).mono ?_
        intro n ts3 ⟨w, hw, hfn⟩
        exact ⟨_, hc2.trans hw, by rw [hfn, hnode]; simp⟩
      split
      · next hm =>
        have hv : (cur ts).value = "matches" := by simpa using hm
        split
        · split
          · exact Post.err
          · exact tail _ (by simp [flat, hv, nv])
        · exact tail _ (by simp [flat, hv, nv])
      · exact tail _ (by simp [flat])
    · exact Post.ok ⟨[], Cons.refl ts, by simp⟩
  · exact Post.ok ⟨[], Cons.refl ts, by simp⟩

theorem era_cond {f : Nat} (ih : EraAt cfg sh f) : ∀ d nd ts, Plain cfg sh ts →
    Post (QA sh ts nd) (parseConditional cfg (f+1) d nd ts) := by
  intro d nd ts hpl
  rw [parseConditional]
  split
  · next hq =>
    refine Post.bind (post_next' ts) ?_
    intro _ ts1 he
    have hc1 := cons_of_is he hq (Or.inl rfl) (by decide) (by decide) (by decide)
    split
    · next hcol =>
      have := altFree_quest_colon he hq hcol
      rw [hpl.1] at this; cases this
    · refine Post.bind (ih.expr d 0 ts1 (hpl.of_cons cfg sh hc1)) ?_
      intro e1 ts2 h1
      have hc2 := hc1.trans h1
      refine Post.bind (post_expect' _ _ ts2) ?_
      intro _ ts3 ⟨he3, hcol⟩
      have hc3 := hc2.trans (cons_of_is he3 hcol (Or.inl rfl) (by decide) (by decide) (by decide))
      refine Post.bind (ih.expr d 0 ts3 (hpl.of_cons cfg sh hc3)) ?_
      intro e2 ts4 h2
      have hc4 := hc3.trans h2
      refine (ih.cond d _ ts4 (hpl.of_cons cfg sh hc4)).mono ?_
      intro n ts5 ⟨w, hw, hfn⟩
      exact ⟨_, hc4.trans hw, by rw [hfn]; simp [flat, nv]⟩
  · exact Post.ok ⟨[], Cons.refl ts, by simp⟩

end ExprModel.Parser
