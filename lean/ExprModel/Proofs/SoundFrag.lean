import ExprModel.Proofs.CheckerSpec
import ExprModel.Proofs.Select
import ExprModel.Spec.Eval
/-
Soundness of the checker against the reference evaluator `Spec.eval`, for the scalar fragment:
literals, identifiers, `not ! - +`, the logical, comparison, arithmetic and string operators, and the
conditional — over sub-expressions of scalar static type (bool, string, the twelve numeric kinds).

For such an expression `n`, if the reference rules give it the type `τ` then evaluating the tree *as the
checker annotates it* yields a value of type `τ`, or fails with a division by zero; never with a type error.
-/
namespace ExprModel
open Spec

-- `E`: the failures a statement about evaluation tolerates (`E .divzero` for the scalar fragment)
variable {E : ErrClass → Prop} {P : Ctx → Prop}

/-! ### scalar types and their values -/

def RKind.isScalar : RKind → Bool
  | .bool | .string | .num _ => true
  | _ => false

/-- `v` is a number of kind `k`, in the representation Go gives it -/
def NumOf (v : Val) (k : Kind) : Prop :=
  match k with
  | .float64 => ∃ x, v = .f64 x
  | .float32 => ∃ x, v = .f32 x
  | k => ∃ n, v = .int k n

/-- the value `v` has (scalar) kind `k` -/
def ValOfK (v : Val) (k : RKind) : Prop :=
  match k with
  | .bool => ∃ b, v = .bool b
  | .string => ∃ s, v = .str s
  | .num kk => NumOf v kk
  | _ => False

def ScalarT (t : OTy) : Prop := t.kind.isScalar = true

theorem scalar_some {t : OTy} (h : ScalarT t) : ∃ ty, t = some ty := by
  cases t with
  | none => simp [ScalarT, OTy.kind, RKind.isScalar] at h
  | some ty => exact ⟨ty, rfl⟩

theorem scalar_not_ptr {ty : Ty} (h : ScalarT (some ty)) : ty.isPtr = false := by
  unfold ScalarT OTy.kind Ty.kind at h
  unfold Ty.isPtr
  cases hc : ty.core <;> simp [hc, RKind.isScalar] at h ⊢

theorem scalar_deref_kind {t : OTy} (h : ScalarT t) : t.deref.kind = t.kind := by
  obtain ⟨ty, rfl⟩ := scalar_some h
  simp only [OTy.deref, OTy.kind, Ty.deref_of_not_isPtr (scalar_not_ptr h)]

theorem isBoolT_scalar {t : OTy} (h : ScalarT t) : isBoolT t = true ↔ t.kind = .bool := by
  unfold isBoolT
  rw [scalar_deref_kind h]
  unfold ScalarT at h
  cases hk : t.kind <;> simp [hk, RKind.isScalar] at h ⊢

theorem isStringT_scalar {t : OTy} (h : ScalarT t) : isStringT t = true ↔ t.kind = .string := by
  unfold isStringT
  rw [scalar_deref_kind h]
  unfold ScalarT at h
  cases hk : t.kind <;> simp [hk, RKind.isScalar] at h ⊢

theorem isNumberT_scalar {t : OTy} (h : ScalarT t) : isNumberT t = true ↔ ∃ k, t.kind = .num k := by
  unfold isNumberT isIntegerT isFloatT
  rw [scalar_deref_kind h]
  unfold ScalarT at h
  cases hk : t.kind <;> simp [hk, RKind.isScalar, RKind.isIntKind, RKind.isFloatKind, Kind.isInt] at h ⊢

theorem isIntegerT_scalar {t : OTy} (h : ScalarT t) : isIntegerT t = true ↔ ∃ k, t.kind = .num k ∧ k.isFloat = false := by
  unfold isIntegerT
  rw [scalar_deref_kind h]
  unfold ScalarT at h
  cases hk : t.kind <;> simp [hk, RKind.isScalar, RKind.isIntKind, Kind.isInt] at h ⊢

/-! ### annotations -/

theorem withMeta_getMeta (n : Node) (m : Meta) : (n.withMeta m).getMeta = m := by
  cases n <;> rfl

theorem setKd_kd (n : Node) (t : OTy) : (setKd n t).kd = t.kind := by
  unfold setKd Node.kd
  rw [withMeta_getMeta]

/-! ### the operators on typed values -/

theorem notV_bool (b : Bool) : notV (.bool b) = .ok (.bool !b) := rfl

theorem numOf_kind {v : Val} {k : Kind} (h : NumOf v k) : kindOfVal v = some k := by
  cases k <;> obtain ⟨x, rfl⟩ := h <;> rfl

theorem negV_num {v : Val} {k : Kind} (h : NumOf v k) : ∃ w, negV v = .ok w ∧ NumOf w k := by
  cases k <;> obtain ⟨x, rfl⟩ := h <;> exact ⟨_, rfl, _, rfl⟩

theorem armType_of_num {v : Val} {k : Kind} (h : NumOf v k) : armTypeOf v = some (some k) := by
  cases k <;> obtain ⟨x, rfl⟩ := h <;> rfl

theorem conv_num (K : Kind) {v : Val} {k : Kind} (h : NumOf v k) : NumOf (conv K v) K := by
  cases k <;> obtain ⟨x, rfl⟩ := h <;> cases K <;> exact ⟨_, rfl⟩

/-- two numbers brought to the same kind -/
theorem same_kind_operands {a b : Val} {ka kb : Kind} (ha : NumOf a ka) (hb : NumOf b kb) :
    NumOf (if ka = Kind.maxRank ka kb then a else conv (Kind.maxRank ka kb) a) (Kind.maxRank ka kb) ∧
    NumOf (if kb = Kind.maxRank ka kb then b else conv (Kind.maxRank ka kb) b) (Kind.maxRank ka kb) := by
  constructor
  · split
    · next e => rw [← e]; exact ha
    · exact conv_num _ ha
  · split
    · next e => rw [← e]; exact hb
    · exact conv_num _ hb

/-- Go's operator on two numbers of one kind: an arithmetic operator gives a number of that kind or a
division by zero; `%` needs an integer kind -/
theorem applyOp_arith {x y : Val} {K : Kind} (hx : NumOf x K) (hy : NumOf y K)
    (op : BinOp) (hop : op = .add ∨ op = .sub ∨ op = .mul ∨ op = .div ∨ (op = .mod ∧ K.isFloat = false)) :
    (∃ v, applyOp op x y = .ok v ∧ NumOf v K) ∨ applyOp op x y = .error .divZero := by
  cases K <;> obtain ⟨a, rfl⟩ := hx <;> obtain ⟨b, rfl⟩ := hy <;>
    rcases hop with h | h | h | h | ⟨h, hf⟩ <;> subst h <;> simp only [applyOp, ne_eq, not_true_eq_false, if_false] <;>
    first
      | (left; exact ⟨_, rfl, _, rfl⟩)
      | (by_cases hz : b = 0
         · right; simp [hz]
         · left; simp only [hz, if_false]; exact ⟨_, rfl, _, rfl⟩)
      | (simp [Kind.isFloat] at hf)

theorem applyOp_cmp {x y : Val} {K : Kind} (hx : NumOf x K) (hy : NumOf y K)
    (op : BinOp) (hop : op = .eq ∨ op = .lt ∨ op = .gt ∨ op = .le ∨ op = .ge) :
    ∃ b, applyOp op x y = .ok (.bool b) := by
  cases K <;> obtain ⟨a, rfl⟩ := hx <;> obtain ⟨b, rfl⟩ := hy <;>
    rcases hop with h | h | h | h | h <;> subst h <;>
    simp only [applyOp, ne_eq, not_true_eq_false, if_false] <;> exact ⟨_, rfl⟩

theorem binHelper_arith {a b : Val} {ka kb : Kind} (ha : NumOf a ka) (hb : NumOf b kb)
    (h : Helper) (hop : h = .add ∨ h = .subtract ∨ h = .multiply ∨ h = .divide ∨
      (h = .modulo ∧ ka.isFloat = false ∧ kb.isFloat = false)) :
    (∃ v, binHelper h a b = .ok v ∧ NumOf v (Kind.maxRank ka kb)) ∨ binHelper h a b = .error .divzero := by
  unfold binHelper refSem
  rw [armType_of_num ha, armType_of_num hb]
  simp only []
  have hnf : (h.noFloat && (ka.isFloat || kb.isFloat)) = false := by
    rcases hop with e | e | e | e | ⟨e, f1, f2⟩ <;> subst e <;> simp [Helper.noFloat, *]
  rw [hnf]
  simp only [Bool.false_eq_true, if_false]
  obtain ⟨h1, h2⟩ := same_kind_operands ha hb
  have hK : h = .modulo → (Kind.maxRank ka kb).isFloat = false := by
    intro e
    rcases hop with e' | e' | e' | e' | ⟨_, f1, f2⟩ <;> try (rw [e] at e'; cases e')
    unfold Kind.maxRank; split <;> assumption
  have := applyOp_arith h1 h2 h.op (by
    rcases hop with e | e | e | e | ⟨e, _, _⟩
    · subst e; exact Or.inl rfl
    · subst e; exact Or.inr (Or.inl rfl)
    · subst e; exact Or.inr (Or.inr (Or.inl rfl))
    · subst e; exact Or.inr (Or.inr (Or.inr (Or.inl rfl)))
    · exact Or.inr (Or.inr (Or.inr (Or.inr ⟨by subst e; rfl, hK e⟩))))
  rcases this with ⟨v, hv, hk⟩ | he
  · left; exact ⟨v, by rw [hv], hk⟩
  · right; rw [he]

theorem binHelper_cmp_num {a b : Val} {ka kb : Kind} (ha : NumOf a ka) (hb : NumOf b kb)
    (h : Helper) (hop : h = .less ∨ h = .more ∨ h = .lessOrEqual ∨ h = .moreOrEqual) :
    ∃ r, binHelper h a b = .ok (.bool r) := by
  unfold binHelper refSem
  rw [armType_of_num ha, armType_of_num hb]
  simp only []
  have hnf : (h.noFloat && (ka.isFloat || kb.isFloat)) = false := by
    rcases hop with e | e | e | e <;> subst e <;> simp [Helper.noFloat]
  rw [hnf]
  simp only [Bool.false_eq_true, if_false]
  obtain ⟨h1, h2⟩ := same_kind_operands ha hb
  obtain ⟨r, hr⟩ := applyOp_cmp h1 h2 h.op (by
    rcases hop with e | e | e | e <;> subst e <;> simp [Helper.op])
  exact ⟨r, by rw [hr]⟩

theorem binHelper_str (x y : String) (h : Helper)
    (hop : h = .less ∨ h = .more ∨ h = .lessOrEqual ∨ h = .moreOrEqual) :
    ∃ r, binHelper h (.str x) (.str y) = .ok (.bool r) := by
  rcases hop with e | e | e | e <;> subst e <;> exact ⟨_, rfl⟩

theorem binHelper_concat (x y : String) : binHelper .add (.str x) (.str y) = .ok (.str (x ++ y)) := rfl

/-! ### the fragment -/

def fragUnary (op : String) : Bool := op == "!" || op == "not" || op == "-" || op == "+"

def fragBinary (op : String) : Bool :=
  op == "and" || op == "&&" || op == "or" || op == "||" || op == "==" || op == "!=" ||
  op == "<" || op == ">" || op == "<=" || op == ">=" || op == "+" || op == "-" || op == "*" || op == "/" ||
  op == "%" || op == "contains" || op == "startsWith" || op == "endsWith"

/-- literals, identifiers, unary and binary operators (no `in`, `..`, `**`, `matches`), conditionals -/
def inFrag : Node → Bool
  | .bool _ _ | .str _ _ | .int _ _ | .float _ _ | .ident _ _ _ => true
  | .unary _ op x => fragUnary op && inFrag x
  | .binary _ op l r => fragBinary op && inFrag l && inFrag r
  | .cond _ c a b => inFrag c && inFrag a && inFrag b
  | _ => false

def scalarOK (t : Option OTy) : Bool :=
  match t with
  | some τ => τ.kind.isScalar
  | none => false

/-- every sub-expression has a scalar static type -/
def scalarTyped (cfg : CheckCfg) (cs : List OTy) : Node → Bool
  | .unary m op x => scalarOK (synth cfg cs (.unary m op x)) && scalarTyped cfg cs x
  | .binary m op l r => scalarOK (synth cfg cs (.binary m op l r)) && scalarTyped cfg cs l && scalarTyped cfg cs r
  | .cond m c a b => scalarOK (synth cfg cs (.cond m c a b)) && scalarTyped cfg cs c && scalarTyped cfg cs a && scalarTyped cfg cs b
  | n => scalarOK (synth cfg cs n)

/-- the environment value holds, under every name the checker types as a scalar, a value of that type -/
def EnvConforms (cfg : CheckCfg) (env : Val) : Prop :=
  ∀ name ns τ, identRule cfg name ns = .ok τ → ScalarT τ →
    ∃ v, fetchV env (.str name) ns = .ok v ∧ ValOfK v τ.kind

/-- evaluating `n'` yields a value of kind `k`, or fails with one of the tolerated failures `E` -/
def EvalOK (E : ErrClass → Prop) (P : Ctx → Prop) (c : SCfg) (n' : Node) (k : RKind) : Prop :=
  ∀ ctx, P ctx → ∀ s, match (eval c ctx n' s).1 with
    | .ok v => ValOfK v k
    | .error e => E e

def FragSpec (E : ErrClass → Prop) (P : Ctx → Prop) (cfg : CheckCfg) (cs : List OTy) (c : SCfg) (n : Node) : Prop :=
  ∀ τ, synth cfg cs n = some τ → ScalarT τ → ∀ st, st.colls = cs →
    (visit cfg n st).2.1 = τ ∧ (visit cfg n st).1.kd = τ.kind ∧ EvalOK E P c (visit cfg n st).1 τ.kind

theorem visit_colls (cfg : CheckCfg) (n : Node) (st : CState) : (visit cfg n st).2.2.colls = st.colls :=
  (visit_spec cfg n st).1

theorem toOption'_some {r : Rule} {τ : OTy} (h : Except.toOption' r = some τ) : r = .ok τ := by
  cases r with
  | ok t => simp [Except.toOption'] at h; rw [h]
  | error c => simp [Except.toOption'] at h

theorem orFail_ok (τ : OTy) (loc : Loc) (st : CState) : orFail (.ok τ) loc st = (τ, st) := rfl

theorem frag_unary (cfg : CheckCfg) (cs : List OTy) (c : SCfg) (m : Meta) (op : String) (x : Node)
    (hop : fragUnary op = true) (hτs : scalarOK (synth cfg cs (.unary m op x)) = true)
    (hxs : scalarOK (synth cfg cs x) = true) (ih : FragSpec E P cfg cs c x) :
    FragSpec E P cfg cs c (.unary m op x) := by
  intro τ hs _ st hst
  rw [hs] at hτs
  simp only [synth] at hs
  cases hsx : synth cfg cs x with
  | none => rw [hsx] at hs; cases hs
  | some t =>
    rw [hsx] at hs
    simp only [] at hs
    have hrule := toOption'_some hs
    -- the type of the operand is scalar
    have hts0 : ScalarT t := by
      have : scalarOK (synth cfg cs x) = true := hxs
      rw [hsx] at this; exact this
    obtain ⟨e1, e2, ev⟩ := ih t hsx hts0 st hst
    rcases hx : visit cfg x st with ⟨x', t', st1⟩
    rw [hx] at e1 e2 ev
    simp only [] at e1 e2 ev
    subst e1
    simp only [visit, hx, hrule, orFail_ok]
    refine ⟨trivial, setKd_kd _ _, ?_⟩
    have hts : ScalarT t' := hts0
    intro ctx hctx s
    have evx := ev ctx hctx s
    show match (eval c ctx (.unary { m with kd := τ.kind } op x') s).1 with
      | .ok v => ValOfK v τ.kind
      | .error e => E e
    simp only [eval, bind, SM.bind']
    rcases hev : eval c ctx x' s with ⟨r, s'⟩
    rw [hev] at evx
    cases r with
    | error e => simp only [] at evx ⊢; exact evx
    | ok v =>
      simp only [] at evx ⊢
      unfold unaryRule at hrule
      by_cases h1 : (op == "!" || op == "not") = true
      · simp only [h1, if_true] at hrule ⊢
        by_cases hb : isBoolT t' = true
        · simp only [hb, if_true] at hrule
          cases hrule
          have hk := (isBoolT_scalar hts).1 hb
          rw [hk] at evx
          obtain ⟨b, rfl⟩ := evx
          exact ⟨!b, rfl⟩
        · simp only [hb] at hrule; cases hrule
      · simp only [h1] at hrule ⊢
        by_cases h2 : (op == "+" || op == "-") = true
        · simp only [h2, if_true] at hrule
          by_cases hn : isNumberT t' = true
          · simp only [hn, if_true] at hrule
            cases hrule
            obtain ⟨k, hk⟩ := (isNumberT_scalar hts).1 hn
            rw [hk] at evx ⊢
            by_cases h3 : (op == "-") = true
            · simp only [h3, if_true]
              obtain ⟨w, hw, hwk⟩ := negV_num evx
              simp only [SM.lift, hw, SM.pure']
              exact hwk
            · have h4 : (op == "+") = true := by
                simp only [Bool.or_eq_true] at h2
                rcases h2 with h | h
                · exact h
                · exact absurd h h3
              simp only [h3, h4, if_true, if_false]
              exact evx
          · simp only [hn] at hrule; cases hrule
        · simp only [h2] at hrule; cases hrule

/-! ### evaluation of the binary operators on typed operands -/

/-- both operands are evaluated, then `tail a b` decides: the common shape of the strict operators -/
theorem strict_binary (c : SCfg) (l r : Node) (kl kr k : RKind) (hl : EvalOK E P c l kl) (hr : EvalOK E P c r kr)
    (tail : Val → Val → SM Val)
    (htail : ∀ a b s, ValOfK a kl → ValOfK b kr →
      match (tail a b s).1 with | .ok v => ValOfK v k | .error e => E e)
    (ctx : Ctx) (hctx : P ctx) (s : SState) :
    match (((eval c ctx l).bind' fun a => (eval c ctx r).bind' fun b => tail a b) s).1 with
    | .ok v => ValOfK v k
    | .error e => E e := by
  have h1 := hl ctx hctx s
  unfold SM.bind'
  rcases hel : eval c ctx l s with ⟨ra, s1⟩
  rw [hel] at h1
  cases ra with
  | error e => exact h1
  | ok a =>
    simp only [] at h1 ⊢
    have h2 := hr ctx hctx s1
    rcases her : eval c ctx r s1 with ⟨rb, s2⟩
    rw [her] at h2
    cases rb with
    | error e => exact h2
    | ok b => exact htail a b s2 h1 h2

theorem evalOK_cmp_num (c : SCfg) (m : Meta) (op : String) (l r : Node) (ka kb : Kind)
    (hop : op = "<" ∨ op = ">" ∨ op = "<=" ∨ op = ">=")
    (hl : EvalOK E P c l (.num ka)) (hr : EvalOK E P c r (.num kb)) : EvalOK E P c (.binary m op l r) .bool := by
  intro ctx hctx s
  rcases hop with rfl | rfl | rfl | rfl <;>
    simp (config := {decide := true}) only [eval, bind, if_false, binArith] <;>
    refine strict_binary c l r _ _ _ hl hr _ ?_ ctx hctx s <;> intro a b s' ha hb
  · obtain ⟨rr, hrr⟩ := binHelper_cmp_num ha hb .less (Or.inl rfl)
    simp only [SM.lift, hrr, SM.pure']; exact ⟨rr, rfl⟩
  · obtain ⟨rr, hrr⟩ := binHelper_cmp_num ha hb .more (Or.inr (Or.inl rfl))
    simp only [SM.lift, hrr, SM.pure']; exact ⟨rr, rfl⟩
  · obtain ⟨rr, hrr⟩ := binHelper_cmp_num ha hb .lessOrEqual (Or.inr (Or.inr (Or.inl rfl)))
    simp only [SM.lift, hrr, SM.pure']; exact ⟨rr, rfl⟩
  · obtain ⟨rr, hrr⟩ := binHelper_cmp_num ha hb .moreOrEqual (Or.inr (Or.inr (Or.inr rfl)))
    simp only [SM.lift, hrr, SM.pure']; exact ⟨rr, rfl⟩

theorem evalOK_cmp_str (c : SCfg) (m : Meta) (op : String) (l r : Node)
    (hop : op = "<" ∨ op = ">" ∨ op = "<=" ∨ op = ">=")
    (hl : EvalOK E P c l .string) (hr : EvalOK E P c r .string) : EvalOK E P c (.binary m op l r) .bool := by
  intro ctx hctx s
  rcases hop with rfl | rfl | rfl | rfl <;>
    simp (config := {decide := true}) only [eval, bind, if_false, binArith] <;>
    refine strict_binary c l r _ _ _ hl hr _ ?_ ctx hctx s <;> intro a b s' ha hb <;>
    obtain ⟨x, rfl⟩ := ha <;> obtain ⟨y, rfl⟩ := hb
  · obtain ⟨rr, hrr⟩ := binHelper_str x y .less (Or.inl rfl)
    simp only [SM.lift, hrr, SM.pure']; exact ⟨rr, rfl⟩
  · obtain ⟨rr, hrr⟩ := binHelper_str x y .more (Or.inr (Or.inl rfl))
    simp only [SM.lift, hrr, SM.pure']; exact ⟨rr, rfl⟩
  · obtain ⟨rr, hrr⟩ := binHelper_str x y .lessOrEqual (Or.inr (Or.inr (Or.inl rfl)))
    simp only [SM.lift, hrr, SM.pure']; exact ⟨rr, rfl⟩
  · obtain ⟨rr, hrr⟩ := binHelper_str x y .moreOrEqual (Or.inr (Or.inr (Or.inr rfl)))
    simp only [SM.lift, hrr, SM.pure']; exact ⟨rr, rfl⟩

theorem evalOK_arith (hE : E .divzero) (c : SCfg) (m : Meta) (op : String) (l r : Node) (ka kb : Kind)
    (hop : op = "+" ∨ op = "-" ∨ op = "*" ∨ op = "/" ∨ (op = "%" ∧ ka.isFloat = false ∧ kb.isFloat = false))
    (hl : EvalOK E P c l (.num ka)) (hr : EvalOK E P c r (.num kb)) :
    EvalOK E P c (.binary m op l r) (.num (Kind.maxRank ka kb)) := by
  intro ctx hctx s
  have fin : ∀ (h : Helper), (h = .add ∨ h = .subtract ∨ h = .multiply ∨ h = .divide ∨
        (h = .modulo ∧ ka.isFloat = false ∧ kb.isFloat = false)) →
      ∀ a b s', ValOfK a (.num ka) → ValOfK b (.num kb) →
      match ((SM.lift (binHelper h a b) : SM Val) s').1 with
      | .ok v => ValOfK v (.num (Kind.maxRank ka kb)) | .error e => E e := by
    intro h hh a b s' ha hb
    rcases binHelper_arith ha hb h hh with ⟨v, hv, hk⟩ | he
    · simp only [SM.lift, hv, SM.pure']; exact hk
    · simp only [SM.lift, he, SM.fail]; exact hE
  rcases hop with rfl | rfl | rfl | rfl | ⟨rfl, f1, f2⟩ <;>
    simp (config := {decide := true}) only [eval, bind, if_false, binArith] <;>
    refine strict_binary c l r _ _ _ hl hr _ ?_ ctx hctx s
  · exact fin .add (Or.inl rfl)
  · exact fin .subtract (Or.inr (Or.inl rfl))
  · exact fin .multiply (Or.inr (Or.inr (Or.inl rfl)))
  · exact fin .divide (Or.inr (Or.inr (Or.inr (Or.inl rfl))))
  · exact fin .modulo (Or.inr (Or.inr (Or.inr (Or.inr ⟨rfl, f1, f2⟩))))

theorem evalOK_concat (c : SCfg) (m : Meta) (l r : Node)
    (hl : EvalOK E P c l .string) (hr : EvalOK E P c r .string) : EvalOK E P c (.binary m "+" l r) .string := by
  intro ctx hctx s
  simp (config := {decide := true}) only [eval, bind, if_false, binArith]
  refine strict_binary c l r _ _ _ hl hr _ ?_ ctx hctx s
  intro a b s' ha hb
  obtain ⟨x, rfl⟩ := ha
  obtain ⟨y, rfl⟩ := hb
  simp only [SM.lift, binHelper_concat, SM.pure']
  exact ⟨_, rfl⟩

theorem evalOK_strop (c : SCfg) (m : Meta) (op : String) (l r : Node)
    (hop : op = "contains" ∨ op = "startsWith" ∨ op = "endsWith")
    (hl : EvalOK E P c l .string) (hr : EvalOK E P c r .string) : EvalOK E P c (.binary m op l r) .bool := by
  intro ctx hctx s
  rcases hop with rfl | rfl | rfl <;>
    simp (config := {decide := true}) only [eval, bind, if_false, if_true] <;>
    refine strict_binary c l r _ _ _ hl hr _ ?_ ctx hctx s <;> intro a b s' ha hb <;>
    obtain ⟨x, rfl⟩ := ha <;> obtain ⟨y, rfl⟩ := hb <;>
    simp only [SM.lift, strOp, SM.pure'] <;> exact ⟨_, rfl⟩

/-- `==` / `!=` never fail on scalar operands, including the `int`/`string` specialisations the
compiler selects from the operands' annotations -/
theorem evalOK_eq (c : SCfg) (m : Meta) (op : String) (l r : Node) (kl kr : RKind)
    (hop : op = "==" ∨ op = "!=") (hsl : kl.isScalar = true) (hsr : kr.isScalar = true)
    (hkl : l.kd = kl) (hkr : r.kd = kr)
    (hl : EvalOK E P c l kl) (hr : EvalOK E P c r kr) : EvalOK E P c (.binary m op l r) .bool := by
  intro ctx hctx s
  rcases hop with rfl | rfl <;>
    simp (config := {decide := true}) only [eval, bind, if_false, if_true] <;>
    refine strict_binary c l r _ _ _ hl hr _ ?_ ctx hctx s <;> intro a b s' ha hb
  · rw [hkl, hkr]
    by_cases h1 : (kl == kr && kl == RKind.num Kind.int) = true
    · simp only [h1, if_true]
      simp only [Bool.and_eq_true, beq_iff_eq] at h1
      obtain ⟨e1, e2⟩ := h1
      subst e1; subst e2
      obtain ⟨x, rfl⟩ := ha
      obtain ⟨y, rfl⟩ := hb
      exact ⟨_, rfl⟩
    · simp only [h1]
      by_cases h2 : (kl == kr && kl == RKind.string) = true
      · simp only [h2, if_true]
        simp only [Bool.and_eq_true, beq_iff_eq] at h2
        obtain ⟨e1, e2⟩ := h2
        subst e1; subst e2
        obtain ⟨x, rfl⟩ := ha
        obtain ⟨y, rfl⟩ := hb
        exact ⟨_, rfl⟩
      · simp only [h2]
        exact ⟨_, rfl⟩
  · exact ⟨_, rfl⟩

theorem evalOK_logic (c : SCfg) (m : Meta) (op : String) (l r : Node)
    (hop : op = "and" ∨ op = "&&" ∨ op = "or" ∨ op = "||")
    (hl : EvalOK E P c l .bool) (hr : EvalOK E P c r .bool) : EvalOK E P c (.binary m op l r) .bool := by
  intro ctx hctx s
  have h1 := hl ctx hctx s
  rcases hop with rfl | rfl | rfl | rfl <;>
    simp (config := {decide := true}) only [eval, bind, if_false, if_true] <;>
    unfold SM.bind' <;>
    rcases hel : eval c ctx l s with ⟨ra, s1⟩ <;> rw [hel] at h1 <;>
    cases ra with
    | error e => exact h1
    | ok a =>
      obtain ⟨b, rfl⟩ := h1
      cases b <;> simp only [asBool, SM.pure', pure] <;> first | exact hr ctx hctx s1 | exact ⟨_, rfl⟩

/-! ### the rules deliver the kinds the operators need -/

theorem combinedT_kind {lt rt : OTy} {ka kb : Kind} (hl : lt.kind = .num ka) (hr : rt.kind = .num kb) :
    (combinedT lt rt).kind = .num (Kind.maxRank ka kb) := by
  unfold combinedT typeWeight Kind.maxRank
  rw [hl, hr]
  simp only []
  by_cases h : ka.rank > kb.rank
  · have : ka.rank + 1 > kb.rank + 1 := by omega
    simp only [this, h, if_true]; exact hl
  · have : ¬ (ka.rank + 1 > kb.rank + 1) := by omega
    simp only [this, h, if_false]; exact hr

theorem isInterfaceT_scalar {t : OTy} (h : ScalarT t) : isInterfaceT t = false := by
  unfold isInterfaceT
  rw [scalar_deref_kind h]
  unfold ScalarT at h
  cases hk : t.kind <;> simp [hk, RKind.isScalar] at h ⊢

theorem combinedR_scalar (dt : TDefects) {lt rt : OTy} (hl : ScalarT lt) (hr : ScalarT rt) :
    combinedR dt lt rt = combinedT lt rt := by
  unfold combinedR
  simp [isInterfaceT_scalar hl, isInterfaceT_scalar hr]

theorem fragBinary_cases {op : String} (h : fragBinary op = true) :
    op = "and" ∨ op = "&&" ∨ op = "or" ∨ op = "||" ∨ op = "==" ∨ op = "!=" ∨ op = "<" ∨ op = ">" ∨
    op = "<=" ∨ op = ">=" ∨ op = "+" ∨ op = "-" ∨ op = "*" ∨ op = "/" ∨ op = "%" ∨ op = "contains" ∨
    op = "startsWith" ∨ op = "endsWith" := by
  simpa [fragBinary, or_assoc] using h

theorem binary_rule_sound (hE : E .divzero) (c : SCfg) (dt : TDefects) (m : Meta) (op : String) (l r : Node) (lt rt τ : OTy)
    (hop : fragBinary op = true) (hls : ScalarT lt) (hrs : ScalarT rt)
    (hrule : binaryRule dt op lt rt = .ok τ)
    (hkl : l.kd = lt.kind) (hkr : r.kd = rt.kind)
    (hl : EvalOK E P c l lt.kind) (hr : EvalOK E P c r rt.kind) : EvalOK E P c (.binary m op l r) τ.kind := by
  have logic : ∀ o, (o = "and" ∨ o = "&&" ∨ o = "or" ∨ o = "||") → isBoolT lt = true → isBoolT rt = true →
      EvalOK E P c (.binary m o l r) .bool := by
    intro o ho h1 h2
    have k1 := (isBoolT_scalar hls).1 h1
    have k2 := (isBoolT_scalar hrs).1 h2
    rw [k1] at hl; rw [k2] at hr
    exact evalOK_logic c m o l r ho hl hr
  have cmp : ∀ o, (o = "<" ∨ o = ">" ∨ o = "<=" ∨ o = ">=") →
      ((isNumberT lt = true ∧ isNumberT rt = true) ∨ (isStringT lt = true ∧ isStringT rt = true)) →
      EvalOK E P c (.binary m o l r) .bool := by
    intro o ho h
    rcases h with ⟨h1, h2⟩ | ⟨h1, h2⟩
    · obtain ⟨ka, k1⟩ := (isNumberT_scalar hls).1 h1
      obtain ⟨kb, k2⟩ := (isNumberT_scalar hrs).1 h2
      rw [k1] at hl; rw [k2] at hr
      exact evalOK_cmp_num c m o l r ka kb ho hl hr
    · have k1 := (isStringT_scalar hls).1 h1
      have k2 := (isStringT_scalar hrs).1 h2
      rw [k1] at hl; rw [k2] at hr
      exact evalOK_cmp_str c m o l r ho hl hr
  have arith : ∀ o, (o = "+" ∨ o = "-" ∨ o = "*" ∨ o = "/") → isNumberT lt = true → isNumberT rt = true →
      EvalOK E P c (.binary m o l r) (combinedR dt lt rt).kind := by
    intro o ho h1 h2
    rw [combinedR_scalar dt hls hrs]
    obtain ⟨ka, k1⟩ := (isNumberT_scalar hls).1 h1
    obtain ⟨kb, k2⟩ := (isNumberT_scalar hrs).1 h2
    rw [combinedT_kind k1 k2]
    rw [k1] at hl; rw [k2] at hr
    refine evalOK_arith hE c m o l r ka kb ?_ hl hr
    rcases ho with e | e | e | e
    · exact Or.inl e
    · exact Or.inr (Or.inl e)
    · exact Or.inr (Or.inr (Or.inl e))
    · exact Or.inr (Or.inr (Or.inr (Or.inl e)))
  have strop : ∀ o, (o = "contains" ∨ o = "startsWith" ∨ o = "endsWith") → isStringT lt = true →
      isStringT rt = true → EvalOK E P c (.binary m o l r) .bool := by
    intro o ho h1 h2
    have k1 := (isStringT_scalar hls).1 h1
    have k2 := (isStringT_scalar hrs).1 h2
    rw [k1] at hl; rw [k2] at hr
    exact evalOK_strop c m o l r ho hl hr
  have eqop : ∀ o, (o = "==" ∨ o = "!=") → EvalOK E P c (.binary m o l r) .bool :=
    fun o ho => evalOK_eq c m o l r _ _ ho hls hrs hkl hkr hl hr
  rcases fragBinary_cases hop with rfl | rfl | rfl | rfl | rfl | rfl | rfl | rfl | rfl | rfl | rfl | rfl | rfl |
      rfl | rfl | rfl | rfl | rfl
  -- and && or ||
  · simp [binaryRule] at hrule
    by_cases hb : isBoolT lt = true ∧ isBoolT rt = true
    · rw [if_pos hb] at hrule; cases hrule
      exact logic _ (Or.inl rfl) hb.1 hb.2
    · rw [if_neg hb] at hrule; cases hrule
  · simp [binaryRule] at hrule
    by_cases hb : isBoolT lt = true ∧ isBoolT rt = true
    · rw [if_pos hb] at hrule; cases hrule
      exact logic _ (Or.inr (Or.inl rfl)) hb.1 hb.2
    · rw [if_neg hb] at hrule; cases hrule
  · simp [binaryRule] at hrule
    by_cases hb : isBoolT lt = true ∧ isBoolT rt = true
    · rw [if_pos hb] at hrule; cases hrule
      exact logic _ (Or.inr (Or.inr (Or.inl rfl))) hb.1 hb.2
    · rw [if_neg hb] at hrule; cases hrule
  · simp [binaryRule] at hrule
    by_cases hb : isBoolT lt = true ∧ isBoolT rt = true
    · rw [if_pos hb] at hrule; cases hrule
      exact logic _ (Or.inr (Or.inr (Or.inr rfl))) hb.1 hb.2
    · rw [if_neg hb] at hrule; cases hrule
  -- == !=
  · simp [binaryRule] at hrule
    split at hrule
    · cases hrule; exact eqop _ (Or.inl rfl)
    · cases hrule
  · simp [binaryRule] at hrule
    split at hrule
    · cases hrule; exact eqop _ (Or.inr rfl)
    · cases hrule
  -- < > <= >=
  · simp [binaryRule] at hrule
    split at hrule
    · rename_i hc; cases hrule; exact cmp _ (Or.inl rfl) hc
    · cases hrule
  · simp [binaryRule] at hrule
    split at hrule
    · rename_i hc; cases hrule; exact cmp _ (Or.inr (Or.inl rfl)) hc
    · cases hrule
  · simp [binaryRule] at hrule
    split at hrule
    · rename_i hc; cases hrule; exact cmp _ (Or.inr (Or.inr (Or.inl rfl))) hc
    · cases hrule
  · simp [binaryRule] at hrule
    split at hrule
    · rename_i hc; cases hrule; exact cmp _ (Or.inr (Or.inr (Or.inr rfl))) hc
    · cases hrule
  -- +
  · simp [binaryRule] at hrule
    split at hrule
    · rename_i hc; cases hrule; exact arith _ (Or.inl rfl) hc.1 hc.2
    · split at hrule
      · rename_i hc
        cases hrule
        have k1 := (isStringT_scalar hls).1 hc.1
        have k2 := (isStringT_scalar hrs).1 hc.2
        rw [k1] at hl; rw [k2] at hr
        exact evalOK_concat c m l r hl hr
      · cases hrule
  -- - * /
  · simp [binaryRule] at hrule
    split at hrule
    · rename_i hc; cases hrule; exact arith _ (Or.inr (Or.inl rfl)) hc.1 hc.2
    · cases hrule
  · simp [binaryRule] at hrule
    split at hrule
    · rename_i hc; cases hrule; exact arith _ (Or.inr (Or.inr (Or.inl rfl))) hc.1 hc.2
    · cases hrule
  · simp [binaryRule] at hrule
    split at hrule
    · rename_i hc; cases hrule; exact arith _ (Or.inr (Or.inr (Or.inr rfl))) hc.1 hc.2
    · cases hrule
  -- %
  · simp [binaryRule] at hrule
    split at hrule
    · rename_i hc
      cases hrule
      obtain ⟨ka, k1, f1⟩ := (isIntegerT_scalar hls).1 hc.1
      obtain ⟨kb, k2, f2⟩ := (isIntegerT_scalar hrs).1 hc.2
      rw [combinedR_scalar dt hls hrs, combinedT_kind k1 k2]
      rw [k1] at hl; rw [k2] at hr
      exact evalOK_arith hE c m "%" l r ka kb (Or.inr (Or.inr (Or.inr (Or.inr ⟨rfl, f1, f2⟩)))) hl hr
    · cases hrule
  -- contains startsWith endsWith
  · simp [binaryRule] at hrule
    split at hrule
    · rename_i hc; cases hrule; exact strop _ (Or.inl rfl) hc.1 hc.2
    · cases hrule
  · simp [binaryRule] at hrule
    split at hrule
    · rename_i hc; cases hrule; exact strop _ (Or.inr (Or.inl rfl)) hc.1 hc.2
    · cases hrule
  · simp [binaryRule] at hrule
    split at hrule
    · rename_i hc; cases hrule; exact strop _ (Or.inr (Or.inr rfl)) hc.1 hc.2
    · cases hrule

/-! ### the induction over the fragment -/

theorem scalarTyped_self (cfg : CheckCfg) (cs : List OTy) (n : Node) (h : scalarTyped cfg cs n = true) :
    scalarOK (synth cfg cs n) = true := by
  cases n <;> simp only [scalarTyped, Bool.and_eq_true] at h <;>
    first | exact h | exact h.1 | exact h.1.1 | exact h.1.1.1

theorem frag_binary (hE : E .divzero) (cfg : CheckCfg) (cs : List OTy) (c : SCfg) (m : Meta) (op : String) (l r : Node)
    (hop : fragBinary op = true) (hlsc : scalarOK (synth cfg cs l) = true) (hrsc : scalarOK (synth cfg cs r) = true)
    (ihl : FragSpec E P cfg cs c l) (ihr : FragSpec E P cfg cs c r) : FragSpec E P cfg cs c (.binary m op l r) := by
  intro τ hs _ st hst
  simp only [synth] at hs
  cases hsl : synth cfg cs l with
  | none => rw [hsl] at hs; cases hs
  | some lt =>
    cases hsr : synth cfg cs r with
    | none => rw [hsl, hsr] at hs; cases hs
    | some rt =>
      rw [hsl, hsr] at hs
      simp only [] at hs
      have hrule := toOption'_some hs
      have hls0 : ScalarT lt := by
        have := hlsc; rw [hsl] at this; exact this
      have hrs0 : ScalarT rt := by
        have := hrsc; rw [hsr] at this; exact this
      obtain ⟨e1, k1, ev1⟩ := ihl lt hsl hls0 st hst
      have hst1 := visit_colls cfg l st
      rcases hl : visit cfg l st with ⟨l', lt', st1⟩
      rw [hl] at e1 k1 ev1 hst1
      simp only [] at e1 k1 ev1 hst1
      subst e1
      obtain ⟨e2, k2, ev2⟩ := ihr rt hsr hrs0 st1 (hst1.trans hst)
      rcases hr : visit cfg r st1 with ⟨r', rt', st2⟩
      rw [hr] at e2 k2 ev2
      simp only [] at e2 k2 ev2
      subst e2
      simp only [visit, hl, hr, hrule, orFail_ok]
      refine ⟨trivial, setKd_kd _ _, ?_⟩
      have hls : ScalarT lt' := hls0
      have hrs : ScalarT rt' := hrs0
      exact binary_rule_sound hE c cfg.dt { m with kd := τ.kind } op l' r' lt' rt' τ hop hls hrs hrule k1 k2 ev1 ev2

theorem assignable_scalar_kind {x y : Ty} (hx : ScalarT (some x)) (hy : ScalarT (some y))
    (h : assignableTo x y = true) : x.kind = y.kind := by
  unfold assignableTo at h
  simp only [Bool.or_eq_true, Bool.and_eq_true] at h
  have named : ∀ t : Ty, ScalarT (some t) → t.isNamedType = true := by
    intro t ht
    unfold ScalarT OTy.kind Ty.kind at ht
    cases t <;> simp [Ty.isNamedType, Ty.core, RKind.isScalar] at ht ⊢
  rcases h with (h | h) | h
  · have : x = y := by simpa using h
    rw [this]
  · have n1 := named x hx
    have n2 := named y hy
    simp [n1, n2] at h
  · have : y.kind = .iface := by simpa using h.1
    have hy' : y.kind.isScalar = true := hy
    rw [this] at hy'
    simp [RKind.isScalar] at hy'

theorem frag_cond (cfg : CheckCfg) (cs : List OTy) (c : SCfg) (m : Meta) (cn a b : Node)
    (hτs : scalarOK (synth cfg cs (.cond m cn a b)) = true) (hcsc : scalarOK (synth cfg cs cn) = true)
    (hasc : scalarOK (synth cfg cs a) = true) (hbsc : scalarOK (synth cfg cs b) = true)
    (ihc : FragSpec E P cfg cs c cn) (iha : FragSpec E P cfg cs c a) (ihb : FragSpec E P cfg cs c b) :
    FragSpec E P cfg cs c (.cond m cn a b) := by
  intro τ hs _ st hst
  rw [hs] at hτs
  simp only [synth] at hs
  cases hsc' : synth cfg cs cn with
  | none => rw [hsc'] at hs; cases hs
  | some ct =>
    rw [hsc'] at hs
    simp only [] at hs
    by_cases hb : isBoolT ct = true
    · simp only [hb, Bool.not_true, Bool.false_eq_true, if_false] at hs
      cases hsa : synth cfg cs a with
      | none => rw [hsa] at hs; cases hs
      | some t1 =>
        cases hsb : synth cfg cs b with
        | none => rw [hsa, hsb] at hs; cases hs
        | some t2 =>
          rw [hsa, hsb] at hs
          simp only [Option.some.injEq] at hs
          have hcs0 : ScalarT ct := by
            have := hcsc; rw [hsc'] at this; exact this
          have h1s0 : ScalarT t1 := by
            have := hasc; rw [hsa] at this; exact this
          have h2s0 : ScalarT t2 := by
            have := hbsc; rw [hsb] at this; exact this
          obtain ⟨e0, _, ev0⟩ := ihc ct hsc' hcs0 st hst
          have hst1 := visit_colls cfg cn st
          rcases hcv : visit cfg cn st with ⟨cn', ct', st1⟩
          rw [hcv] at e0 ev0 hst1
          simp only [] at e0 ev0 hst1
          subst e0
          obtain ⟨e1, _, ev1⟩ := iha t1 hsa h1s0 st1 (hst1.trans hst)
          have hst2 := visit_colls cfg a st1
          rcases hav : visit cfg a st1 with ⟨a', t1', st2⟩
          rw [hav] at e1 ev1 hst2
          simp only [] at e1 ev1 hst2
          subst e1
          obtain ⟨e2, _, ev2⟩ := ihb t2 hsb h2s0 st2 (hst2.trans (hst1.trans hst))
          rcases hbv : visit cfg b st2 with ⟨b', t2', st3⟩
          rw [hbv] at e2 ev2
          simp only [] at e2 ev2
          subst e2
          simp only [visit, hcv, hb, Bool.not_true, Bool.false_eq_true, if_false, hav, hbv]
          rw [hs]
          refine ⟨rfl, setKd_kd _ _, ?_⟩
          -- the kinds of the two branches agree with the kind of the result
          have hcs : ScalarT ct' := hcs0
          have h1s : ScalarT t1' := h1s0
          have h2s : ScalarT t2' := h2s0
          obtain ⟨x, rfl⟩ := scalar_some h1s
          obtain ⟨y, rfl⟩ := scalar_some h2s
          have hkinds : τ.kind = OTy.kind (some x) ∧ τ.kind = OTy.kind (some y) := by
            rw [← hs]
            simp only [condType]
            by_cases has : assignableTo x y = true
            · have hxy := assignable_scalar_kind h1s h2s has
              by_cases hf : cfg.dt.condFirstBranchType = true
              · simp only [has, hf, if_true]
                exact ⟨trivial, hxy⟩
              · have hf' : cfg.dt.condFirstBranchType = false := by simpa using hf
                simp only [has, hf', if_true, Bool.false_eq_true, if_false]
                exact ⟨hxy.symm, trivial⟩
            · -- the result type would be interface{}: not scalar
              exfalso
              have hτ : τ = ifaceTy := by
                rw [← hs]; simp only [condType, has]; rfl
              rw [hτ] at hτs
              simp [scalarOK, ifaceTy, interfaceType, OTy.kind, Ty.kind, Ty.core, RKind.isScalar] at hτs
          have hck := (isBoolT_scalar hcs).1 hb
          rw [hck] at ev0
          rw [← hkinds.1] at ev1
          rw [← hkinds.2] at ev2
          intro ctx hctx s
          show match (eval c ctx (.cond { m with kd := τ.kind } cn' a' b') s).1 with
            | .ok v => ValOfK v τ.kind
            | .error e => E e
          simp only [eval, bind]
          unfold SM.bind'
          have h0 := ev0 ctx hctx s
          rcases hev : eval c ctx cn' s with ⟨rc, s1⟩
          rw [hev] at h0
          cases rc with
          | error e => exact h0
          | ok v =>
            obtain ⟨bv, rfl⟩ := h0
            cases bv <;> simp only [asBool, SM.pure', pure]
            · exact ev2 ctx hctx s1
            · exact ev1 ctx hctx s1
    · simp only [hb] at hs
      simp at hs

theorem frag_ident (cfg : CheckCfg) (cs : List OTy) (c : SCfg) (henv : EnvConforms cfg c.env) (m : Meta) (name : String)
    (ns : Bool) (hsc : scalarTyped cfg cs (.ident m name ns) = true) : FragSpec E P cfg cs c (.ident m name ns) := by
  intro τ hs _ st _
  simp only [scalarTyped] at hsc
  rw [hs] at hsc
  simp only [synth] at hs
  have hrule := toOption'_some hs
  simp only [visit, hrule, orFail_ok]
  refine ⟨trivial, setKd_kd _ _, ?_⟩
  intro ctx hctx s
  show match (eval c ctx (.ident { m with kd := τ.kind } name ns) s).1 with
    | .ok v => ValOfK v τ.kind
    | .error e => E e
  obtain ⟨v, hv, hk⟩ := henv name ns τ hrule hsc
  simp only [eval, SM.lift, hv, SM.pure']
  exact hk

/-- **Soundness on the scalar fragment**, by structural recursion over the tree. -/
theorem frag_sound (hE : E .divzero) (cfg : CheckCfg) (cs : List OTy) (c : SCfg) (henv : EnvConforms cfg c.env) :
    ∀ n : Node, inFrag n = true → scalarTyped cfg cs n = true → FragSpec E P cfg cs c n
  | .bool m b, _, _ => by
    intro τ hs _ st _
    simp only [synth, Option.some.injEq] at hs
    subst hs
    simp only [visit]
    exact ⟨trivial, setKd_kd _ _, fun ctx _ s => ⟨b, rfl⟩⟩
  | .str m x, _, _ => by
    intro τ hs _ st _
    simp only [synth, Option.some.injEq] at hs
    subst hs
    simp only [visit]
    exact ⟨trivial, setKd_kd _ _, fun ctx _ s => ⟨x, rfl⟩⟩
  | .int m v, _, _ => by
    intro τ hs _ st _
    simp only [synth, Option.some.injEq] at hs
    subst hs
    simp only [visit]
    exact ⟨trivial, setKd_kd _ _, fun ctx _ s => ⟨_, rfl⟩⟩
  | .float m x, _, _ => by
    intro τ hs _ st _
    simp only [synth, Option.some.injEq] at hs
    subst hs
    simp only [visit]
    exact ⟨trivial, setKd_kd _ _, fun ctx _ s => ⟨_, rfl⟩⟩
  | .ident m name ns, _, hsc => frag_ident cfg cs c henv m name ns hsc
  | .unary m op x, hf, hsc => by
    simp only [inFrag, Bool.and_eq_true] at hf
    have hx : scalarTyped cfg cs x = true := by
      simp only [scalarTyped, Bool.and_eq_true] at hsc; exact hsc.2
    exact frag_unary cfg cs c m op x hf.1 (scalarTyped_self _ _ _ hsc) (scalarTyped_self _ _ _ hx) (frag_sound hE cfg cs c henv x hf.2 hx)
  | .binary m op l r, hf, hsc => by
    simp only [inFrag, Bool.and_eq_true] at hf
    have hl : scalarTyped cfg cs l = true := by
      simp only [scalarTyped, Bool.and_eq_true] at hsc; exact hsc.1.2
    have hr : scalarTyped cfg cs r = true := by
      simp only [scalarTyped, Bool.and_eq_true] at hsc; exact hsc.2
    exact frag_binary hE cfg cs c m op l r hf.1.1 (scalarTyped_self _ _ _ hl) (scalarTyped_self _ _ _ hr) (frag_sound hE cfg cs c henv l hf.1.2 hl)
      (frag_sound hE cfg cs c henv r hf.2 hr)
  | .cond m cn a b, hf, hsc => by
    simp only [inFrag, Bool.and_eq_true] at hf
    have h1 : scalarTyped cfg cs cn = true := by
      simp only [scalarTyped, Bool.and_eq_true] at hsc; exact hsc.1.1.2
    have h2 : scalarTyped cfg cs a = true := by
      simp only [scalarTyped, Bool.and_eq_true] at hsc; exact hsc.1.2
    have h3 : scalarTyped cfg cs b = true := by
      simp only [scalarTyped, Bool.and_eq_true] at hsc; exact hsc.2
    exact frag_cond cfg cs c m cn a b (scalarTyped_self _ _ _ hsc) (scalarTyped_self _ _ _ h1) (scalarTyped_self _ _ _ h2)
      (scalarTyped_self _ _ _ h3) (frag_sound hE cfg cs c henv cn hf.1.1 h1)
      (frag_sound hE cfg cs c henv a hf.1.2 h2) (frag_sound hE cfg cs c henv b hf.2 h3)
  | .nil _, hf, _ | .const _ _, hf, _ | .matches _ _ _ _, hf, _ | .prop _ _ _ _, hf, _
  | .index _ _ _, hf, _ | .slice _ _ _ _, hf, _ | .method _ _ _ _ _, hf, _ | .func _ _ _ _, hf, _
  | .builtin _ _ _, hf, _ | .closure _ _, hf, _ | .pointer _, hf, _ | .array _ _, hf, _
  | .map _ _, hf, _ | .pair _ _ _, hf, _ => by simp [inFrag] at hf

end ExprModel
