import ExprModel.Proofs.ParsePrintCore
import ExprModel.Proofs.ParserMono
/-
Round trip, part 2: literals, binary operators (all precedences, both associativities, `matches`),
unary operators.
-/
namespace ExprModel.Parser

variable (cfg : Cfg) (sh : NumShow) (pc : ParenChoice)

/-! ### literals -/

theorem Eb_of_primary {t : Node} {T : Token}
    (hbody : ∀ π m fw, body cfg sh pc π m fw t = [T])
    (hprim : ∀ d, canon cfg d t = true → ∀ f fw tl, parsePrimary cfg (f+2) d (T :: fw :: tl) = .ok t (fw :: tl)) :
    EbStmt cfg sh pc t := by
  intro π m p fw tl d res hc _ _ _ _ hcont
  rw [hbody]
  refine conv_parseExpression cfg ?_ hcont
  exact Conv.of_succ (Conv.of_eq (fun f => hprim d hc f fw tl))

theorem Eb_nil (m : Meta) : EbStmt cfg sh pc (.nil m) := by
  refine Eb_of_primary cfg sh pc (T := tok .identifier "nil" m.loc) (fun _ _ _ => by simp [body]) ?_
  intro d hc f fw tl
  simp only [canon] at hc
  rw [parsePrimary]
  simp [unOp, tok, Token.is]
  rw [parsePrimaryExpression]
  simp [next, mk_of_inv hc]

theorem Eb_bool (m : Meta) (b : Bool) : EbStmt cfg sh pc (.bool m b) := by
  refine Eb_of_primary cfg sh pc (T := tok .identifier (if b then "true" else "false") m.loc)
    (fun _ _ _ => by simp [body]) ?_
  intro d hc f fw tl
  simp only [canon] at hc
  rw [parsePrimary]
  simp [unOp, tok, Token.is]
  rw [parsePrimaryExpression]
  cases b <;> simp [next, mk_of_inv hc]

theorem Eb_str (m : Meta) (s : String) : EbStmt cfg sh pc (.str m s) := by
  refine Eb_of_primary cfg sh pc (T := tok .string s m.loc) (fun _ _ _ => by simp [body]) ?_
  intro d hc f fw tl
  simp only [canon] at hc
  rw [parsePrimary]
  simp [unOp, tok, Token.is]
  rw [parsePrimaryExpression]
  simp [next, mk_of_inv hc]

theorem Eb_int (hy : Hyp cfg sh) (m : Meta) (v : Int) : EbStmt cfg sh pc (.int m v) := by
  refine Eb_of_primary cfg sh pc (T := tok .number (sh.showInt v.toNat) m.loc) (fun _ _ _ => by simp [body]) ?_
  intro d hc f fw tl
  simp only [canon, Bool.and_eq_true, decide_eq_true_eq] at hc
  rw [parsePrimary]
  simp [unOp, tok, Token.is]
  rw [parsePrimaryExpression]
  have hlt : v.toNat < 2 ^ 63 := by omega
  simp [next, hy.int_rt _ hlt, mk_of_inv hc.1, Int.toNat_of_nonneg hc.2.1]

theorem Eb_float (hy : Hyp cfg sh) (m : Meta) (b : UInt64) : EbStmt cfg sh pc (.float m b) := by
  refine Eb_of_primary cfg sh pc (T := tok .number (sh.showFloat b) m.loc) (fun _ _ _ => by simp [body]) ?_
  intro d hc f fw tl
  simp only [canon, Bool.and_eq_true] at hc
  rw [parsePrimary]
  simp [unOp, tok, Token.is]
  rw [parsePrimaryExpression]
  simp [next, hy.float_rt b hc.2, mk_of_inv hc.1]

/-! ### binary operators -/

theorem cont_shift {f d p : Nat} {n : Node} {ts : List Token} {res : Res Node}
    (h1 : cont cfg f d p n ts = res) (h2 : cont cfg (f+1) d p n ts = res) :
    (exprLoop cfg f d p n ts).bind (fun e ts2 =>
      if p = 0 then parseConditional cfg (f+1) d e ts2 else .ok e ts2) = res := by
  unfold cont at h1 h2
  cases h : exprLoop cfg f d p n ts with
  | ok e ts' =>
    have hm := ((monoAt cfg f).loop d p n ts).eq_of_ne (by rw [h]; intro hc; cases hc)
    rw [hm, h] at h2
    exact h2
  | err e => rw [h] at h1; exact h1
  | fuel => rw [h] at h1; exact h1

/-- one iteration of the operator loop on a (non-`matches`) binary operator token -/
theorem conv_cont_bin {d p q : Nat} {a : Assoc} {o : Token} {l r : Node} {rest ts2 : List Token} {res : Res Node}
    (hop : binOp cfg o = some (q, a)) (hpq : p ≤ q) (hm : (o.value == "matches") = false) (hne : rest ≠ [])
    (hr : Conv (fun f => parseExpression cfg f d (rprec q a) rest) (.ok r ts2))
    (hc : Conv (fun f => cont cfg f d p (.binary (mk o.loc) o.value l r) ts2) res) :
    Conv (fun f => cont cfg f d p l (o :: rest)) res := by
  obtain ⟨f1, h1⟩ := hr
  obtain ⟨f2, h2⟩ := hc
  refine ⟨max f1 f2 + 1, fun f hf => ?_⟩
  obtain ⟨f', rfl⟩ : ∃ f', f = f' + 1 := ⟨f - 1, by omega⟩
  show cont cfg (f'+1) d p l (o :: rest) = res
  unfold cont
  rw [exprLoop]
  simp only [cur_cons, hop, ge_iff_le, if_pos hpq, next_cons_of_ne _ _ hne, Res.bind_ok, h1 f' (by omega), hm]
  exact cont_shift cfg (h2 f' (by omega)) (h2 (f'+1) (by omega))

/-- one iteration of the operator loop on `matches` -/
theorem conv_cont_matches {d p q : Nat} {a : Assoc} {o : Token} {l r : Node} {rest ts2 : List Token} {res : Res Node}
    (hop : binOp cfg o = some (q, a)) (hpq : p ≤ q) (hm : (o.value == "matches") = true) (hne : rest ≠ [])
    (hbad : ∀ s, strLit? r = some s → cfg.badRegex s = false)
    (hr : Conv (fun f => parseExpression cfg f d (rprec q a) rest) (.ok r ts2))
    (hc : Conv (fun f => cont cfg f d p (.matches (mk o.loc) (strLit? r).isSome l r) ts2) res) :
    Conv (fun f => cont cfg f d p l (o :: rest)) res := by
  obtain ⟨f1, h1⟩ := hr
  obtain ⟨f2, h2⟩ := hc
  refine ⟨max f1 f2 + 1, fun f hf => ?_⟩
  obtain ⟨f', rfl⟩ : ∃ f', f = f' + 1 := ⟨f - 1, by omega⟩
  show cont cfg (f'+1) d p l (o :: rest) = res
  unfold cont
  rw [exprLoop]
  simp only [cur_cons, hop, ge_iff_le, if_pos hpq, next_cons_of_ne _ _ hne, Res.bind_ok, h1 f' (by omega), hm]
  cases hs : strLit? r with
  | none =>
    simp only [hs] at h2
    exact cont_shift cfg (h2 f' (by omega)) (h2 (f'+1) (by omega))
  | some s =>
    simp only [hs, Option.isSome_some] at h2
    simp only [hbad s hs, Bool.false_eq_true, if_false]
    exact cont_shift cfg (h2 f' (by omega)) (h2 (f'+1) (by omega))

theorem binOp_tok_operator (op : String) (l : Loc) :
    binOp cfg (tok .operator op l) = cfg.tb.binary.lookup op := by
  simp [binOp, tok]

theorem followTok_binop (hy : TbOK cfg.tb) {op : String} {qa : Nat × Assoc} (l : Loc)
    (h : cfg.tb.binary.lookup op = some qa) : FollowTok (tok .operator op l) := by
  obtain ⟨h1, h2, h3, h4, _⟩ := hy.bin_follow op qa h
  exact ⟨h1, h2, h3, h4⟩

/-- the follow operator is not swallowed by a bare binary at level `m` -/
theorem follow_lt_rprec (hy : TbOK cfg.tb) {m q : Nat} {a : Assoc} {op : String} {fw : Token}
    (hop : cfg.tb.binary.lookup op = some (q, a)) (hmq : m ≤ q) (hinv : Inv cfg m fw) :
    ∀ q' a', binOp cfg fw = some (q', a') → q' < rprec q a := by
  intro q' a' hb
  have h1 := hinv q' a' hb
  have hb' : ∃ o', cfg.tb.binary.lookup o' = some (q', a') := by
    unfold binOp at hb
    split at hb
    · exact ⟨_, hb⟩
    · cases hb
  obtain ⟨o', ho'⟩ := hb'
  unfold lprec at h1
  unfold rprec
  by_cases hqq : q' = q
  · subst hqq
    have := hy.coherent o' op q' a' a ho' hop
    subst this
    cases a' <;> simp_all <;> omega
  · cases a' <;> cases a <;> simp_all <;> omega

theorem stops_rprec (hy : TbOK cfg.tb) {m q : Nat} {a : Assoc} {op : String} {fw : Token}
    (hop : cfg.tb.binary.lookup op = some (q, a)) (hmq : m ≤ q) (hinv : Inv cfg m fw) :
    Stops cfg (rprec q a) fw := by
  refine ⟨follow_lt_rprec cfg hy hop hmq hinv, fun h0 => ?_⟩
  have := hy.bin_pos op q a hop
  unfold rprec at h0
  split at h0 <;> omega

theorem inv_rprec {m q : Nat} {a : Assoc} {fw : Token} (hmq : m ≤ q) (hinv : Inv cfg m fw) :
    Inv cfg (rprec q a) fw := by
  intro q' a' hb
  have := hinv q' a' hb
  unfold rprec
  split <;> omega

theorem Eb_binary (hy : Hyp cfg sh) (mt : Meta) (op : String) (l r : Node)
    (ihl : EStmt cfg sh pc l) (ihr : EStmt cfg sh pc r) : EbStmt cfg sh pc (.binary mt op l r) := by
  intro π m p fw tl d res hc hpm hneed hfw hinv hcont
  simp only [canon, Bool.and_eq_true, bne_iff_ne, ne_eq] at hc
  obtain ⟨⟨⟨⟨hmeta, hlook⟩, hnm⟩, hcl⟩, hcr⟩ := hc
  obtain ⟨⟨q, a⟩, hop⟩ := Option.isSome_iff_exists.mp hlook
  have hmq : m ≤ q := by
    simp only [needParens, hop, decide_eq_false_iff_not, Nat.not_lt] at hneed
    exact hneed
  have hbody : body cfg sh pc π m fw (.binary mt op l r) ++ fw :: tl =
      pr cfg sh pc (0 :: π) (lprec q a) (tok .operator op mt.loc) l ++
        tok .operator op mt.loc :: (pr cfg sh pc (1 :: π) (rprec q a) fw r ++ fw :: tl) := by
    simp [body, hop, pr]
  rw [hbody]
  have hopt : binOp cfg (tok .operator op mt.loc) = some (q, a) := by rw [binOp_tok_operator]; exact hop
  refine ihl (0 :: π) (lprec q a) p (tok .operator op mt.loc) _ d res hcl
    (by unfold lprec; split <;> omega) (followTok_binop cfg hy.tb mt.loc hop)
    (by intro q' a' hb; rw [hopt] at hb; cases hb; exact Nat.le_refl _) ?_
  refine conv_cont_bin cfg (r := r) (ts2 := fw :: tl) hopt (by omega) (by simpa [tok] using hnm) (by simp) ?_ ?_
  · exact ihr (1 :: π) (rprec q a) (rprec q a) fw tl d _ hcr (Nat.le_refl _) hfw (inv_rprec cfg hmq hinv)
      (conv_cont_stop cfg (stops_rprec cfg hy.tb hop hmq hinv) d r tl)
  · simpa [tok, mk_of_inv hmeta] using hcont

theorem Eb_matches (hy : Hyp cfg sh) (mt : Meta) (h : Bool) (l r : Node)
    (ihl : EStmt cfg sh pc l) (ihr : EStmt cfg sh pc r) : EbStmt cfg sh pc (.matches mt h l r) := by
  intro π m p fw tl d res hc hpm hneed hfw hinv hcont
  simp only [canon, Bool.and_eq_true, beq_iff_eq] at hc
  obtain ⟨⟨⟨⟨⟨hmeta, hlook⟩, hh⟩, hbad⟩, hcl⟩, hcr⟩ := hc
  obtain ⟨⟨q, a⟩, hop⟩ := Option.isSome_iff_exists.mp hlook
  have hmq : m ≤ q := by
    simp only [needParens, hop, decide_eq_false_iff_not, Nat.not_lt] at hneed
    exact hneed
  have hbody : body cfg sh pc π m fw (.matches mt h l r) ++ fw :: tl =
      pr cfg sh pc (0 :: π) (lprec q a) (tok .operator "matches" mt.loc) l ++
        tok .operator "matches" mt.loc :: (pr cfg sh pc (1 :: π) (rprec q a) fw r ++ fw :: tl) := by
    simp [body, hop, pr]
  rw [hbody]
  have hopt : binOp cfg (tok .operator "matches" mt.loc) = some (q, a) := by rw [binOp_tok_operator]; exact hop
  refine ihl (0 :: π) (lprec q a) p (tok .operator "matches" mt.loc) _ d res hcl
    (by unfold lprec; split <;> omega) (followTok_binop cfg hy.tb mt.loc hop)
    (by intro q' a' hb; rw [hopt] at hb; cases hb; exact Nat.le_refl _) ?_
  refine conv_cont_matches cfg (r := r) (ts2 := fw :: tl) hopt (by omega) (by simp [tok]) (by simp) ?_ ?_ ?_
  · intro s hs
    rw [hs] at hbad
    simpa using hbad
  · exact ihr (1 :: π) (rprec q a) (rprec q a) fw tl d _ hcr (Nat.le_refl _) hfw (inv_rprec cfg hmq hinv)
      (conv_cont_stop cfg (stops_rprec cfg hy.tb hop hmq hinv) d r tl)
  · subst hh
    simpa [tok, mk_of_inv hmeta] using hcont

/-! ### unary operators -/

theorem unOp_tok_operator (op : String) (l : Loc) :
    unOp cfg (tok .operator op l) = (cfg.tb.unary.lookup op).map (·.1) := by
  simp [unOp, tok]

theorem parsePrimary_unary {u : Token} {pu : Nat} (h : unOp cfg u = some pu) (f d : Nat) (rest : List Token)
    (hne : rest ≠ []) :
    parsePrimary cfg (f+1) d (u :: rest) =
      (parseExpression cfg f d pu rest).bind fun e ts2 =>
        parsePostfix cfg f d (.unary (mk u.loc) u.value e) false ts2 := by
  rw [parsePrimary]
  simp only [cur_cons, h, next_cons_of_ne _ _ hne, Res.bind_ok]

theorem Eb_unary (hy : Hyp cfg sh) (mt : Meta) (op : String) (x : Node)
    (ihx : EStmt cfg sh pc x) : EbStmt cfg sh pc (.unary mt op x) := by
  intro π m p fw tl d res hc hpm hneed hfw hinv hcont
  simp only [canon, Bool.and_eq_true] at hc
  obtain ⟨⟨hmeta, hlook⟩, hcx⟩ := hc
  obtain ⟨⟨pu, au⟩, hop⟩ := Option.isSome_iff_exists.mp hlook
  have hpos := hy.tb.un_pos op pu au hop
  have hlt : ∀ q' a', binOp cfg fw = some (q', a') → q' < pu := by
    intro q' a' hb
    simp only [needParens, hop, hb, ge_iff_le, decide_eq_false_iff_not, Nat.not_le] at hneed
    exact hneed
  have hbody : body cfg sh pc π m fw (.unary mt op x) ++ fw :: tl =
      tok .operator op mt.loc :: (pr cfg sh pc (0 :: π) pu fw x ++ fw :: tl) := by
    simp [body, hop, pr]
  rw [hbody]
  have hx : Conv (fun f => parseExpression cfg f d pu (pr cfg sh pc (0 :: π) pu fw x ++ fw :: tl)) (.ok x (fw :: tl)) := by
    refine ihx (0 :: π) pu pu fw tl d _ hcx (Nat.le_refl _) hfw ?_ (conv_cont_stop cfg ⟨hlt, fun h0 => by omega⟩ d x tl)
    intro q' a' hb
    have := hlt q' a' hb
    unfold lprec; split <;> omega
  refine conv_parseExpression cfg ?_ hcont
  apply Conv.of_succ
  have hu : unOp cfg (tok .operator op mt.loc) = some pu := by rw [unOp_tok_operator, hop]; rfl
  refine Conv.congr (fun f => parsePrimary_unary cfg hu f d _ (by simp)) ?_
  refine Conv.bind hx ?_
  have := conv_postfix_stop cfg hfw d (.unary mt op x) false tl
  simpa [tok, mk_of_inv hmeta] using this

end ExprModel.Parser
