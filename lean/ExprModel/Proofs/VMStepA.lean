import ExprModel.Proofs.VMStepDefs
/- `step` on OpRange / OpArray / OpMap (part of the split proof of `step_sat`) -/
set_option linter.unusedVariables false
namespace ExprModel

/-- the three allocating opcodes -/
theorem step_sat_alloc (c : Cfg) (hr : c.defects.rangeSizeSigned = false) (hw : WorldNB c.world) (p : Prog) (s : VM)
    (hgrp : OpIn opsAlloc p s) : Sat (step c p s) (StepOk p s) (StepErr p s) := by
  unfold step
  simp only []
  split
  · exact Sat.weakenErr (sat_failV ⟨rfl, rfl, rfl⟩ (by decide))
  · rename_i op hop
    have hmem := hgrp _ hop
    split
    case h_30 =>
      refine Sat.bind_eq (Sat.weakenErr (sat_pop2 ⟨rfl, rfl, rfl⟩)) ?_
      intro x hpop hx
      obtain ⟨a, b, s1⟩ := x
      have hstack : s.stack = b :: a :: s1.stack := pop2_stack (s := { s with pp := s.ip, ip := s.ip + 1 }) hpop
      refine Sat.bind_eq (Sat.weakenErr (sat_liftR hx (nb_toIntR _))) ?_
      intro lo hlo _
      refine Sat.bind_eq (Sat.weakenErr (sat_liftR hx (nb_toIntR _))) ?_
      intro hi hhi _
      have hpend : pending p s = some (rangeElems lo hi).length := by
        unfold pending
        rw [hop, hstack]
        simp only [liftR_ok hlo, liftR_ok hhi]
      have hlen := rangeElems_length lo hi
      simp only [hr, Bool.false_eq_true, if_false]
      rw [← hlen]
      obtain ⟨h1, h2, h3⟩ := hx
      dsimp only at h1 h2 h3 ⊢
      split
      · rename_i hge
        show StepErr p s .budget s1
        refine ⟨h3, by rw [h1, h2]; omega, by rw [h2]; exact Nat.le_refl _, fun _ => ?_⟩
        refine .before (rangeElems lo hi).length hpend h1 h2 ?_
        rw [← h1, ← h3]; exact hge
      · rename_i hlt
        refine ⟨h3, ?_, ?_, ?_, ?_⟩
        · show s1.memory + _ - s.memory = ((s1.created + (rangeElems lo hi).length : Nat) : Int) - s.created
          rw [Int.natCast_add, h1, h2]; omega
        · show s.created ≤ s1.created + _
          omega
        · right
          show s1.memory + _ < s1.limit
          omega
        · intro k hk
          rw [hpend] at hk; injection hk with hk; subst hk
          refine ⟨?_, ?_⟩
          · show s1.created + _ = _
            rw [h2]
          · show s1.memory + _ < s1.limit
            omega
    case h_44 =>
      refine Sat.bind_eq (Sat.weakenErr (sat_pop ⟨rfl, rfl, rfl⟩)) ?_
      intro x hpop hx
      obtain ⟨n, s1⟩ := x
      have hstack : s.stack = n :: s1.stack := pop_stack (s := { s with pp := s.ip, ip := s.ip + 1 }) hpop
      dsimp only at hx ⊢
      split
      · rename_i size
        split
        · exact Sat.weakenErr (sat_failV hx (by decide))
        · rename_i hneg
          refine Sat.bind_eq (Sat.weakenErr (sat_popN size.toNat [] hx)) ?_
          intro y hpopN hy
          obtain ⟨elems, s2⟩ := y
          have hdepth := popN_stack_len _ _ _ _ _ hpopN
          have hpend : pending p s = some size.toNat := by
            unfold pending
            rw [hop, hstack]
            simp only []
            rw [if_pos ⟨by omega, by omega⟩]
          obtain ⟨⟨h1, h2, h3⟩, hl⟩ := hy
          dsimp only at h1 h2 h3 hl
          simp only [List.length_nil, Nat.add_zero] at hl
          split
          · rename_i hge
            dsimp only [VM.push] at hge
            show StepErr p s .budget _
            refine ⟨h3, ?_, ?_, fun _ => ?_⟩
            · show s2.memory + size - s.memory = ((s2.created + elems.length : Nat) : Int) - s.created
              rw [Int.natCast_add, h1, h2, hl]; omega
            · show s.created ≤ s2.created + _
              omega
            · refine .after size.toNat hpend ?_ ?_ ?_
              · show s2.memory + size = s.memory + _
                rw [h1]; omega
              · show s2.created + elems.length = s.created + _
                rw [h2, hl]
              · show s2.memory + size ≥ s.limit
                rw [← h3]; exact hge
          · rename_i hge
            dsimp only [VM.push] at hge
            refine ⟨h3, ?_, ?_, ?_, ?_⟩
            · show s2.memory + size - s.memory = ((s2.created + elems.length : Nat) : Int) - s.created
              rw [Int.natCast_add, h1, h2, hl]; omega
            · show s.created ≤ s2.created + _
              omega
            · right
              show s2.memory + size < s2.limit
              omega
            · intro k hk
              rw [hpend] at hk; injection hk with hk; subst hk
              refine ⟨?_, ?_⟩
              · show s2.created + elems.length = _
                rw [h2, hl]
              · show s2.memory + size < s2.limit
                omega
      · exact Sat.weakenErr (sat_failV hx (by decide))
    case h_45 =>
      refine Sat.bind_eq (Sat.weakenErr (sat_pop ⟨rfl, rfl, rfl⟩)) ?_
      intro x hpop hx
      obtain ⟨n, s1⟩ := x
      have hstack : s.stack = n :: s1.stack := pop_stack (s := { s with pp := s.ip, ip := s.ip + 1 }) hpop
      dsimp only at hx ⊢
      split
      · rename_i size
        split
        · exact Sat.weakenErr (sat_failV hx (by decide))
        · rename_i hneg
          refine Sat.bind_eq (Sat.weakenErr (sat_popN' hx)) ?_
          intro y hpopN hy
          obtain ⟨flat, s2⟩ := y
          have hdepth := popN_stack_len _ _ _ _ _ hpopN
          have hpend : pending p s = some size.toNat := by
            unfold pending
            rw [hop, hstack]
            simp only []
            rw [if_pos ⟨by omega, by omega⟩]
          refine Sat.bind (Sat.weakenErr (sat_liftR hy (nb_buildMap _))) ?_
          intro m _
          obtain ⟨h1, h2, h3⟩ := hy
          dsimp only at h1 h2 h3
          split
          · rename_i hge
            dsimp only [VM.push] at hge
            show StepErr p s .budget _
            refine ⟨h3, ?_, ?_, fun _ => ?_⟩
            · show s2.memory + size - s.memory = ((s2.created + size.toNat : Nat) : Int) - s.created
              rw [Int.natCast_add, h1, h2]; omega
            · show s.created ≤ s2.created + _
              omega
            · refine .after size.toNat hpend ?_ ?_ ?_
              · show s2.memory + size = s.memory + _
                rw [h1]; omega
              · show s2.created + size.toNat = s.created + _
                rw [h2]
              · show s2.memory + size ≥ s.limit
                rw [← h3]; exact hge
          · rename_i hge
            dsimp only [VM.push] at hge
            refine ⟨h3, ?_, ?_, ?_, ?_⟩
            · show s2.memory + size - s.memory = ((s2.created + size.toNat : Nat) : Int) - s.created
              rw [Int.natCast_add, h1, h2]; omega
            · show s.created ≤ s2.created + _
              omega
            · right
              show s2.memory + size < s2.limit
              omega
            · intro k hk
              rw [hpend] at hk; injection hk with hk; subst hk
              refine ⟨?_, ?_⟩
              · show s2.created + size.toNat = _
                rw [h2]
              · show s2.memory + size < s2.limit
                omega
      · exact Sat.weakenErr (sat_failV hx (by decide))
    all_goals (exfalso; revert hmem; decide)

end ExprModel
