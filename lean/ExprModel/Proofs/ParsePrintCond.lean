import ExprModel.Proofs.ParsePrintHead
/-
Round trip, part 3: the conditional `c ? a : b` (only at precedence 0, right-nested).
-/
namespace ExprModel.Parser

variable (cfg : Cfg) (sh : NumShow) (pc : ParenChoice)

theorem binOp_quest (hy : TbOK cfg.tb) (l : Loc) : binOp cfg (questAt l) = none := by
  simp [binOp, questAt, tok, hy.no_quest]
theorem binOp_colon (hy : TbOK cfg.tb) : binOp cfg colon = none := by
  simp [binOp, colon, tok, hy.no_colon]
theorem binOp_comma (hy : TbOK cfg.tb) : binOp cfg comma = none := by
  simp [binOp, comma, tok, hy.no_comma]

theorem followTok_quest (l : Loc) : FollowTok (questAt l) := by simp [FollowTok, questAt, tok]
theorem followTok_colon : FollowTok colon := by simp [FollowTok, colon, tok]
theorem followTok_comma : FollowTok comma := by simp [FollowTok, comma, tok]

theorem inv_of_none {fw : Token} (h : binOp cfg fw = none) (m : Nat) : Inv cfg m fw := by
  intro q a hb; rw [h] at hb; cases hb

theorem stops_of_none {fw : Token} (h : binOp cfg fw = none) (hq : fw.is .operator "?" = false) (p : Nat) :
    Stops cfg p fw :=
  ⟨fun q a hb => (by rw [h] at hb; cases hb), fun _ => hq⟩

theorem stops_colon (hy : TbOK cfg.tb) (p : Nat) : Stops cfg p colon :=
  stops_of_none cfg (binOp_colon cfg hy) (by simp [colon, tok, Token.is]) p
theorem stops_comma (hy : TbOK cfg.tb) (p : Nat) : Stops cfg p comma :=
  stops_of_none cfg (binOp_comma cfg hy) (by simp [comma, tok, Token.is]) p

theorem parseConditional_quest {R : List Token} (hR : HeadOK R) (l : Loc) (f d : Nat) (c : Node) :
    parseConditional cfg (f+1) d c (questAt l :: R) =
      (parseExpression cfg f d 0 R).bind fun e1 ts2 =>
      (expect .operator ":" ts2).bind fun _ ts3 =>
      (parseExpression cfg f d 0 ts3).bind fun e2 ts4 =>
      parseConditional cfg f d (.cond (mk l) c e1 e2) ts4 := by
  obtain ⟨t0, rest, rfl, h0⟩ := hR
  rw [parseConditional]
  have hq : (questAt l).is .operator "?" = true := by simp [questAt, tok, Token.is]
  have hl : (questAt l).loc = l := rfl
  simp only [cur_cons, hq, hl, if_true, next_cons_cons, Res.bind_ok, h0.1, Bool.false_eq_true, if_false]

theorem cont_quest (hy : TbOK cfg.tb) {R : List Token} (hR : HeadOK R) (l : Loc) (f d : Nat) (c : Node) :
    cont cfg (f+1) d 0 c (questAt l :: R) =
      (parseExpression cfg f d 0 R).bind fun e1 ts2 =>
      (expect .operator ":" ts2).bind fun _ ts3 =>
      (parseExpression cfg f d 0 ts3).bind fun e2 ts4 =>
      parseConditional cfg f d (.cond (mk l) c e1 e2) ts4 := by
  unfold cont
  rw [exprLoop_stop cfg (by intro q a hb; rw [binOp_quest cfg hy l] at hb; cases hb)]
  simp only [Res.bind_ok, if_true]
  exact parseConditional_quest cfg hR l f d c

theorem expect_colon (R : List Token) (h : R ≠ []) : expect .operator ":" (colon :: R) = .ok () R := by
  simp [expect, colon, tok, Token.is, next_cons_of_ne _ _ h]

theorem Eb_cond (hy : Hyp cfg sh) (mt : Meta) (c a b : Node)
    (ihc : EStmt cfg sh pc c) (iha : EStmt cfg sh pc a) (ihb : EStmt cfg sh pc b) :
    EbStmt cfg sh pc (.cond mt c a b) := by
  intro π m p fw tl d res hc hpm hneed hfw hinv hcont
  simp only [canon, Bool.and_eq_true] at hc
  obtain ⟨⟨⟨hmeta, hcc⟩, hca⟩, hcb⟩ := hc
  simp only [needParens, Bool.not_eq_eq_eq_not, Bool.not_false, Bool.and_eq_true, beq_iff_eq,
    Option.isNone_iff_eq_none, Bool.not_eq_true', Bool.not_true] at hneed
  obtain ⟨⟨hm0, hbfw⟩, hqfw⟩ := hneed
  subst hm0
  have hp0 : p = 0 := by omega
  subst hp0
  have hstop : Stops cfg 0 fw := stops_of_none cfg hbfw hqfw 0
  have hres : res = .ok (.cond mt c a b) (fw :: tl) :=
    Conv.unique hcont (conv_cont_stop cfg hstop d _ tl)
  subst hres
  have hbody : body cfg sh pc π 0 fw (.cond mt c a b) ++ fw :: tl =
      pr cfg sh pc (0 :: π) 0 (questAt mt.loc) c ++ questAt mt.loc :: (pr cfg sh pc (1 :: π) 0 colon a ++
        colon :: (pr cfg sh pc (2 :: π) 0 fw b ++ fw :: tl)) := by
    simp [body, pr]
  rw [hbody]
  refine ihc (0 :: π) 0 0 (questAt mt.loc) _ d _ hcc (Nat.le_refl _) (followTok_quest _)
    (inv_of_none cfg (binOp_quest cfg hy.tb _) 0) ?_
  -- the loop stops at `?`, then the conditional production
  apply Conv.of_succ
  have hR : HeadOK (pr cfg sh pc (1 :: π) 0 colon a ++ colon :: (pr cfg sh pc (2 :: π) 0 fw b ++ fw :: tl)) :=
    (headOK_pr cfg sh pc hy.tb hca _ _ _).append _
  refine Conv.congr (fun f => cont_quest cfg hy.tb hR mt.loc f d c) ?_
  refine Conv.bind (iha (1 :: π) 0 0 colon _ d _ hca (Nat.le_refl _) followTok_colon
    (inv_of_none cfg (binOp_colon cfg hy.tb) 0) (conv_cont_stop cfg (stops_colon cfg hy.tb 0) d a _)) ?_
  simp only [expect_colon _ (by simp : pr cfg sh pc (2 :: π) 0 fw b ++ fw :: tl ≠ []), Res.bind_ok]
  refine Conv.bind (ihb (2 :: π) 0 0 fw tl d _ hcb (Nat.le_refl _) hfw hinv (conv_cont_stop cfg hstop d b _)) ?_
  rw [mk_of_inv hmeta]
  exact Conv.of_eq (fun f => parseConditional_stop cfg hqfw f d _ tl)

end ExprModel.Parser
