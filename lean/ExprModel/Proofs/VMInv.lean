import ExprModel.VM.Step
/-
Accounting invariants of the byte-level VM model, for ARBITRARY bytecode (C06): what one `step` does to the
budget counter `memory`, to the ghost counter `created` (elements actually built) and to `limit`.

Method: a small Hoare-style predicate `Sat m okP errP` over the `RV` monad of `step`, frame lemmas for the
helpers (`pop`, `push`, `readArg`, …: counters untouched, their errors are never `budget`), one tactic that
discharges the 49 opcodes that do not allocate, and the three allocating opcodes by hand.
-/
namespace ExprModel

/-- `okP` holds of a successful result, `errP` of the class and state reported by a failure -/
def Sat {α} (m : RV α) (okP : α → Prop) (errP : ErrClass → VM → Prop) : Prop :=
  match m with
  | .ok a => okP a
  | .error (e, s) => errP e s

theorem Sat.pure {α} {a : α} {okP : α → Prop} {errP} (h : okP a) : Sat (Pure.pure a : RV α) okP errP := h

theorem Sat.bind {α β} {m : RV α} {f : α → RV β} {okP : β → Prop} {errP} {midP : α → Prop}
    (hm : Sat m midP errP) (hf : ∀ a, midP a → Sat (f a) okP errP) : Sat (m >>= f) okP errP := by
  cases m with
  | ok a => exact hf a hm
  | error e => exact hm

theorem Sat.mono {α} {m : RV α} {okP okP' : α → Prop} {errP errP' : ErrClass → VM → Prop}
    (h : Sat m okP errP) (hok : ∀ a, okP a → okP' a) (herr : ∀ e s, errP e s → errP' e s) : Sat m okP' errP' := by
  cases m with
  | ok a => exact hok a h
  | error e => exact herr e.1 e.2 h

theorem Sat.ok {α} {m : RV α} {okP : α → Prop} {errP} {a : α} (h : Sat m okP errP) (hm : m = .ok a) : okP a := by
  subst hm; exact h

theorem Sat.err {α} {m : RV α} {okP : α → Prop} {errP} {e s} (h : Sat m okP errP) (hm : m = .error (e, s)) : errP e s := by
  subst hm; exact h

/-- the budget-relevant components are untouched -/
def Frame (s s' : VM) : Prop := s'.memory = s.memory ∧ s'.created = s.created ∧ s'.limit = s.limit

theorem Frame.refl (s : VM) : Frame s s := ⟨rfl, rfl, rfl⟩

/-- error post-condition of the opcodes that do not allocate: counters untouched, never a budget error -/
def FrameErr (s : VM) (e : ErrClass) (s' : VM) : Prop := Frame s s' ∧ e ≠ .budget

/-! ### helpers -/

theorem sat_failV {α} {s0 s : VM} {e : ErrClass} {okP : α → Prop} (h : Frame s0 s) (he : e ≠ .budget) :
    Sat (failV e s : RV α) okP (FrameErr s0) := ⟨h, he⟩

theorem sat_pop {s0 s : VM} (h : Frame s0 s) : Sat s.pop (fun x => Frame s0 x.2) (FrameErr s0) := by
  unfold VM.pop; split
  · exact h
  · exact ⟨h, by decide⟩

theorem sat_pop2 {s0 s : VM} (h : Frame s0 s) : Sat s.pop2 (fun x => Frame s0 x.2.2) (FrameErr s0) := by
  unfold VM.pop2
  refine Sat.bind (sat_pop h) ?_
  intro x hx
  refine Sat.bind (sat_pop hx) ?_
  intro y hy
  exact hy

theorem sat_popN {s0 : VM} : ∀ (n : Nat) {s : VM} (acc : List Val), Frame s0 s →
    Sat (VM.popN n s acc) (fun x => Frame s0 x.2 ∧ x.1.length = n + acc.length) (FrameErr s0)
  | 0, s, acc, h => by unfold VM.popN; exact ⟨h, by simp⟩
  | n + 1, s, acc, h => by
    unfold VM.popN
    refine Sat.bind (sat_pop h) ?_
    intro x hx
    refine Sat.mono (sat_popN n (x.1 :: acc) hx) ?_ (fun _ _ h => h)
    intro a ⟨ha, hl⟩
    exact ⟨ha, by simp [hl]; omega⟩

theorem sat_popN' {s0 s : VM} {n : Nat} {acc : List Val} (h : Frame s0 s) :
    Sat (VM.popN n s acc) (fun x => Frame s0 x.2) (FrameErr s0) :=
  Sat.mono (sat_popN n acc h) (fun _ h => h.1) (fun _ _ h => h)

theorem sat_current {s0 s : VM} (h : Frame s0 s) : Sat s.current (fun _ => True) (FrameErr s0) := by
  unfold VM.current; split
  · trivial
  · exact ⟨h, by decide⟩

theorem sat_readArg {p : Prog} {s0 s : VM} (h : Frame s0 s) : Sat (readArg p s) (fun x => Frame s0 x.2) (FrameErr s0) := by
  unfold readArg; split
  · exact h
  · exact ⟨h, by decide⟩

theorem sat_readConst {p : Prog} {s0 s : VM} (h : Frame s0 s) : Sat (readConst p s) (fun x => Frame s0 x.2) (FrameErr s0) := by
  unfold readConst
  refine Sat.bind (sat_readArg h) ?_
  intro x hx
  obtain ⟨a, s1⟩ := x
  show Sat (match p.consts[a]? with | some c => Pure.pure (c, s1) | none => .error (.badop, s1)) _ _
  split
  · exact hx
  · exact ⟨hx, by decide⟩

/-- a run-time library function that never reports a budget error -/
def NB {α} (r : R α) : Prop := r ≠ .error .budget

theorem sat_liftR {α} {s0 s : VM} {r : R α} (h : Frame s0 s) (hr : NB r) : Sat (liftR s r) (fun _ => True) (FrameErr s0) := by
  cases r with
  | ok a => trivial
  | error e => exact ⟨h, fun he => hr (by rw [he])⟩

theorem nb_toIntR (v : Val) : NB (toIntR v) := by unfold NB toIntR; split <;> simp
theorem nb_notV (v : Val) : NB (notV v) := by unfold NB notV; split <;> simp
theorem nb_negV (v : Val) : NB (negV v) := by unfold NB negV; split <;> simp
theorem nb_binHelper (h a b) : NB (binHelper h a b) := by unfold NB binHelper; split <;> simp
theorem nb_strOp (f a b) : NB (strOp f a b) := by unfold NB strOp; split <;> simp
theorem nb_lengthV (v : Val) : NB (lengthV v) := by unfold NB lengthV; split <;> simp
theorem nb_constStr (v : Val) : NB (constStr v) := by unfold NB constStr; split <;> simp
theorem nb_inV (a b : Val) : NB (inV a b) := by
  unfold NB inV; repeat' split
  all_goals simp
theorem nb_castV (t v) : NB (castV t v) := by
  unfold NB castV; repeat' split
  all_goals simp
theorem nb_fetchV (a i n) : NB (fetchV a i n) := by
  unfold NB fetchV
  have ht := nb_toIntR i
  unfold NB at ht
  intro hc
  simp only [] at hc
  repeat' (split at hc)
  all_goals first
    | (simp at hc; done)
    | (simp at hc; subst hc; simp_all; done)
theorem nb_sliceV (a f t) : NB (sliceV a f t) := by
  unfold NB sliceV
  have hf := nb_toIntR f
  have ht := nb_toIntR t
  unfold NB at hf ht
  intro hc
  simp only [] at hc
  repeat' (split at hc)
  all_goals first
    | (simp at hc; done)
    | (simp at hc; subst hc; simp_all; done)
theorem nb_buildMap : ∀ (l : List Val), NB (buildMap l)
  | [] => by unfold NB buildMap; simp
  | [_] => by unfold NB buildMap; simp
  | k :: v :: rest => by
    have ih := nb_buildMap rest
    unfold NB at *
    unfold buildMap
    cases hb : buildMap rest with
    | error e => simp [bind, Except.bind]; intro h; exact ih (by rw [hb, h])
    | ok m =>
      simp only [bind, Except.bind]
      split <;> simp [pure, Except.pure]

/-- environment functions do not report budget errors of their own -/
def WorldNB (w : World) : Prop := ∀ id args, NB (w.call id args)

theorem nb_callMember {w : World} (hw : WorldNB w) (fromV name args) : NB (callMember w fromV name args) := by
  unfold callMember
  simp only []
  repeat' split
  all_goals first
    | exact hw _ _
    | (unfold NB; simp)

end ExprModel

namespace ExprModel

/-- discharges `NB r` side goals -/
macro "nb_auto" : tactic => `(tactic| first
  | exact nb_toIntR _ | exact nb_notV _ | exact nb_negV _ | exact nb_binHelper _ _ _ | exact nb_strOp _ _ _
  | exact nb_lengthV _ | exact nb_constStr _ | exact nb_inV _ _ | exact nb_castV _ _ | exact nb_fetchV _ _ _
  | exact nb_sliceV _ _ _ | exact nb_buildMap _ | (apply nb_callMember; assumption))

/-- one structural step on a goal `Sat m (Frame s0 ∘ …) (FrameErr s0)` of a non-allocating opcode -/
macro "sat_step" : tactic => `(tactic| first
  | (refine Sat.bind (sat_pop ?_) ?_)
  | (refine Sat.bind (sat_pop2 ?_) ?_)
  | (refine Sat.bind (sat_popN' ?_) ?_)
  | (refine Sat.bind (sat_readConst ?_) ?_)
  | (refine Sat.bind (sat_readArg ?_) ?_)
  | (refine Sat.bind (sat_current ?_) ?_)
  | (refine Sat.bind (sat_liftR ?_ ?_) ?_)
  | (refine Sat.pure ?_)
  | (refine sat_failV ?_ (by decide))
  | (intro _ _)
  | assumption
  | exact ⟨rfl, rfl, rfl⟩
  | nb_auto
  | split)

end ExprModel
