import ExprModel.Api.LocMap
/- Helper lemmas for C13: the node-stack discipline of compile/emit. -/
namespace ExprModel.LocMap

mutual
theorem compile_spec : ∀ (s : Script) (st : St),
    compile s st = { pc := (expScript s st.pc).2, nodes := st.nodes, locs := st.locs ++ (expScript s st.pc).1 }
  | .node loc steps, st => by
    rw [compile, expScript]
    have := runSteps_spec loc steps { st with nodes := loc :: st.nodes } rfl
    simp only [this, List.tail_cons]
theorem runSteps_spec : ∀ (loc : Loc) (steps : List Step) (st : St), st.nodes.head? = some loc →
    runSteps steps st =
      { pc := (expSteps loc steps st.pc).2, nodes := st.nodes, locs := st.locs ++ (expSteps loc steps st.pc).1 }
  | loc, [], st, _ => by simp [runSteps, expSteps]
  | loc, s :: ss, st, h => by
    rw [runSteps, expSteps]
    have h1 := runStep_spec loc s st h
    rw [h1]
    have h2 := runSteps_spec loc ss
      { pc := (expStep loc s st.pc).2, nodes := st.nodes, locs := st.locs ++ (expStep loc s st.pc).1 } h
    rw [h2]
    simp [List.append_assoc]
theorem runStep_spec : ∀ (loc : Loc) (s : Step) (st : St), st.nodes.head? = some loc →
    runStep s st =
      { pc := (expStep loc s st.pc).2, nodes := st.nodes, locs := st.locs ++ (expStep loc s st.pc).1 }
  | loc, .emit k, st, h => by simp [runStep, emit, expStep, h]
  | loc, .sub s, st, _ => by rw [runStep, expStep]; exact compile_spec s st
end

/-- keys of the expected map lie in `[pc, newpc)` and are strictly increasing -/
def Sorted (lo : Nat) (xs : List (Nat × Loc)) (hi : Nat) : Prop :=
  lo ≤ hi ∧ (∀ p ∈ xs, lo ≤ p.1 ∧ p.1 < hi) ∧ xs.Pairwise (fun a b => a.1 < b.1)

theorem Sorted.append {a b c : Nat} {xs ys : List (Nat × Loc)} (h1 : Sorted a xs b) (h2 : Sorted b ys c) :
    Sorted a (xs ++ ys) c := by
  obtain ⟨l1, m1, p1⟩ := h1
  obtain ⟨l2, m2, p2⟩ := h2
  refine ⟨Nat.le_trans l1 l2, ?_, ?_⟩
  · intro p hp
    rcases List.mem_append.mp hp with h | h
    · have := m1 p h; omega
    · have := m2 p h; omega
  · rw [List.pairwise_append]
    refine ⟨p1, p2, ?_⟩
    intro x hx y hy
    have := m1 x hx; have := m2 y hy; omega

mutual
theorem expScript_sorted : ∀ (s : Script) (pc : Nat), Sorted pc (expScript s pc).1 (expScript s pc).2
  | .node loc steps, pc => by rw [expScript]; exact expSteps_sorted loc steps pc
theorem expSteps_sorted : ∀ (loc : Loc) (steps : List Step) (pc : Nat),
    Sorted pc (expSteps loc steps pc).1 (expSteps loc steps pc).2
  | _, [], pc => by simp [expSteps, Sorted]
  | loc, s :: ss, pc => by
    rw [expSteps]
    exact (expStep_sorted loc s pc).append (expSteps_sorted loc ss _)
theorem expStep_sorted : ∀ (loc : Loc) (s : Step) (pc : Nat), Sorted pc (expStep loc s pc).1 (expStep loc s pc).2
  | loc, .emit k, pc => by
    simp only [expStep, Sorted, List.mem_singleton, List.pairwise_cons, List.not_mem_nil, false_imp_iff,
      implies_true, List.Pairwise.nil, and_self, and_true]
    refine ⟨by omega, ?_⟩
    intro p hp; subst hp; simp; omega
  | _, .sub s, pc => by rw [expStep]; exact expScript_sorted s pc
end

/-- with pairwise distinct keys, looking a written entry up returns it (whatever the write order) -/
theorem lookup_of_mem_distinct (xs : List (Nat × Loc)) (h : xs.Pairwise (fun a b => a.1 ≠ b.1)) (k : Nat) (l : Loc)
    (hm : (k, l) ∈ xs) : xs.lookup k = some l := by
  induction xs with
  | nil => cases hm
  | cons x xs ih =>
    obtain ⟨k', l'⟩ := x
    rw [List.pairwise_cons] at h
    rcases List.mem_cons.mp hm with e | e
    · cases e; simp [List.lookup]
    · have hne : k' ≠ k := h.1 (k, l) e
      have : (k == k') = false := by simpa using fun e => hne e.symm
      simp only [List.lookup, this]
      exact ih h.2 e

end ExprModel.LocMap
