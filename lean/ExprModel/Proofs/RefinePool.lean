import ExprModel.Proofs.RefineCompiles
import ExprModel.Proofs.RefineCompileEqs
/-
C01 stage 0 (e): the constant pool.  `mkConst` only appends or finds; an index it returns points at the
expected constant in every extension of the pool — *provided* the de-duplicating lookup, which compares
float constants with `==` (Go map-key equality: `+0 == -0`), never identifies two different floats of the
tree (`AliasFree`).  Result: `compile_compiles`, from `compileNode … = ok (code, p')` to `Compiles K … code`
for every constant array `K` extending `p'`.
-/
namespace ExprModel.Refine
open ExprModel

def isFloatVal : Val → Bool
  | .f64 _ | .f32 _ => true
  | _ => false

/-- no two different values of `F` are identified by the pool's key equality -/
def AliasFree (F : Val → Prop) : Prop := ∀ a b, F a → F b → constKeyEq a b = true → a = b

def PoolExt (p : Pool) (K : Array Val) : Prop := ∀ (i : Nat) (v : Val), p.consts[i]? = some v → K[i]? = some v

theorem PoolExt.trans {p q : Pool} {K : Array Val} (h1 : PoolExt p q.consts) (h2 : PoolExt q K) : PoolExt p K :=
  fun i v h => h2 i v (h1 i v h)

theorem PoolExt.refl (p : Pool) : PoolExt p p.consts := fun _ _ h => h

syntax "pext" : tactic
macro_rules
  | `(tactic| pext) => `(tactic| first | assumption | exact PoolExt.refl _ | (apply PoolExt.trans; (assumption); pext))

structure PoolInv (F : Val → Prop) (p : Pool) : Prop where
  floats : ∀ (i : Nat) (w : Val), p.consts[i]? = some w → isFloatVal w = true → F w
  re : ∀ o ∈ p.reOwner, p.consts[o.2.2]? = some (.regexp o.2.1)

theorem constKeyEq_exact {w v : Val} (h : constKeyEq w v = true) :
    (isFloatVal v = false → w = v) ∧ (isFloatVal v = true → isFloatVal w = true) := by
  cases w <;> cases v <;> simp_all [constKeyEq, isFloatVal]

theorem mkConst_spec {F : Val → Prop} {v : Val} {p p' : Pool} {k : Nat} (hF : AliasFree F) (hinv : PoolInv F p)
    (hv : isFloatVal v = true → F v) (h : mkConst v p = .ok (k, p')) :
    p'.consts[k]? = some v ∧ PoolExt p p'.consts ∧ PoolInv F p' := by
  unfold mkConst at h
  split at h
  · rename_i i heq
    simp only [Except.ok.injEq, Prod.mk.injEq] at h
    obtain ⟨rfl, rfl⟩ := h
    refine ⟨?_, PoolExt.refl _, hinv⟩
    split at heq
    · unfold Pool.findIdx at heq
      have hp := List.find?_some heq
      have hm := List.mem_of_find?_eq_some heq
      simp only [List.mem_range] at hm
      rw [Array.getElem?_eq_getElem hm] at hp ⊢
      simp only [Option.getD_some] at hp
      have hx := constKeyEq_exact hp
      cases hfv : isFloatVal v with
      | false => rw [hx.1 hfv]
      | true =>
        have hw : F p.consts[i] := hinv.floats i _ (Array.getElem?_eq_getElem hm) (hx.2 hfv)
        rw [hF _ _ hw (hv hfv) hp]
    · cases heq
  · dsimp only at h
    split at h
    · cases h
    · simp only [Except.ok.injEq, Prod.mk.injEq] at h
      obtain ⟨rfl, rfl⟩ := h
      refine ⟨by simp, ?_, ?_, ?_⟩
      · intro i w hw
        simp only [Array.getElem?_push]
        have : i < p.consts.size := by
          rcases Nat.lt_or_ge i p.consts.size with hlt | hge
          · exact hlt
          · rw [Array.getElem?_eq_none hge] at hw; cases hw
        rw [if_neg (by omega)]; exact hw
      · intro i w hw hfw
        simp only [Array.getElem?_push] at hw
        split at hw
        · cases hw; exact hv hfw
        · exact hinv.floats i w hw hfw
      · intro o ho
        have := hinv.re o ho
        simp only [Array.getElem?_push]
        have hlt : o.2.2 < p.consts.size := by
          rcases Nat.lt_or_ge o.2.2 p.consts.size with hlt | hge
          · exact hlt
          · rw [Array.getElem?_eq_none hge] at this; cases this
        rw [if_neg (by omega)]; exact this

theorem bind_ok {α β ε : Type} {x : Except ε α} {f : α → Except ε β} {b : β} :
    (x >>= f) = .ok b ↔ ∃ a, x = .ok a ∧ f a = .ok b := by
  cases x <;> simp [bind, Except.bind]

theorem mkRegexConst_spec {F : Val → Prop} {owner : Loc} {pat : String} {p p' : Pool} {k : Nat} (hF : AliasFree F)
    (hinv : PoolInv F p) (h : mkRegexConst owner pat p = .ok (k, p')) :
    p'.consts[k]? = some (.regexp pat) ∧ PoolExt p p'.consts ∧ PoolInv F p' := by
  unfold mkRegexConst at h
  split at h
  · rename_i o heq
    simp only [Except.ok.injEq, Prod.mk.injEq] at h
    obtain ⟨rfl, rfl⟩ := h
    have hp := List.find?_some heq
    have hm := List.mem_of_find?_eq_some heq
    simp only [Bool.and_eq_true, beq_iff_eq] at hp
    refine ⟨?_, PoolExt.refl _, hinv⟩
    rw [← hp.2]; exact hinv.re o hm
  · rw [bind_ok] at h
    obtain ⟨⟨k1, p1⟩, h1, h2⟩ := h
    simp only [pure, Except.pure, Except.ok.injEq, Prod.mk.injEq] at h2
    obtain ⟨rfl, rfl⟩ := h2
    obtain ⟨hk, hext, hinv'⟩ := mkConst_spec hF hinv (by simp [isFloatVal]) h1
    refine ⟨hk, hext, ⟨hinv'.floats, ?_⟩⟩
    intro o ho
    simp only [List.mem_cons] at ho
    rcases ho with rfl | ho
    · exact hk
    · exact hinv'.re o ho

/- the float constants of a tree are in `F` -/
mutual
def FloatsIn (F : Val → Prop) : Node → Prop
  | .nil _ | .ident .. | .bool .. | .str .. | .pointer _ => True
  | .int m v => isFloatVal (intConst m.kd v) = true → F (intConst m.kd v)
  | .float _ bits => F (.f64 (Float.ofBits bits))
  | .const _ v => isFloatVal v = true → F v
  | .unary _ _ x => FloatsIn F x
  | .binary _ _ l r => FloatsIn F l ∧ FloatsIn F r
  | .matches _ _ l r => FloatsIn F l ∧ FloatsIn F r
  | .prop _ x _ _ => FloatsIn F x
  | .index _ x i => FloatsIn F x ∧ FloatsIn F i
  | .slice _ x f t => FloatsIn F x ∧ FloatsInO F f ∧ FloatsInO F t
  | .method _ x _ args _ => FloatsIn F x ∧ FloatsInL F args
  | .func _ _ args _ => FloatsInL F args
  | .builtin _ _ args => FloatsInL F args
  | .closure _ x => FloatsIn F x
  | .cond _ c a b => FloatsIn F c ∧ FloatsIn F a ∧ FloatsIn F b
  | .array _ xs => FloatsInL F xs
  | .map _ ps => FloatsInL F ps
  | .pair _ k v => FloatsIn F k ∧ FloatsIn F v
def FloatsInO (F : Val → Prop) : Option Node → Prop
  | none => True
  | some n => FloatsIn F n
def FloatsInL (F : Val → Prop) : List Node → Prop
  | [] => True
  | n :: ns => FloatsIn F n ∧ FloatsInL F ns
end

/- equations of the predicates, by `rfl` -/
theorem FloatsInL_cons (F : Val → Prop) (n : Node) (ns : List Node) : FloatsInL F (n :: ns) = (FloatsIn F n ∧ FloatsInL F ns) := rfl
theorem FloatsInO_some (F : Val → Prop) (n : Node) : FloatsInO F (some n) = FloatsIn F n := rfl

theorem PoolExt.get {p : Pool} {K : Array Val} {k : Nat} {v : Val} (h : PoolExt p K) (hk : p.consts[k]? = some v) :
    K[k]? = some v := h _ _ hk

/-- what `compile_compiles` establishes for one compilation step -/
structure CompOK (F : Val → Prop) (p p' : Pool) (Q : Array Val → Prop) : Prop where
  inv : PoolInv F p'
  ext : PoolExt p p'.consts
  comp : ∀ K, PoolExt p' K → Q K

theorem pure_ok {α ε : Type} {a b : α} : (pure a : Except ε α) = .ok b ↔ a = b := by
  simp [pure, Except.pure]

syntax "comp_simp" "at" ident : tactic
macro_rules
  | `(tactic| comp_simp at $h:ident) =>
    `(tactic| simp only [bind_ok, Prod.exists, pure_ok, Prod.mk.injEq, Except.ok.injEq] at $h:ident)

theorem nofloat_str (F : Val → Prop) (s : String) : isFloatVal (.str s) = true → F (.str s) := by simp [isFloatVal]
theorem nofloat_int (F : Val → Prop) (k : Kind) (n : Int) : isFloatVal (.int k n) = true → F (.int k n) := by simp [isFloatVal]
theorem nofloat_call (F : Val → Prop) (s : String) (n : Nat) : isFloatVal (.call s n) = true → F (.call s n) := by simp [isFloatVal]

end ExprModel.Refine
