import ExprModel.Proofs.WalkThm
/- The position-tracking visitor: a replacement made at any position appears at that position. -/
namespace ExprModel
open Node

theorem walkList_atPath (g : Node → Node) (target cur : List Nat)
    (rec : Node → PathSt → Option (Node × PathSt)) (cs : List Node)
    (hrec : ∀ c ∈ cs, ∀ j, rec c ⟨cur, j⟩ = some (expectAt g target (cur ++ [j]) c, ⟨cur, j + 1⟩)) :
    ∀ j, walkList rec cs ⟨cur, j⟩ =
      some ((cs.zipIdx j).map (fun ci => expectAt g target (cur ++ [ci.2]) ci.1), ⟨cur, j + cs.length⟩) := by
  induction cs with
  | nil => intro j; simp [walkList]
  | cons c cs ih =>
    intro j
    rw [walkList_cons]
    refine ⟨_, _, _, _, hrec c List.mem_cons_self j, ih (fun d hd => hrec d (List.mem_cons_of_mem _ hd)) (j + 1), ?_⟩
    simp [List.zipIdx_cons, Nat.add_assoc, Nat.add_comm 1]

theorem zipIdx_map_modify (h : Node → Node) (cs : List Node) : ∀ (i0 k : Nat),
    (cs.zipIdx k).map (fun ci => if ci.2 = k + i0 then h ci.1 else ci.1) = cs.modify i0 h := by
  induction cs with
  | nil => intro i0 k; simp
  | cons c cs ih =>
    intro i0 k
    cases i0 with
    | zero =>
      simp only [List.zipIdx_cons, List.map_cons, Nat.add_zero, ↓reduceIte, List.modify_zero_cons, List.cons.injEq, true_and]
      have : ∀ ci ∈ cs.zipIdx (k + 1), (if ci.2 = k then h ci.1 else ci.1) = ci.1 := by
        intro ci hci
        have := List.le_snd_of_mem_zipIdx hci
        have hne : ci.2 ≠ k := by omega
        simp [hne]
      rw [List.map_congr_left this]
      simp
    | succ i0 =>
      simp only [List.zipIdx_cons, List.map_cons, List.modify_succ_cons]
      have hk : ¬ k = k + (i0 + 1) := by omega
      simp only [hk, ↓reduceIte, List.cons.injEq, true_and]
      have := ih i0 (k + 1)
      rw [← this]
      apply List.map_congr_left
      intro ci _
      have : k + 1 + i0 = k + (i0 + 1) := by omega
      rw [this]

theorem zipIdx_map_fst (cs : List Node) (k : Nat) : (cs.zipIdx k).map (fun ci => ci.1) = cs := by
  simp

/-- the walk with the position-tracking visitor rewrites exactly the sub-tree at `target` -/
theorem walkU_atPath (g : Node → Node) (target : List Nat) :
    ∀ (f : Nat) (n : Node) (cur : List Nat) (j : Nat), n.height ≤ f →
      walkU (Visitor.atPath target g) f n ⟨cur, j⟩ = some (expectAt g target (cur ++ [j]) n, ⟨cur, j + 1⟩) := by
  intro f
  induction f with
  | zero => intro n cur j h; have := height_pos n; omega
  | succ f ih =>
    intro n cur j h
    rw [walkU_succ]
    have hk : ∀ c ∈ n.children, ∀ i, walkU (Visitor.atPath target g) f c ⟨cur ++ [j], i⟩ =
        some (expectAt g target (cur ++ [j] ++ [i]) c, ⟨cur ++ [j], i + 1⟩) := by
      intro c hc i
      apply ih
      have := height_lt_of_mem_children hc
      omega
    have hl := walkList_atPath g target (cur ++ [j]) (walkU (Visitor.atPath target g) f) n.children hk 0
    have he : (Visitor.atPath target g).enter n ⟨cur, j⟩ = (n, ⟨cur ++ [j], 0⟩) := rfl
    rw [he]
    simp only [hl]
    simp only [Visitor.atPath, List.dropLast_concat, List.getLast?_concat, Option.getD_some, Option.some.injEq,
      Prod.mk.injEq, and_true]
    -- the node itself
    by_cases hp : cur ++ [j] <+: target
    · obtain ⟨rel, hrel⟩ := hp
      cases rel with
      | nil =>
        -- this node is the target: no child position is a prefix of the target
        have ht : cur ++ [j] = target := by simpa using hrel
        have hkids : ∀ ci ∈ n.children.zipIdx 0, expectAt g target (cur ++ [j] ++ [ci.2]) ci.1 = ci.1 := by
          intro ci _
          unfold expectAt
          have : ¬ (cur ++ [j] ++ [ci.2] <+: target) := by
            intro hpre
            have := hpre.length_le
            rw [← ht] at this
            simp at this
          exact if_neg this
        rw [List.map_congr_left hkids, zipIdx_map_fst, withChildren_children]
        simp [ht, expectAt, rewriteAt]
      | cons i0 rel =>
        have hne : cur ++ [j] ≠ target := by
          intro e; rw [← hrel] at e
          have := congrArg List.length e
          simp at this
        have hkids : ∀ ci ∈ n.children.zipIdx 0,
            expectAt g target (cur ++ [j] ++ [ci.2]) ci.1 = if ci.2 = 0 + i0 then rewriteAt g rel ci.1 else ci.1 := by
          intro ci _
          unfold expectAt
          rw [← hrel]
          by_cases hi : ci.2 = i0
          · subst hi
            have : cur ++ [j] ++ [ci.2] <+: cur ++ [j] ++ ci.2 :: rel := by
              rw [List.prefix_append_right_inj]; simp
            rw [if_pos this]
            simp
          · have : ¬ (cur ++ [j] ++ [ci.2] <+: cur ++ [j] ++ i0 :: rel) := by
              rw [List.prefix_append_right_inj]; simp [hi]
            rw [if_neg this]
            simp [hi]
        rw [List.map_congr_left hkids, zipIdx_map_modify]
        have hpre : cur ++ [j] <+: target := ⟨i0 :: rel, hrel⟩
        simp only [hne, ↓reduceIte, expectAt, hpre]
        rw [← hrel]
        simp [rewriteAt]
    · have hne : cur ++ [j] ≠ target := by
        intro e; exact hp (e ▸ List.prefix_refl _)
      have hkids : ∀ ci ∈ n.children.zipIdx 0, expectAt g target (cur ++ [j] ++ [ci.2]) ci.1 = ci.1 := by
        intro ci _
        unfold expectAt
        have : ¬ (cur ++ [j] ++ [ci.2] <+: target) := fun hpre => hp ((List.prefix_append _ _).trans hpre)
        exact if_neg this
      rw [List.map_congr_left hkids, zipIdx_map_fst, withChildren_children]
      simp [hne, expectAt, hp]

/-- **A replacement at any position.**  For every tree `n`, every position `p` and every rewriting `g`:
    the visitor that rewrites on `Exit` the node at position `p` (and nothing else) returns `n` with the
    sub-tree at `p` rewritten — at `p`, and only there. -/
theorem walkU_atPath_root (g : Node → Node) (p : List Nat) (f : Nat) (n : Node) (h : n.height ≤ f) :
    walkU (Visitor.atPath (0 :: p) g) f n ⟨[], 0⟩ = some (rewriteAt g p n, ⟨[], 1⟩) := by
  have := walkU_atPath g (0 :: p) f n [] 0 h
  simpa [expectAt] using this

end ExprModel
