import ExprModel.Proofs.VMStepDefs
/- `step` on the opcodes of `opsD`: counters untouched, never a budget error (part of the split proof of `step_sat`) -/
namespace ExprModel

theorem step_frame_D (c : Cfg) (hw : WorldNB c.world) (p : Prog) (s : VM) (hgrp : OpIn opsD p s) :
    Sat (step c p s) (Frame s) (FrameErr s) := by
  unfold step
  simp only []
  split
  · exact sat_failV ⟨rfl, rfl, rfl⟩ (by decide)
  · rename_i op hop
    have hmem := hgrp _ hop
    split
    frame_group hmem

end ExprModel
