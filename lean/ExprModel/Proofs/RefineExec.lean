import ExprModel.Proofs.RefineBytes
/-
C01 stage 0 (b): the instruction-level reading of `step`.  `execI` is `step`'s dispatch with the operand
fetch replaced by the decoded instruction's operand; `step_at` proves that on a program whose bytes at
`s.ip` encode instruction `i`, `step` *is* `execI i`.
-/
namespace ExprModel.Refine
open ExprModel

def argI (i : Instr) (s : VM) : RV (Nat × VM) := .ok (i.arg, { s with ip := s.ip + 2 })

def constI (cs : Array Val) (i : Instr) (s : VM) : RV (Val × VM) := do
  let (a, s) ← argI i s
  match cs[a]? with
  | some c => pure (c, s)
  | none => .error (.badop, s)

/-- `step` after the opcode byte has been consumed (`s.pp`, `s.ip` already updated), on the decoded instruction -/
def execI (c : Cfg) (cs : Array Val) (i : Instr) (s : VM) : RV VM :=
  match i.op with
  | .push => do let (v, s) ← constI cs i s; pure (s.push v)
  | .pop => do let (_, s) ← s.pop; pure s
  | .rot => do let (a, b, s) ← s.pop2; pure ((s.push b).push a)
  | .fetch => do
    let (k, s) ← constI cs i s
    pure (s.push (← liftR s (fetchV c.env k false)))
  | .fetchNilSafe => do
    let (k, s) ← constI cs i s
    pure (s.push (← liftR s (fetchV c.env k true)))
  | .fetchMap => do
    let (k, s) ← constI cs i s
    match c.env, k with
    | .map kvs, .str name => pure (s.push ((lookupKv name kvs).getD .nil))
    | _, _ => failV .type_ s
  | .true_ => pure (s.push (.bool true))
  | .false_ => pure (s.push (.bool false))
  | .nil_ => pure (s.push .nil)
  | .negate => do let (v, s) ← s.pop; pure (s.push (← liftR s (negV v)))
  | .not_ => do let (v, s) ← s.pop; pure (s.push (← liftR s (notV v)))
  | .equal => do let (a, b, s) ← s.pop2; pure (s.push (.bool (equalV a b)))
  | .equalInt => do
    let (a, b, s) ← s.pop2
    match a, b with
    | .int .int x, .int .int y => pure (s.push (.bool (x == y)))
    | _, _ => failV .type_ s
  | .equalString => do
    let (a, b, s) ← s.pop2
    match a, b with
    | .str x, .str y => pure (s.push (.bool (x == y)))
    | _, _ => failV .type_ s
  | .jump => do let (o, s) ← argI i s; pure { s with ip := s.ip + o }
  | .jumpIfTrue => do
    let (o, s) ← argI i s
    match ← s.current with
    | .bool true => pure { s with ip := s.ip + o }
    | .bool false => pure s
    | _ => failV .type_ s
  | .jumpIfFalse => do
    let (o, s) ← argI i s
    match ← s.current with
    | .bool false => pure { s with ip := s.ip + o }
    | .bool true => pure s
    | _ => failV .type_ s
  | .jumpBackward => do
    let (o, s) ← argI i s
    if o ≤ s.ip then pure { s with ip := s.ip - o } else failV .badop s
  | .in_ => do let (a, b, s) ← s.pop2; pure (s.push (.bool (← liftR s (inV a b))))
  | .less | .more | .lessOrEqual | .moreOrEqual | .add | .subtract | .multiply | .divide | .modulo => do
    let (a, b, s) ← s.pop2
    match binOpOf i.op with
    | some h => pure (s.push (← liftR s (binHelper h a b)))
    | none => failV .badop s
  | .exponent => do
    let (a, b, s) ← s.pop2
    match toFloat64Val a, toFloat64Val b with
    | some x, some y => pure (s.push (.f64 (c.world.pow x y)))
    | _, _ => failV .type_ s
  | .range => do
    let (a, b, s) ← s.pop2
    let lo ← liftR s (toIntR a)
    let hi ← liftR s (toIntR b)
    let size : Int := hi - lo + 1
    let counted : Int := if c.defects.rangeSizeSigned then size else (if size < 0 then 0 else size)
    if s.memory + counted ≥ s.limit then failV .budget s
    else
      let elems := rangeElems lo hi
      pure { (s.push (.arr (.num .int) elems)) with memory := s.memory + counted, created := s.created + elems.length }
  | .matches_ => do
    let (a, b, s) ← s.pop2
    match a, b with
    | .str subj, .str pat =>
      match c.world.regexMatch pat subj with
      | some r => pure (s.push (.bool r))
      | none => failV .type_ s
    | _, _ => failV .type_ s
  | .matchesConst => do
    let (a, s) ← s.pop
    let (r, s) ← constI cs i s
    match a, r with
    | .str subj, .regexp pat =>
      match c.world.regexMatch pat subj with
      | some m => pure (s.push (.bool m))
      | none => failV .type_ s
    | _, _ => failV .type_ s
  | .contains => do let (a, b, s) ← s.pop2; pure (s.push (← liftR s (strOp strContains a b)))
  | .startsWith => do let (a, b, s) ← s.pop2; pure (s.push (← liftR s (strOp strHasPrefix a b)))
  | .endsWith => do let (a, b, s) ← s.pop2; pure (s.push (← liftR s (strOp strHasSuffix a b)))
  | .index => do let (a, b, s) ← s.pop2; pure (s.push (← liftR s (fetchV a b false)))
  | .slice => do
    let (fromV, s) ← s.pop
    let (toV, s) ← s.pop
    let (node, s) ← s.pop
    pure (s.push (← liftR s (sliceV node fromV toV)))
  | .property => do
    let (a, s) ← s.pop
    let (k, s) ← constI cs i s
    pure (s.push (← liftR s (fetchV a k false)))
  | .propertyNilSafe => do
    let (a, s) ← s.pop
    let (k, s) ← constI cs i s
    pure (s.push (← liftR s (fetchV a k true)))
  | .call | .callFast => do
    let (cv, s) ← constI cs i s
    match cv with
    | .call name size =>
      let (args, s) ← VM.popN size s []
      let r := callMember c.world c.env name args
      let s := if callHappened r then { s with log := (name, args) :: s.log } else s
      pure (s.push (← liftR s r))
    | _ => failV .type_ s
  | .method | .methodNilSafe => do
    let (cv, s) ← constI cs i s
    match cv with
    | .call name size =>
      let (args, s) ← VM.popN size s []
      let (obj, s) ← s.pop
      if i.op == .methodNilSafe && obj.isNilLike then pure (s.push .nil)
      else
        let r := callMember c.world obj name args
        let s := if callHappened r then { s with log := (name, args) :: s.log } else s
        pure (s.push (← liftR s r))
    | _ => failV .type_ s
  | .array => do
    let (n, s) ← s.pop
    match n with
    | .int .int size =>
      if size < 0 then failV .index s else
      let (elems, s) ← VM.popN size.toNat s []
      let s := { (s.push (.arr .iface elems)) with memory := s.memory + size, created := s.created + elems.length }
      if s.memory ≥ s.limit then failV .budget s else pure s
    | _ => failV .type_ s
  | .map => do
    let (n, s) ← s.pop
    match n with
    | .int .int size =>
      if size < 0 then failV .index s else
      let (flat, s) ← VM.popN (2 * size.toNat) s []
      let m ← liftR s (buildMap flat)
      let s := { (s.push (.map m)) with memory := s.memory + size, created := s.created + size.toNat }
      if s.memory ≥ s.limit then failV .budget s else pure s
    | _ => failV .type_ s
  | .len => do
    let v ← s.current
    pure (s.push (.int .int (← liftR s (lengthV v))))
  | .cast => do
    let (t, s) ← argI i s
    if t == 0 || t == 1 then do
      let (v, s) ← s.pop
      pure (s.push (← liftR s (castV t v)))
    else pure s
  | .store => do
    let (k, s) ← constI cs i s
    let key ← liftR s (constStr k)
    let (v, s) ← s.pop
    match s.scopes with
    | sc :: rest => pure { s with scopes := scopeSet key v sc :: rest }
    | [] => failV .underflow s
  | .load => do
    let (k, s) ← constI cs i s
    let key ← liftR s (constStr k)
    match s.scopes with
    | sc :: _ => pure (s.push ((lookupKv key sc).getD .nil))
    | [] => pure (s.push .nil)
  | .inc => do
    let (k, s) ← constI cs i s
    let key ← liftR s (constStr k)
    match s.scopes with
    | sc :: rest =>
      match lookupKv key sc with
      | some (.int .int i) => pure { s with scopes := scopeSet key (.int .int (wrap .int (i + 1))) sc :: rest }
      | _ => failV .type_ s
    | [] => failV .type_ s
  | .begin_ => pure { s with scopes := [] :: s.scopes }
  | .end_ =>
    match s.scopes with
    | _ :: rest => pure { s with scopes := rest }
    | [] => failV .underflow s

theorem readArg_at {P : Prog} {k : Nat} {i : Instr} (h : BytesAt P k i) (ha : i.op.hasArg = true)
    (s : VM) (hs : s.ip = k + 1) : readArg P s = argI i s := by
  unfold readArg argI
  rw [hs, h.lo ha, show k + 1 + 1 = k + 2 from rfl, h.hi ha]
  simp only [arg_recompose _ h.fits]

theorem readConst_at {P : Prog} {k : Nat} {i : Instr} (h : BytesAt P k i) (ha : i.op.hasArg = true)
    (s : VM) (hs : s.ip = k + 1) : readConst P s = constI P.consts i s := by
  unfold readConst constI
  rw [readArg_at h ha s hs]
  rfl

theorem step_at {c : Cfg} {P : Prog} {k : Nat} {i : Instr} (h : BytesAt P k i) (s : VM) (hs : s.ip = k) :
    step c P s = execI c P.consts i { s with pp := k, ip := k + 1 } := by
  obtain ⟨op, arg⟩ := i
  have hop := h.op
  obtain ⟨st, scs, ip, pp, mem, lim, cr, lg⟩ := s
  simp only at hs hop
  subst hs
  unfold step execI
  simp only [hop, Option.getD_some, Op.ofCode_code]
  cases op
  all_goals simp only []
  all_goals first
    | rfl
    | (rw [readConst_at h rfl _ rfl]; done)
    | (rw [readArg_at h rfl _ rfl]; done)
    | (rw [readConst_at h rfl _ rfl]; rfl)
    | (rw [readArg_at h rfl _ rfl]; rfl)
    | (cases st
       · rfl
       · simp only [VM.pop, bind, Except.bind]; rw [readConst_at h rfl _ rfl])
    | skip
  cases st
  · rfl
  · simp only [VM.pop, bind, Except.bind]
    rw [readConst_at h rfl _ rfl]
    rfl

end ExprModel.Refine
