import ExprModel.Proofs.RefineLoopAll
/-
C01/C05: the language definition never fails with one of the VM's *internal* classes (`underflow`: pop of an
empty stack / missing scope; `badop`: malformed program; `fuel`), on trees that compile and are well-formed —
so, by refinement, neither does a run of a compiled program (`no_underflow` in Props/C01).
-/
set_option linter.unusedVariables false
set_option linter.unusedSimpArgs false
namespace ExprModel.Refine
open ExprModel
open ExprModel.Spec

/-- failure classes of the language itself -/
def Benign (e : ErrClass) : Prop := e = .type_ ∨ e = .index ∨ e = .divzero ∨ e = .budget ∨ e = .call

def RBenign {α : Type} (r : R α) : Prop := ∀ e, r = .error e → Benign e

def SMBenign {α : Type} (m : SM α) : Prop := ∀ σ e σ', m σ = (.error e, σ') → Benign e

theorem SMBenign.bind {α β : Type} {m : SM α} {f : α → SM β} (hm : SMBenign m) (hf : ∀ a, SMBenign (f a)) :
    SMBenign (m >>= f) := by
  intro σ e σ' h
  rcases SM.bind_cases h with ⟨e', hme, he⟩ | ⟨a, σ1, _, hfa⟩
  · cases he; exact hm _ _ _ hme
  · exact hf a _ _ _ hfa

theorem SMBenign.pure {α : Type} (a : α) : SMBenign (pure a : SM α) := by
  intro σ e σ' h; rw [SM.pure_apply] at h; cases h

theorem SMBenign.lift {α : Type} {r : R α} (h : RBenign r) : SMBenign (SM.lift r) := by
  intro σ e σ' he; rw [SM.lift_apply] at he
  obtain ⟨h1, _⟩ := Prod.mk.inj he
  exact h e h1

theorem SMBenign.fail_type {α : Type} : SMBenign (SM.fail .type_ : SM α) := by
  intro σ e σ' h; rw [SM.fail_apply] at h
  obtain ⟨h1, _⟩ := Prod.mk.inj h
  cases h1; exact .inl rfl

theorem SMBenign.ite {α : Type} {c : Prop} [Decidable c] {a b : SM α} (ha : SMBenign a) (hb : SMBenign b) :
    SMBenign (if c then a else b) := by
  split <;> assumption

theorem asBool_benign (v : Val) : SMBenign (asBool v) := by
  cases v <;> first | exact SMBenign.pure _ | exact SMBenign.fail_type

/-! ### the run-time library -/

/-- closes `h : <constructor> = .error e ⊢ Benign e` -/
macro "close_err" h:ident : tactic =>
  `(tactic| first | (cases $h:ident; done)
                  | (cases $h:ident; first | exact .inl rfl | exact .inr (.inl rfl) | exact .inr (.inr (.inl rfl))))

theorem toIntR_benign (v : Val) : RBenign (toIntR v) := by
  intro e h; unfold toIntR at h; split at h <;> close_err h

theorem fetchV_benign (a i : Val) (ns : Bool) : RBenign (fetchV a i ns) := by
  intro e h
  have ht := toIntR_benign i
  unfold fetchV at h
  repeat' split at h
  all_goals first
    | (cases h; done)
    | (cases h; first | exact .inl rfl | exact .inr (.inl rfl))
    | (rename_i h1; exact ht _ (h1 ▸ rfl))
    | skip
  all_goals
    dsimp only at h
    first
      | (cases h; exact ht _ (by assumption))
      | (split at h <;> cases h; first | exact .inr (.inl rfl) | exact .inl rfl)

theorem notV_benign (v : Val) : RBenign (notV v) := by
  intro e h; cases v <;> simp only [notV] at h <;> close_err h

theorem negV_benign (v : Val) : RBenign (negV v) := by
  intro e h; unfold negV at h; split at h <;> close_err h

theorem lengthV_benign (v : Val) : RBenign (lengthV v) := by
  intro e h; cases v <;> simp only [lengthV] at h <;> close_err h

theorem strOp_benign (f : String → String → Bool) (a b : Val) : RBenign (strOp f a b) := by
  intro e h; unfold strOp at h; split at h <;> close_err h

theorem binHelper_benign (hlp : Helper) (a b : Val) : RBenign (binHelper hlp a b) := by
  intro e h; unfold binHelper at h
  split at h
  · cases h
  · cases h; exact .inr (.inr (.inl rfl))
  · cases h; exact .inl rfl

theorem inV_benign (a b : Val) : RBenign ((inV a b).map Val.bool) := by
  intro e h
  have : inV a b = .error e := by
    cases hi : inV a b with
    | ok v => rw [hi] at h; cases h
    | error e' => rw [hi] at h; cases h; rfl
  unfold inV at this
  repeat' split at this
  all_goals first | (cases this; done) | (cases this; exact .inl rfl)

theorem sliceV_benign (a f t : Val) : RBenign (sliceV a f t) := by
  intro e h
  have hf := toIntR_benign f
  have ht := toIntR_benign t
  unfold sliceV at h
  repeat' split at h
  all_goals first
    | (cases h; done)
    | (cases h; first | exact .inl rfl | exact .inr (.inl rfl))
    | (cases h; first | exact hf _ (by assumption) | exact ht _ (by assumption))
    | (dsimp only at h
       first
        | (cases h; first | exact hf _ (by assumption) | exact ht _ (by assumption))
        | (repeat' split at h
           all_goals first | (cases h; done) | (cases h; first | exact .inl rfl | exact .inr (.inl rfl))))

theorem eqIntR_benign (a b : Val) : RBenign (eqIntR a b) := by
  intro e h; unfold eqIntR at h; split at h <;> close_err h
theorem eqStrR_benign (a b : Val) : RBenign (eqStrR a b) := by
  intro e h; unfold eqStrR at h; split at h <;> close_err h
theorem powR_benign (w : World) (a b : Val) : RBenign (powR w a b) := by
  intro e h; unfold powR at h; split at h <;> close_err h
theorem matchR_benign (w : World) (a b : Val) : RBenign (matchR w a b) := by
  intro e h; unfold matchR at h
  split at h
  · split at h <;> close_err h
  · close_err h

theorem castV_benign (t : Nat) (v : Val) : RBenign (castV t v) := by
  intro e h; unfold castV at h
  repeat' split at h
  all_goals first | (cases h; done) | (cases h; exact .inl rfl)

/-- environment functions fail with the language's own classes only (a panic inside one is `call`) -/
def WorldOK (w : World) : Prop := ∀ id args, RBenign (w.call id args)

theorem callMember_benign {w : World} (hw : WorldOK w) (obj : Val) (name : String) (args : List Val) :
    RBenign (callMember w obj name args) := by
  intro e h; unfold callMember at h
  dsimp only at h
  repeat' split at h
  all_goals first | close_err h | exact hw _ _ _ h
                  | (dsimp only at h
                     repeat' split at h
                     all_goals first | close_err h | exact hw _ _ _ h)

theorem buildMap_benign : ∀ (flat : List Val), flat.length % 2 = 0 → RBenign (buildMap flat)
  | [], _ => by intro e h; cases h
  | [_], hl => by simp at hl
  | k :: v :: rest, hl => by
    intro e h
    have ih := buildMap_benign rest (by simp at hl ⊢; omega)
    simp only [buildMap, bind, Except.bind] at h
    split at h
    · cases h; exact ih _ (by assumption)
    · split at h <;> close_err h

theorem inVr_benign (a b : Val) : RBenign (inV a b) := by
  intro e h
  exact inV_benign a b e (by rw [h]; rfl)

/-! ### the monadic pieces of `Spec.eval` -/

theorem allocAfter_benign (lim counted : Int) (built : Nat) : SMBenign (SM.allocAfter lim counted built) := by
  intro σ e σ' h
  unfold SM.allocAfter at h
  dsimp only at h
  split at h
  · obtain ⟨h1, _⟩ := Prod.mk.inj h; cases h1; exact .inr (.inr (.inr (.inl rfl)))
  · obtain ⟨h1, _⟩ := Prod.mk.inj h; cases h1

theorem of_apply {α : Type} {m : SM α} {g : SState → R α × SState} (h : ∀ σ, m σ = g σ)
    (hg : ∀ σ e σ', g σ = (.error e, σ') → Benign e) : SMBenign m :=
  fun σ e σ' he => hg σ e σ' (by rw [← h]; exact he)

theorem rangeR_benign (signed : Bool) (lim : Int) (x y : Val) (σ : SState) (e : ErrClass) (σ' : SState)
    (h : rangeR signed lim x y σ = (.error e, σ')) : Benign e := by
  unfold rangeR at h
  cases hx : toIntR x with
  | error e1 => rw [hx] at h; obtain ⟨h1, _⟩ := Prod.mk.inj h; cases h1; exact toIntR_benign x _ hx
  | ok lo =>
    rw [hx] at h
    cases hy : toIntR y with
    | error e1 => rw [hy] at h; obtain ⟨h1, _⟩ := Prod.mk.inj h; cases h1; exact toIntR_benign y _ hy
    | ok hi =>
      rw [hy] at h
      simp only at h
      generalize (if signed = true then hi - lo + 1 else if hi - lo + 1 < 0 then 0 else hi - lo + 1) = counted at h
      by_cases hb : σ.memory + counted ≥ lim
      · rw [if_pos hb] at h
        obtain ⟨h1, _⟩ := Prod.mk.inj h; cases h1; exact .inr (.inr (.inr (.inl rfl)))
      · rw [if_neg hb] at h
        obtain ⟨h1, _⟩ := Prod.mk.inj h; cases h1

theorem loopIdx_benign {α : Type} {fb : Nat → α → SM (α ⊕ Val)} (h : ∀ i acc, SMBenign (fb i acc)) :
    ∀ (fuel i : Nat) (acc : α), SMBenign (loopIdx fb fuel i acc)
  | 0, i, acc => by rw [loopIdx]; exact SMBenign.pure _
  | fuel + 1, i, acc => by
    rw [loopIdx]
    refine SMBenign.bind (h i acc) (fun x => ?_)
    cases x with
    | inl acc' => exact loopIdx_benign h fuel (i + 1) acc'
    | inr v => exact SMBenign.pure _

theorem epiOf_benign {α : Type} {fin : α → SM Val} (h : ∀ acc, SMBenign (fin acc)) (r : α ⊕ Val) :
    SMBenign (epiOf fin r) := by
  cases r with
  | inl acc => exact h acc
  | inr v => exact SMBenign.pure _

theorem binTail_benign (sc : SCfg) {op : String} {ops : List Op} (l r : Node) (h : binSimpleOp op = some ops) (a b : Val) :
    SMBenign (binTail sc op l r a b) := by
  unfold binSimpleOp at h
  split at h <;> first | (cases h; done) | skip
  · rw [binTail_ne]; exact SMBenign.pure _
  · rw [binTail_in]; exact SMBenign.bind (SMBenign.lift (inVr_benign a b)) (fun _ => SMBenign.pure _)
  · rw [binTail_notin]; exact SMBenign.bind (SMBenign.lift (inVr_benign a b)) (fun _ => SMBenign.pure _)
  · exact SMBenign.lift (binHelper_benign .less a b)
  · exact SMBenign.lift (binHelper_benign .more a b)
  · exact SMBenign.lift (binHelper_benign .lessOrEqual a b)
  · exact SMBenign.lift (binHelper_benign .moreOrEqual a b)
  · exact SMBenign.lift (binHelper_benign .add a b)
  · exact SMBenign.lift (binHelper_benign .subtract a b)
  · exact SMBenign.lift (binHelper_benign .multiply a b)
  · exact SMBenign.lift (binHelper_benign .divide a b)
  · exact SMBenign.lift (binHelper_benign .modulo a b)
  · rw [binTail_pow]; exact SMBenign.lift (powR_benign _ a b)
  · exact SMBenign.lift (strOp_benign _ a b)
  · exact SMBenign.lift (strOp_benign _ a b)
  · exact SMBenign.lift (strOp_benign _ a b)
  · exact of_apply (binTail_range sc l r a b) (rangeR_benign _ _ a b)

theorem binTail_eq_benign (sc : SCfg) (l r : Node) (a b : Val) : SMBenign (binTail sc "==" l r a b) := by
  rw [binTail_eq]
  exact SMBenign.ite (SMBenign.lift (eqIntR_benign a b))
    (SMBenign.ite (SMBenign.lift (eqStrR_benign a b)) (SMBenign.pure _))

end ExprModel.Refine
