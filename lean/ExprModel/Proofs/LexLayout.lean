import ExprModel.Proofs.LexLoop
/-
Completeness of the lexer for laid-out token lists (C11 at the text level): if every token is written in a
spelling that the lexer reads back whatever follows (`Spells`, with a condition on the following text that
excludes fusing), then the text "gap, spelling, gap, spelling, …, trailing white space" lexes to exactly these
tokens (kinds and values; the locations are those of the spellings) followed by EOF.
-/
namespace ExprModel.Lex

/-- `raw` is a spelling of the token `(k, v)`: at a fresh lexer state in front of `raw ++ rest`, one `root`
step emits that token at the current location and leaves `rest`, provided `ok rest` (nothing fuses) -/
def Spells (cc : CharClass) (k : TokKind) (v : String) (raw : List Char) (ok : List Char → Prop) : Prop :=
  raw ≠ [] ∧ ∀ (s : LState) (L : Loc) (rest : List Char), Fresh s L (raw ++ rest) → ok rest →
    ∃ s1, root cc LexTables.std s (raw ++ rest) = .tok ⟨k, v, L⟩ s1 rest ∧ Fresh s1 (advLoc L raw) rest

/-- it is enough to compute kind, value and the remaining input: location and state follow from `root_spec` -/
theorem spells_of_root {cc : CharClass} {k : TokKind} {v : String} {raw : List Char} {ok : List Char → Prop}
    (hne : raw ≠ [])
    (h : ∀ (s : LState) (L : Loc) (rest : List Char), Fresh s L (raw ++ rest) → ok rest →
      ∃ t s1, root cc LexTables.std s (raw ++ rest) = .tok t s1 rest ∧ t.kind = k ∧ t.value = v) :
    Spells cc k v raw ok := by
  refine ⟨hne, fun s L rest hf hok => ?_⟩
  obtain ⟨t, s1, hr, hk, hv⟩ := h s L rest hf hok
  have hs := root_spec cc s L (raw ++ rest) hf
  rw [hr] at hs
  obtain ⟨raw', _, e, _, hl, _, _, hfr⟩ := hs
  have : raw' = raw := List.append_cancel_right e.symm
  subst this
  refine ⟨s1, ?_, hfr⟩
  rw [hr]
  cases t
  simp only at hk hv hl
  subst hk hv hl
  rfl

/-- one laid-out token: the white space before it, its spelling, and what it is -/
structure Item where
  gap : List Char
  raw : List Char
  kind : TokKind
  value : String

/-- the text of a laid-out token list followed by trailing white space -/
def renderItems : List Item → List Char → List Char
  | [], trail => trail
  | it :: rest, trail => it.gap ++ (it.raw ++ renderItems rest trail)

/-- every gap is white space, every spelling is read back given what follows it -/
def ItemsOK (cc : CharClass) (ok : Item → List Char → Prop) : List Item → List Char → Prop
  | [], trail => ∀ c ∈ trail, cc.isSpace c = true
  | it :: rest, trail =>
    (∀ c ∈ it.gap, cc.isSpace c = true) ∧ Spells cc it.kind it.value it.raw (ok it) ∧
    ok it (renderItems rest trail) ∧ ItemsOK cc ok rest trail

theorem root_space {cc : CharClass} {c : Char} (hc : cc.isSpace c = true) (s : LState) (cs : List Char) :
    root cc LexTables.std s (c :: cs) = .skip (s.adv c).ignore cs := by
  simp [root, hc]

/-- skipping a gap -/
theorem lexLoop_gap (cc : CharClass) : ∀ (gap : List Char), (∀ c ∈ gap, cc.isSpace c = true) →
    ∀ (s : LState) (L : Loc) (rest : List Char) (fuel : Nat), Fresh s L (gap ++ rest) →
    ∃ s', Fresh s' (advLoc L gap) rest ∧
      lexLoop cc LexTables.std (fuel + gap.length) s (gap ++ rest) = lexLoop cc LexTables.std fuel s' rest
  | [], _, s, L, rest, fuel, hf => ⟨s, by simpa using hf, rfl⟩
  | c :: gap, hg, s, L, rest, fuel, hf => by
    have hc : cc.isSpace c = true := hg c (by simp)
    have hs := root_spec cc s L (c :: (gap ++ rest)) hf
    rw [root_space hc] at hs
    obtain ⟨c', e, _, hfr⟩ := hs
    have hcc : c' = c := by simpa using (List.cons.inj e).1.symm
    subst hcc
    obtain ⟨s', hf', hl⟩ := lexLoop_gap cc gap (fun x hx => hg x (by simp [hx])) _ _ rest fuel hfr
    refine ⟨s', by simpa [advLoc] using hf', ?_⟩
    have : fuel + (c' :: gap).length = (fuel + gap.length) + 1 := by simp; omega
    rw [this]
    simp only [List.cons_append, lexLoop, root_space hc]
    exact hl

/-- **Laid-out token lists lex to their tokens.** -/
theorem lexLoop_items (cc : CharClass) (ok : Item → List Char → Prop) :
    ∀ (items : List Item) (trail : List Char), ItemsOK cc ok items trail →
    ∀ (s : LState) (L : Loc) (fuel : Nat), Fresh s L (renderItems items trail) →
      (renderItems items trail).length + 1 ≤ fuel →
      ∃ toks, lexLoop cc LexTables.std fuel s (renderItems items trail) = .ok toks ∧
        toks.map (fun t => (t.kind, t.value)) = items.map (fun it => (it.kind, it.value)) ++ [(TokKind.eof, "")]
  | [], trail, hok, s, L, fuel, hf, hfuel => by
    simp only [renderItems] at hf hfuel ⊢
    obtain ⟨f0, rfl⟩ : ∃ f0, fuel = (f0 + 1) + trail.length := ⟨fuel - trail.length - 1, by omega⟩
    obtain ⟨s', _, hl⟩ := lexLoop_gap cc trail hok s L [] (f0 + 1) (by simpa using hf)
    simp only [List.append_nil] at hl
    rw [hl]
    exact ⟨[{ kind := .eof, value := "", loc := s'.prev }], by simp [lexLoop, root], by simp⟩
  | it :: rest, trail, hok, s, L, fuel, hf, hfuel => by
    obtain ⟨hgap, hsp, hokr, hrest⟩ := hok
    simp only [renderItems, List.length_append] at hf hfuel ⊢
    obtain ⟨f0, rfl⟩ : ∃ f0, fuel = (f0 + 1) + it.gap.length := ⟨fuel - it.gap.length - 1, by omega⟩
    obtain ⟨s', hf', hl⟩ := lexLoop_gap cc it.gap hgap s L (it.raw ++ renderItems rest trail) (f0 + 1) hf
    rw [hl]
    obtain ⟨s1, hr, hf1⟩ := hsp.2 s' _ _ hf' hokr
    have hrawlen : 1 ≤ it.raw.length := by
      cases h : it.raw with
      | nil => exact absurd h hsp.1
      | cons _ _ => simp
    obtain ⟨toks, ht, hm⟩ := lexLoop_items cc ok rest trail hrest s1 _ f0 hf1 (by omega)
    refine ⟨{ kind := it.kind, value := it.value, loc := advLoc L it.gap } :: toks, ?_, ?_⟩
    · simp only [lexLoop, hr, ht, Except.map]
    · simp [hm]

end ExprModel.Lex
