import ExprModel.Proofs.LexLayoutToks4
import ExprModel.Proofs.LexLayoutFloat
import ExprModel.Proofs.ParserLocHom
import ExprModel.Proofs.ParsePrintTop
import ExprModel.Proofs.ParserFuel
import ExprModel.Proofs.ParserMono
/-
C11 at the text level: lexing a laid-out printing of a canonical tree and parsing the tokens gives the
tree back, up to locations — whatever white space is used, as long as no two tokens fuse.
-/
namespace ExprModel.Parser
open ExprModel.Lex

theorem noLocs_of_kv {a b : List Token}
    (h : a.map (fun t => (t.kind, t.value)) = b.map (fun t => (t.kind, t.value))) : noLocs a = noLocs b := by
  induction a generalizing b with
  | nil => cases b with
    | nil => rfl
    | cons _ _ => simp at h
  | cons x xs ih =>
    cases b with
    | nil => simp at h
    | cons y ys =>
      simp only [List.map_cons, List.cons.injEq, Prod.mk.injEq] at h
      simp only [noLocs, List.map_cons, List.cons.injEq]
      refine ⟨?_, ih h.2⟩
      cases x; cases y
      simp only [Token.noLoc] at h ⊢
      obtain ⟨⟨rfl, rfl⟩, _⟩ := h
      rfl

variable (cfg : Cfg) (sh : NumShow)

/-- the fuel-free round trip (as in Props/C11, stated here for the proof files) -/
theorem parse_printEof (hy : Hyp cfg sh) (t : Node) (hc : canon cfg 0 t = true) (pc : ParenChoice) (l : Loc) :
    parse cfg (printEof cfg sh pc l t) = .ok t := by
  obtain ⟨f0, h⟩ := parse_print_fuel cfg sh pc hy t hc l
  have hsuf := parseFuel_sufficient cfg (printEof cfg sh pc l t)
  have hm := parseFuel_mono cfg (Nat.le_max_right f0 (fuelFor (printEof cfg sh pc l t))) _ hsuf
  rw [h _ (Nat.le_max_left _ _)] at hm
  unfold parse
  rw [← hm]

/-- **White space never changes the tree.**  Take the printing of a canonical tree `t` (any redundant
    parentheses), write every token in a spelling the lexer reads back (`Spells`: see Proofs/LexLayoutToks*
    for identifiers, integers, strings, every operator and bracket) and put any white space between the
    tokens, subject only to the conditions `ok` under which neighbouring spellings do not fuse (`ItemsOK`).
    Then the lexer model returns the same tokens up to locations, and the parser the same tree up to
    locations. -/
theorem lex_parse_layout (hy : Hyp cfg sh) (t : Node) (hc : canon cfg 0 t = true) (pc : ParenChoice)
    (cc : CharClass) (ok : Item → List Char → Prop) (items : List Item) (trail : List Char)
    (hitems : items.map (fun it => (it.kind, it.value)) =
      (pr cfg sh pc [] 0 (eofAt {}) t).map (fun t => (t.kind, t.value)))
    (hok : ItemsOK cc ok items trail) :
    ∃ toks t', lex cc LexTables.std (String.ofList (renderItems items trail)) = .ok toks ∧
      noLocs toks = noLocs (printEof cfg sh pc {} t) ∧
      parse cfg toks = .ok t' ∧ t'.eraseLoc = t.eraseLoc := by
  obtain ⟨toks, hlex, hkv⟩ := lexLoop_items cc ok items trail hok {} ⟨1, 0⟩ _ (fresh_init _) (Nat.le_refl _)
  have hno : noLocs toks = noLocs (printEof cfg sh pc {} t) := by
    apply noLocs_of_kv
    rw [hkv, hitems]
    simp [printEof, eofAt]
  obtain ⟨t', hp, he⟩ := parse_same_text cfg hno.symm (parse_printEof cfg sh hy t hc pc {})
  refine ⟨toks, t', ?_, hno, hp, he⟩
  simp only [lex, lexChars, String.toList_ofList]
  exact hlex

end ExprModel.Parser
