import ExprModel.Proofs.ParsePrintAll
/-
Round trip, top level: `parseFuel (print t ++ [EOF]) = t`, and the table conditions as decidable checks.
-/
namespace ExprModel.Parser

theorem mem_of_lookup {β : Type} : ∀ (l : List (String × β)) (k : String) (v : β),
    l.lookup k = some v → (k, v) ∈ l
  | [], _, _, h => by cases h
  | (k', v') :: rest, k, v, h => by
    rw [List.lookup] at h
    split at h
    · next heq =>
      have : k = k' := by simpa using heq
      cases h; subst this; simp
    · exact List.mem_cons_of_mem _ (mem_of_lookup rest k v h)

/-- the table conditions as a Boolean check -/
def tbCheck (tb : Tables) : Bool :=
  tb.binary.all (fun x => tb.binary.all (fun y => !(x.2.1 == y.2.1) || x.2.2 == y.2.2)) &&
  tb.unary.all (fun x => decide (0 < x.2.1)) &&
  tb.binary.all (fun x => decide (0 < x.2.1)) &&
  tb.binary.all (fun x => x.1 != "." && x.1 != "?." && x.1 != "[" && x.1 != "(" && x.1 != "?") &&
  tb.unary.all (fun x => x.1 != "#" && x.1 != "." && x.1 != ":" && x.1 != ",") &&
  tb.builtins.all (fun x => !reserved x.1) &&
  (tb.binary.lookup "?").isNone && (tb.binary.lookup ":").isNone && (tb.binary.lookup ",").isNone

theorem tbOK_of_check {tb : Tables} (h : tbCheck tb = true) : TbOK tb := by
  simp only [tbCheck, Bool.and_eq_true, List.all_eq_true, Bool.or_eq_true, Bool.not_eq_true',
    beq_eq_false_iff_ne, beq_iff_eq, decide_eq_true_eq, bne_iff_ne, ne_eq, Option.isNone_iff_eq_none] at h
  obtain ⟨⟨⟨⟨⟨⟨⟨⟨h1, h2⟩, h3⟩, h4⟩, h5⟩, h6⟩, h7⟩, h8⟩, h9⟩ := h
  refine ⟨?_, ?_, ?_, ?_, ?_, ?_, h7, h8, h9⟩
  · intro o o' q a a' ho ho'
    have := h1 _ (mem_of_lookup _ _ _ ho) _ (mem_of_lookup _ _ _ ho')
    rcases this with h | h
    · exact absurd rfl h
    · exact h
  · intro o pu a ho; exact h2 _ (mem_of_lookup _ _ _ ho)
  · intro o q a ho; exact h3 _ (mem_of_lookup _ _ _ ho)
  · intro o qa ho
    have := h4 _ (mem_of_lookup _ _ _ ho)
    exact ⟨this.1.1.1.1, this.1.1.1.2, this.1.1.2, this.1.2, this.2⟩
  · intro o x ho
    have := h5 _ (mem_of_lookup _ _ _ ho)
    exact ⟨this.1.1.1, this.1.1.2, this.1.2, this.2⟩
  · intro n ar hn; exact h6 _ (mem_of_lookup _ _ _ hn)

variable (cfg : Cfg) (sh : NumShow) (pc : ParenChoice)

/-- an end-of-input token at any location -/
def eofAt (l : Loc) : Token := { kind := .eof, value := "", loc := l }

/-- the printed text of `t` followed by EOF -/
def printEof (l : Loc) (t : Node) : List Token := pr cfg sh pc [] 0 (eofAt l) t ++ [eofAt l]

theorem parse_print_conv (hy : Hyp cfg sh) (t : Node) (hc : canon cfg 0 t = true) (l : Loc) :
    Conv (fun f => parseExpression cfg f 0 0 (printEof cfg sh pc l t)) (.ok t [eofAt l]) := by
  have hb : binOp cfg (eofAt l) = none := by simp [binOp, eofAt]
  have hq : (eofAt l).is .operator "?" = false := by simp [eofAt, Token.is]
  have hf : FollowTok (eofAt l) := by simp [FollowTok, eofAt]
  exact Good.e cfg sh pc (G_all cfg sh pc hy t) [] 0 0 (eofAt l) [] 0 _ hc (Nat.le_refl _) hf (inv_of_none cfg hb 0)
    (conv_cont_stop cfg (stops_of_none cfg hb hq 0) 0 t [])

theorem parse_print_fuel (hy : Hyp cfg sh) (t : Node) (hc : canon cfg 0 t = true) (l : Loc) :
    ∃ f₀, ∀ f, f₀ ≤ f → parseFuel cfg f (printEof cfg sh pc l t) = .ok t := by
  obtain ⟨f0, h⟩ := parse_print_conv cfg sh pc hy t hc l
  refine ⟨f0, fun f hf => ?_⟩
  unfold parseFuel
  have := h f hf
  simp only at this
  rw [this]
  simp [eofAt]

end ExprModel.Parser
