import ExprModel.Proofs.ParseLayout
/-
C11 at the text level, concretely: a canonical spelling for every printed token (`tokRaw`), the condition on
the following text under which it does not fuse with its neighbour (`tokOk`), and the theorem for layouts
"gap, token, gap, token, …".
-/
namespace ExprModel.Parser
open ExprModel.Lex

/-- the spelling used for a printed token: its value; a string literal in double quotes with every
    character written as a `\U` escape (any other admissible spelling would do: `spells_string`) -/
def tokRaw (t : Token) : List Char :=
  if t.kind = .string then renderLit '"' (t.value.toList.map fun c => (c, Spell.U [])) else t.value.toList

/-- the operators that start with one of `& | ! = * < >` and are a single rune -/
def isDbl1 (v : String) : Bool :=
  match v.toList with
  | [c] => LexTables.std.dblFirst.contains c
  | _ => false

/-- what may follow the spelling of a token without fusing with it -/
def tokOk (cc : CharClass) (t : Token) (rest : List Char) : Prop :=
  match t.kind with
  | .string | .bracket | .eof => True
  | .number => IntFollow cc rest
  | .identifier => ∀ x, rest.head? = some x → cc.isAlphaNumeric x = false
  | .operator =>
    if t.value = "?" then rest.head? ≠ some '.'
    else if t.value = "?." then ∀ c, rest.head? = some c → c ≠ '?' ∧ c ≠ '.'
    else if t.value = "." then ∀ x, rest.head? = some x → x ≠ '.' ∧ LexTables.std.dotDigits.contains x = false
    else if t.value = "not" then NotFollow cc rest
    else if t.value = "not in" then WordEnd cc rest
    else if LexTables.std.kwOps.contains t.value = true then ∀ x, rest.head? = some x → cc.isAlphaNumeric x = false
    else if isDbl1 t.value = true then ∀ x, rest.head? = some x → LexTables.std.dblSecond.contains x = false
    else True

/-- the operator and bracket tokens of the grammar -/
def opValues : List String :=
  ["?", "?.", ".", "..", "not", "not in", "in", "or", "and", "matches", "contains", "startsWith", "endsWith",
   "#", ",", ":", "%", "+", "-", "/", "&&", "||", "==", "!=", "<=", ">=", "**", "<", ">", "*", "!"]
def bracketValues : List String := ["(", ")", "[", "]", "{", "}"]

/-- the tokens that have a proved spelling: every operator and bracket, string literals, numbers written as
    digits (with `_`), optional fraction and optional exponent with at least one digit (C12's `FloatParts`:
    decimal integers and floats), identifiers that are not keywords -/
def Printable (cc : CharClass) (t : Token) : Prop :=
  match t.kind with
  | .string => True
  | .bracket => t.value ∈ bracketValues
  | .operator => t.value ∈ opValues
  | .number => ∃ p : FloatParts, p.WF ∧ p.ExpDigits ∧ t.value.toList = p.text
  | .identifier => ∃ c cs, t.value.toList = c :: cs ∧ IdStart cc c ∧ (∀ x ∈ cs, cc.isAlphaNumeric x = true) ∧
      t.value ≠ "not" ∧ LexTables.std.kwOps.contains t.value = false
  | .eof => False

theorem spells_cast {cc : CharClass} {k : TokKind} {v v' : String} {raw raw' : List Char} {ok ok' : List Char → Prop}
    (h : Spells cc k v raw ok) (hr : raw' = raw) (hv : v' = v) (hok : ∀ r, ok' r → ok r) : Spells cc k v' raw' ok' := by
  subst hr hv
  exact ⟨h.1, fun s L rest hf ho => h.2 s L rest hf (hok rest ho)⟩

theorem tok_spells_op {cc : CharClass} (hcc : cc.AsciiExact) (v : String) (l : Loc) (hv : v ∈ opValues) :
    Spells cc .operator v (tokRaw ⟨.operator, v, l⟩) (tokOk cc ⟨.operator, v, l⟩) := by
  simp only [opValues, List.mem_cons, List.mem_nil_iff, or_false] at hv
  have hraw : ∀ w : String, tokRaw ⟨.operator, w, l⟩ = w.toList := fun w => by simp [tokRaw]
  rw [hraw]
  -- words
  have hw : ∀ (c : Char) (cs : List Char), CharClass.asciiLetter c = true →
      (∀ x ∈ cs, CharClass.asciiLetter x = true) → String.ofList (c :: cs) ≠ "not" →
      LexTables.std.kwOps.contains (String.ofList (c :: cs)) = true → (c :: cs).take 3 ≠ "not".toList →
      Spells cc .operator (String.ofList (c :: cs)) (c :: cs)
        (fun rest => ∀ x, rest.head? = some x → cc.isAlphaNumeric x = false) := by
    intro c cs hc hcs hn hk h3
    have := spells_word (cc := cc) (c := c) (cs := cs) (idStart_ascii hcc (Or.inl hc))
      (fun x hx => alnum_letter hcc (hcs x hx)) hn (Or.inl h3)
    rw [hk] at this
    exact this
  rcases hv with rfl | rfl | rfl | rfl | rfl | rfl | rfl | rfl | rfl | rfl | rfl | rfl | rfl | rfl | rfl | rfl |
    rfl | rfl | rfl | rfl | rfl | rfl | rfl | rfl | rfl | rfl | rfl | rfl | rfl | rfl | rfl
  · exact spells_cast (spells_quest hcc) (by decide) rfl (fun r h => by simpa [tokOk] using h)
  · exact spells_cast (spells_nilsafe hcc) (by decide) rfl (fun r h => by simpa [tokOk] using h)
  · exact spells_cast (spells_dot hcc) (by decide) rfl (fun r h => by simpa [tokOk] using h)
  · exact spells_cast (spells_dotdot hcc) (by decide) rfl (fun r h => trivial)
  · exact spells_cast (spells_not hcc) rfl rfl (fun r h => by simpa [tokOk] using h)
  · exact spells_cast (spells_notin hcc [' '] (by simp) (by simpa using wordBlank_space hcc)
      (by simpa using alnum_space hcc)) (by decide) rfl
      (fun r h => by simpa [tokOk] using h)
  · exact spells_cast (hw 'i' ['n'] (by decide) (by decide) (by decide) (by decide) (by decide)) (by decide) (by decide)
      (fun r h => by simpa [tokOk, LexTables.std] using h)
  · exact spells_cast (hw 'o' ['r'] (by decide) (by decide) (by decide) (by decide) (by decide)) (by decide) (by decide)
      (fun r h => by simpa [tokOk, LexTables.std] using h)
  · exact spells_cast (hw 'a' ['n', 'd'] (by decide) (by decide) (by decide) (by decide) (by decide)) (by decide) (by decide)
      (fun r h => by simpa [tokOk, LexTables.std] using h)
  · exact spells_cast (hw 'm' ['a', 't', 'c', 'h', 'e', 's'] (by decide) (by decide) (by decide) (by decide) (by decide)) (by decide) (by decide)
      (fun r h => by simpa [tokOk, LexTables.std] using h)
  · exact spells_cast (hw 'c' ['o', 'n', 't', 'a', 'i', 'n', 's'] (by decide) (by decide) (by decide) (by decide) (by decide)) (by decide) (by decide)
      (fun r h => by simpa [tokOk, LexTables.std] using h)
  · exact spells_cast (hw 's' ['t', 'a', 'r', 't', 's', 'W', 'i', 't', 'h'] (by decide) (by decide) (by decide) (by decide) (by decide)) (by decide) (by decide)
      (fun r h => by simpa [tokOk, LexTables.std] using h)
  · exact spells_cast (hw 'e' ['n', 'd', 's', 'W', 'i', 't', 'h'] (by decide) (by decide) (by decide) (by decide) (by decide)) (by decide) (by decide)
      (fun r h => by simpa [tokOk, LexTables.std] using h)
  · exact spells_cast (spells_punct hcc (c := '#') (k := .operator) (by decide)) (by decide) (by decide)
      (fun r h => trivial)
  · exact spells_cast (spells_punct hcc (c := ',') (k := .operator) (by decide)) (by decide) (by decide)
      (fun r h => trivial)
  · exact spells_cast (spells_punct hcc (c := ':') (k := .operator) (by decide)) (by decide) (by decide)
      (fun r h => trivial)
  · exact spells_cast (spells_punct hcc (c := '%') (k := .operator) (by decide)) (by decide) (by decide)
      (fun r h => trivial)
  · exact spells_cast (spells_punct hcc (c := '+') (k := .operator) (by decide)) (by decide) (by decide)
      (fun r h => trivial)
  · exact spells_cast (spells_punct hcc (c := '-') (k := .operator) (by decide)) (by decide) (by decide)
      (fun r h => trivial)
  · exact spells_cast (spells_punct hcc (c := '/') (k := .operator) (by decide)) (by decide) (by decide)
      (fun r h => trivial)
  · exact spells_cast (spells_dbl2 hcc (c := '&') (c2 := '&') (by decide) (by decide)) (by decide) (by decide)
      (fun r h => trivial)
  · exact spells_cast (spells_dbl2 hcc (c := '|') (c2 := '|') (by decide) (by decide)) (by decide) (by decide)
      (fun r h => trivial)
  · exact spells_cast (spells_dbl2 hcc (c := '=') (c2 := '=') (by decide) (by decide)) (by decide) (by decide)
      (fun r h => trivial)
  · exact spells_cast (spells_dbl2 hcc (c := '!') (c2 := '=') (by decide) (by decide)) (by decide) (by decide)
      (fun r h => trivial)
  · exact spells_cast (spells_dbl2 hcc (c := '<') (c2 := '=') (by decide) (by decide)) (by decide) (by decide)
      (fun r h => trivial)
  · exact spells_cast (spells_dbl2 hcc (c := '>') (c2 := '=') (by decide) (by decide)) (by decide) (by decide)
      (fun r h => trivial)
  · exact spells_cast (spells_dbl2 hcc (c := '*') (c2 := '*') (by decide) (by decide)) (by decide) (by decide)
      (fun r h => trivial)
  · exact spells_cast (spells_dbl1 hcc (c := '<') (by decide)) (by decide) (by decide)
      (fun r h => by simpa [tokOk, isDbl1, LexTables.std] using h)
  · exact spells_cast (spells_dbl1 hcc (c := '>') (by decide)) (by decide) (by decide)
      (fun r h => by simpa [tokOk, isDbl1, LexTables.std] using h)
  · exact spells_cast (spells_dbl1 hcc (c := '*') (by decide)) (by decide) (by decide)
      (fun r h => by simpa [tokOk, isDbl1, LexTables.std] using h)
  · exact spells_cast (spells_dbl1 hcc (c := '!') (by decide)) (by decide) (by decide)
      (fun r h => by simpa [tokOk, isDbl1, LexTables.std] using h)

theorem tok_spells_bracket {cc : CharClass} (hcc : cc.AsciiExact) (v : String) (l : Loc) (hv : v ∈ bracketValues) :
    Spells cc .bracket v (tokRaw ⟨.bracket, v, l⟩) (tokOk cc ⟨.bracket, v, l⟩) := by
  simp only [bracketValues, List.mem_cons, List.mem_nil_iff, or_false] at hv
  have hraw : ∀ w : String, tokRaw ⟨.bracket, w, l⟩ = w.toList := fun w => by simp [tokRaw]
  rw [hraw]
  rcases hv with rfl | rfl | rfl | rfl | rfl | rfl
  · exact spells_cast (spells_punct hcc (c := '(') (k := .bracket) (by decide)) (by decide) (by decide) (fun r h => trivial)
  · exact spells_cast (spells_punct hcc (c := ')') (k := .bracket) (by decide)) (by decide) (by decide) (fun r h => trivial)
  · exact spells_cast (spells_punct hcc (c := '[') (k := .bracket) (by decide)) (by decide) (by decide) (fun r h => trivial)
  · exact spells_cast (spells_punct hcc (c := ']') (k := .bracket) (by decide)) (by decide) (by decide) (fun r h => trivial)
  · exact spells_cast (spells_punct hcc (c := '{') (k := .bracket) (by decide)) (by decide) (by decide) (fun r h => trivial)
  · exact spells_cast (spells_punct hcc (c := '}') (k := .bracket) (by decide)) (by decide) (by decide) (fun r h => trivial)

/-- **every printable token has a spelling the lexer reads back** -/
theorem tok_spells {cc : CharClass} (hcc : cc.AsciiExact) (t : Token) (hp : Printable cc t) :
    Spells cc t.kind t.value (tokRaw t) (tokOk cc t) := by
  obtain ⟨k, v, l⟩ := t
  cases k with
  | eof => exact hp.elim
  | operator => exact tok_spells_op hcc v l hp
  | bracket => exact tok_spells_bracket hcc v l hp
  | string =>
    have hq : cc.isSpace '"' = false := space_ascii hcc (by decide) (by decide)
    have := spells_string (cc := cc) '"' (Or.inl rfl) hq (v.toList.map fun c => (c, Spell.U []))
      (by intro p hp'; simp only [List.mem_map] at hp'; obtain ⟨c, _, rfl⟩ := hp'; trivial)
    refine spells_cast this (by simp [tokRaw]) ?_ (fun r h => trivial)
    have hid : (List.map (fun x => x.fst) (List.map (fun c => (c, Spell.U [])) v.toList)) = v.toList := by
      rw [List.map_map]; exact List.map_id' _
    show v = String.ofList _
    rw [hid]; exact String.ofList_toList.symm
  | number =>
    obtain ⟨p, hwf, hx, hv⟩ := hp
    have := spells_float hcc p hwf hx
    refine spells_cast this (by simp [tokRaw, hv]) ?_ (fun r h => h)
    rw [← hv]; exact String.ofList_toList.symm
  | identifier =>
    obtain ⟨c, cs, hv, hc, hcs, hnot, hkw⟩ := hp
    have hval : v = String.ofList (c :: cs) := by rw [← hv]; exact String.ofList_toList.symm
    have := spells_word (cc := cc) (c := c) (cs := cs) hc hcs (by rw [← hval]; exact hnot) (Or.inr (by rw [← hval]; exact hkw))
    rw [← hval, hkw] at this
    exact spells_cast this (by simp [tokRaw, hv]) rfl (fun r h => h)

/-! ### layouts -/

/-- the printed tokens with the white space `gaps[i]` in front of the `i`-th token -/
def layoutItems : List Token → List (List Char) → List Item
  | t :: ts, g :: gs => ⟨g, tokRaw t, t.kind, t.value⟩ :: layoutItems ts gs
  | _, _ => []

/-- the layout separates the tokens that would fuse: every gap is white space, and what follows each token
    satisfies its `tokOk` -/
def NoFuse (cc : CharClass) : List Token → List (List Char) → List Char → Prop
  | t :: ts, g :: gs, trail =>
    (∀ c ∈ g, cc.isSpace c = true) ∧ tokOk cc t (renderItems (layoutItems ts gs) trail) ∧ NoFuse cc ts gs trail
  | _, _, trail => ∀ c ∈ trail, cc.isSpace c = true

theorem itemsOK_layout {cc : CharClass} (hcc : cc.AsciiExact) :
    ∀ (ts : List Token) (gs : List (List Char)) (trail : List Char), ts.length = gs.length →
      (∀ t ∈ ts, Printable cc t) → NoFuse cc ts gs trail →
      ItemsOK cc (fun it => tokOk cc ⟨it.kind, it.value, {}⟩) (layoutItems ts gs) trail
  | [], [], trail, _, _, h => h
  | t :: ts, g :: gs, trail, hl, hp, h => by
    obtain ⟨hg, hok, hrest⟩ := h
    refine ⟨hg, ?_, ?_, itemsOK_layout hcc ts gs trail (by simpa using hl) (fun x hx => hp x (by simp [hx])) hrest⟩
    · have := tok_spells hcc t (hp t (by simp))
      exact spells_cast this rfl rfl (fun r h => by cases t; exact h)
    · cases t; exact hok
  | [], _ :: _, _, hl, _, _ => by simp at hl
  | _ :: _, [], _, hl, _, _ => by simp at hl

theorem layoutItems_kv : ∀ (ts : List Token) (gs : List (List Char)), ts.length = gs.length →
    (layoutItems ts gs).map (fun it => (it.kind, it.value)) = ts.map (fun t => (t.kind, t.value))
  | [], [], _ => rfl
  | t :: ts, g :: gs, hl => by simp [layoutItems, layoutItems_kv ts gs (by simpa using hl)]
  | [], _ :: _, hl => by simp at hl
  | _ :: _, [], hl => by simp at hl

variable (cfg : Cfg) (sh : NumShow)

/-- **White space never changes the tree** (text level).  Print a canonical tree with any redundant
    parentheses, spell each token canonically (`tokRaw`), put the white space `gaps[i]` before the `i`-th token
    and `trail` at the end, such that no two neighbours fuse (`NoFuse`: e.g. an identifier is not followed by
    an alphanumeric rune, `?` not by `.`, `<` not by `=`).  Then the lexer model reads the same tokens up to
    locations and the parser model returns the same tree up to locations. -/
theorem lex_parse_text (hy : Hyp cfg sh) (t : Node) (hc : canon cfg 0 t = true) (pc : ParenChoice)
    (cc : CharClass) (hcc : cc.AsciiExact) (gaps : List (List Char)) (trail : List Char)
    (hlen : (pr cfg sh pc [] 0 (eofAt {}) t).length = gaps.length)
    (hprint : ∀ x ∈ pr cfg sh pc [] 0 (eofAt {}) t, Printable cc x)
    (hsep : NoFuse cc (pr cfg sh pc [] 0 (eofAt {}) t) gaps trail) :
    ∃ toks t', lex cc LexTables.std
        (String.ofList (renderItems (layoutItems (pr cfg sh pc [] 0 (eofAt {}) t) gaps) trail)) = .ok toks ∧
      noLocs toks = noLocs (printEof cfg sh pc {} t) ∧
      parse cfg toks = .ok t' ∧ t'.eraseLoc = t.eraseLoc :=
  lex_parse_layout cfg sh hy t hc pc cc _ _ trail (layoutItems_kv _ _ hlen)
    (itemsOK_layout hcc _ _ trail hlen hprint hsep)

end ExprModel.Parser
