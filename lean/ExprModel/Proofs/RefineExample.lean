import ExprModel.Proofs.RefineTop
import ExprModel.Proofs.RefineLoopAll
import ExprModel.Proofs.RefineFloats
import ExprModel.Api.Pipeline
import ExprModel.Proofs.RefineSimAll
/-
C01: a concrete instance of the hypotheses of the refinement theorems —
`all(1..3, {# > 0 and I == 1})`: a loop builtin over a range, a closure with the pointer `#`, a
short-circuit connective, an environment identifier, a specialised comparison.
-/
set_option linter.unusedVariables false
namespace ExprModel.C01
open ExprModel ExprModel.Refine ExprModel.Spec

def m0 : Meta := {}
/-- `all(1..3, {# > 0 and I == 1})` -/
def exTree : Node :=
  .builtin m0 "all" [.binary m0 ".." (.int m0 1) (.int m0 3),
    .closure m0 (.binary m0 "and" (.binary m0 ">" (.pointer m0) (.int m0 0))
      (.binary m0 "==" (.ident m0 "I" false) (.int m0 1)))]

def exCompiled : Compiled :=
  match compileProgram {} exTree with
  | .ok cp => cp
  | .error _ => default

set_option maxRecDepth 4000 in
theorem ex_compiles : compileProgram {} exTree = .ok exCompiled := by
  unfold exCompiled
  rfl


instance (code : List LInstr) : Decidable (FitsU16 code) := by unfold FitsU16; exact inferInstance

set_option maxRecDepth 4000 in
theorem ex_fits : FitsU16 exCompiled.code := by decide


theorem rangeR_ok {signed : Bool} {lim : Int} {x y v : Val} {σ σ' : SState}
    (h : rangeR signed lim x y σ = (.ok v, σ')) : ∃ lo hi, toIntR x = .ok lo ∧ toIntR y = .ok hi ∧
      v = .arr (.num .int) (rangeElems lo hi) := by
  unfold rangeR at h
  cases hx : toIntR x with
  | error e => rw [hx] at h; cases h
  | ok lo =>
    rw [hx] at h
    cases hy : toIntR y with
    | error e => rw [hy] at h; cases h
    | ok hi =>
      rw [hy] at h
      simp only at h
      generalize (if signed = true then hi - lo + 1 else if hi - lo + 1 < 0 then 0 else hi - lo + 1) = counted at h
      by_cases hb : σ.memory + counted ≥ lim
      · rw [if_pos hb] at h; cases h
      · rw [if_neg hb] at h
        simp only [Prod.mk.injEq, Except.ok.injEq] at h
        exact ⟨lo, hi, rfl, rfl, h.1.symm⟩

theorem ex_small (c : Cfg) : SmallColl c (.binary m0 ".." (.int m0 1) (.int m0 3)) := by
  intro ctx σ coll σ1 len hev hlen
  rw [eval_binary_strict _ (by decide) (by decide)] at hev
  simp only [SM.bind_apply, eval_int, SM.pure_apply, binTail_range] at hev
  obtain ⟨lo, hi, h1, h3, rfl⟩ := rangeR_ok hev
  have t1 : toIntR (intConst m0.kd 1) = .ok 1 := rfl
  have t3 : toIntR (intConst m0.kd 3) = .ok 3 := rfl
  rw [t1] at h1; rw [t3] at h3
  cases h1; cases h3
  have : lengthV (.arr (.num .int) (rangeElems 1 3)) = .ok 3 := rfl
  rw [this] at hlen
  cases hlen
  decide

theorem ex_good (c : Cfg) : Good (SmallColl c) exTree :=
  ⟨.inr (ex_small c), ⟨trivial, trivial⟩, ⟨⟨trivial, trivial⟩, ⟨trivial, trivial⟩⟩, trivial⟩

theorem ex_floats : FloatsIn (fun _ => False) exTree := by
  refine ⟨⟨?_, ?_⟩, ⟨⟨⟨trivial, ?_⟩, ⟨trivial, ?_⟩⟩, trivial⟩⟩ <;> (intro h; exact absurd h (by decide))

/-! a loop-free instance for the stage A statements: `I == 1 and (B ? "x" : [I, 2][0])` -/

def exTreeA : Node :=
  .binary m0 "and" (.binary m0 "==" (.ident m0 "I" false) (.int m0 1))
    (.cond m0 (.ident m0 "B" false) (.str m0 "x")
      (.index m0 (.array m0 [.ident m0 "I" false, .int m0 2]) (.int m0 0)))

def exCompiledA : Compiled :=
  match compileProgram {} exTreeA with
  | .ok cp => cp
  | .error _ => default

set_option maxRecDepth 4000 in
theorem exA_compiles : compileProgram {} exTreeA = .ok exCompiledA := by
  unfold exCompiledA
  rfl

set_option maxRecDepth 4000 in
theorem exA_fits : FitsU16 exCompiledA.code := by decide

theorem exA_good : Good (fun _ => False) exTreeA :=
  ⟨⟨trivial, trivial⟩, trivial, trivial, ⟨⟨trivial, trivial, trivial⟩, trivial⟩⟩

theorem exA_floats : FloatsIn (fun _ => False) exTreeA := by
  refine ⟨⟨trivial, ?_⟩, trivial, trivial, ⟨⟨trivial, ?_, trivial⟩, ?_⟩⟩ <;> (intro h; exact absurd h (by decide))

/-! a typed instance: environment `struct { I int; B bool }`, optimizer on, `AsBool`; the parse tree of
`I in 1..3 and not B` — accepted by the checker, rewritten by the optimizer (`in_range`), compiled -/

def exT : Api.TypedCfg :=
  { check := { types := some [("I", { ty := some (.num .int) }), ("B", { ty := some .bool })], strict := true, expect := .bool },
    mapEnv := false }

def mkAt (l c : Nat) : Meta := { loc := ⟨l, c⟩ }

def exParsed : Node :=
  .binary (mkAt 1 10) "and"
    (.binary (mkAt 1 2) "in" (.ident (mkAt 1 0) "I" false) (.binary (mkAt 1 6) ".." (.int (mkAt 1 5) 1) (.int (mkAt 1 8) 3)))
    (.unary (mkAt 1 14) "not" (.ident (mkAt 1 18) "B" false))

def exTyped (w : World) : Compiled × Node × Node :=
  match Api.middle exT w exParsed with
  | .ok cp ch fin => (cp, ch, fin)
  | _ => default

def w0 : World := { call := fun _ _ => .error .call, regexMatch := fun _ _ => none, pow := fun a _ => a }

set_option maxRecDepth 20000 in
theorem exTyped_ok : Api.middle exT w0 exParsed = .ok (exTyped w0).1 (exTyped w0).2.1 (exTyped w0).2.2 := by
  unfold exTyped
  rfl

set_option maxRecDepth 20000 in
theorem exTyped_fits : FitsU16 (exTyped w0).1.code := by decide

set_option maxRecDepth 20000 in
theorem exTyped_floats : floatsOK (exTyped w0).2.2 = true := by decide

/-- the tree handed to the compiler: `I >= 1 and I <= 3 and not B`, annotated -/
def exFinal : Node :=
  .binary ⟨⟨1, 10⟩, .bool⟩ "and"
    (.binary ⟨⟨1, 2⟩, .bool⟩ "and"
      (.binary {} ">=" (.ident ⟨⟨1, 0⟩, .num .int⟩ "I" false) (.int ⟨⟨1, 5⟩, .num .int⟩ 1))
      (.binary {} "<=" (.ident ⟨⟨1, 0⟩, .num .int⟩ "I" false) (.int ⟨⟨1, 8⟩, .num .int⟩ 3)))
    (.unary ⟨⟨1, 14⟩, .bool⟩ "not" (.ident ⟨⟨1, 18⟩, .bool⟩ "B" false))

set_option maxRecDepth 20000 in
theorem exTyped_final : (exTyped w0).2.2 = exFinal := by rfl

theorem exFinal_good (L : Node → Prop) : Good L exFinal :=
  ⟨⟨⟨trivial, trivial⟩, ⟨trivial, trivial⟩⟩, trivial⟩

set_option maxRecDepth 20000 in
/-- the optimizer did rewrite: the compiled tree is not the checked one -/
theorem exTyped_rewritten : (exTyped w0).2.2.kindName = "BinaryNode" ∧
    (match (exTyped w0).2.2 with | .binary _ "and" (.binary _ "and" _ _) _ => True | _ => False) := by
  constructor
  · rfl
  · trivial

end ExprModel.C01
