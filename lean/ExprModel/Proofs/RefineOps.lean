import ExprModel.Proofs.RefineSteps
/-
C01 stage 0 (d): one lemma per opcode (as used by the compiler), at the level of located segments:
never-failing opcodes in continuation form (`Runs next R → Runs here R`), the others in terminal
form (`Runs here (outcome r …)`, both the value and the failure case).
-/
set_option linter.unusedSimpArgs false
namespace ExprModel.Refine
open ExprModel
open ExprModel.Spec (SState)

syntax "exec_simp" "[" Lean.Parser.Tactic.simpLemma,* "]" : tactic
macro_rules
  | `(tactic| exec_simp [$ts,*]) =>
    `(tactic| simp only [execI, constI, argI, li_instr, vm, bind, Except.bind, pure, Except.pure, VM.push, VM.pop,
        VM.pop2, VM.current, failV, constStr, binOpOf, $ts,*])

variable {c : Cfg} {P : LProg} {k : Nat} {l : Loc} {r : List LInstr} {st : List Val} {scs : List Scope}
  {σ : SState} {lim : Int} {Q : Res}

/-- the blame obligation of an instruction at location `l` whose result is `r`: if it fails, the program's
    blame relation holds of the class and `l` -/
def RBlame {α : Type} (P : LProg) (l : Loc) (r : R α) : Prop := ∀ e, r = .error e → P.blame e l

/-- terminal form for an opcode whose result is `liftR s res` pushed -/
theorem runs_lift {ip : Nat} {pp : Nat} (res : R Val) (hb : RBlame P l res) :
    ExecPost c P l (do let v ← liftR (⟨st, scs, ip, pp, σ.memory, lim, σ.created, σ.log⟩ : VM) res
                       pure (VM.push ⟨st, scs, ip, pp, σ.memory, lim, σ.created, σ.log⟩ v) : RV VM)
      (outcome res ip st scs σ lim) := by
  revert hb
  cases res with
  | ok v => intro _; exact ExecPost.ok (Reach.refl _) rfl
  | error e => intro hb; exact ⟨rfl, hb e rfl⟩

/-- the same for a result function that mirrors the opcode's own case analysis -/
theorem runs_res {x : RV VM} {ip pp : Nat} {s2 : VM} (res : R Val)
    (hx : x = match res with
              | .ok v => .ok ⟨v :: st, scs, ip, pp, σ.memory, lim, σ.created, σ.log⟩
              | .error e => .error (e, s2))
    (h2 : obs s2 = σ) (hb : RBlame P l res) : ExecPost c P l x (outcome res ip st scs σ lim) := by
  subst hx
  revert hb
  cases res with
  | ok v => intro _; exact ExecPost.ok (Reach.refl _) rfl
  | error e => intro hb; exact ⟨by simp only [outcome, h2], hb e rfl⟩

/-! #### constants, literals -/

theorem Runs.push {a v} (h : CodeAt P k (li l .push a :: r)) (hv : P.consts[a]? = some v)
    (hr : Runs c P (vm (k + 3) (v :: st) scs σ lim) Q) : Runs c P (vm k st scs σ lim) Q := by
  refine Runs.exec h rfl ?_
  exec_simp [hv]
  exact ExecPost.ok hr rfl

theorem Runs.true_ {a} (h : CodeAt P k (li l .true_ a :: r))
    (hr : Runs c P (vm (k + 1) (.bool true :: st) scs σ lim) Q) : Runs c P (vm k st scs σ lim) Q := by
  refine Runs.exec h rfl ?_
  exec_simp []
  exact ExecPost.ok hr rfl

theorem Runs.false_ {a} (h : CodeAt P k (li l .false_ a :: r))
    (hr : Runs c P (vm (k + 1) (.bool false :: st) scs σ lim) Q) : Runs c P (vm k st scs σ lim) Q := by
  refine Runs.exec h rfl ?_
  exec_simp []
  exact ExecPost.ok hr rfl

theorem Runs.nil_ {a} (h : CodeAt P k (li l .nil_ a :: r))
    (hr : Runs c P (vm (k + 1) (.nil :: st) scs σ lim) Q) : Runs c P (vm k st scs σ lim) Q := by
  refine Runs.exec h rfl ?_
  exec_simp []
  exact ExecPost.ok hr rfl

theorem Runs.pop {a v} (h : CodeAt P k (li l .pop a :: r))
    (hr : Runs c P (vm (k + 1) st scs σ lim) Q) : Runs c P (vm k (v :: st) scs σ lim) Q := by
  refine Runs.exec h rfl ?_
  exec_simp []
  exact ExecPost.ok hr rfl

theorem Runs.rot {a x y} (h : CodeAt P k (li l .rot a :: r))
    (hr : Runs c P (vm (k + 1) (x :: y :: st) scs σ lim) Q) : Runs c P (vm k (y :: x :: st) scs σ lim) Q := by
  refine Runs.exec h rfl ?_
  exec_simp []
  exact ExecPost.ok hr rfl

/-! #### environment access -/

theorem Runs.fetch {a kv} (h : CodeAt P k (li l .fetch a :: r)) (hv : P.consts[a]? = some kv) (hb : RBlame P l (fetchV c.env kv false)) :
    Runs c P (vm k st scs σ lim) (outcome (fetchV c.env kv false) (k + 3) st scs σ lim) := by
  refine Runs.exec h rfl ?_
  exec_simp [hv]
  exact runs_lift _ hb

theorem Runs.fetchNilSafe {a kv} (h : CodeAt P k (li l .fetchNilSafe a :: r)) (hv : P.consts[a]? = some kv) (hb : RBlame P l (fetchV c.env kv true)) :
    Runs c P (vm k st scs σ lim) (outcome (fetchV c.env kv true) (k + 3) st scs σ lim) := by
  refine Runs.exec h rfl ?_
  exec_simp [hv]
  exact runs_lift _ hb

theorem Runs.fetchMap {a name kvs} (h : CodeAt P k (li l .fetchMap a :: r)) (hv : P.consts[a]? = some (.str name))
    (henv : c.env = .map kvs)
    (hr : Runs c P (vm (k + 3) ((lookupKv name kvs).getD .nil :: st) scs σ lim) Q) :
    Runs c P (vm k st scs σ lim) Q := by
  refine Runs.exec h rfl ?_
  exec_simp [hv, henv]
  exact ExecPost.ok hr rfl

/-! #### unary and binary operators -/

theorem Runs.not_ {a v} (h : CodeAt P k (li l .not_ a :: r)) (hb : RBlame P l (notV v)) :
    Runs c P (vm k (v :: st) scs σ lim) (outcome (notV v) (k + 1) st scs σ lim) := by
  refine Runs.exec h rfl ?_
  exec_simp []
  exact runs_lift _ hb

theorem Runs.negate {a v} (h : CodeAt P k (li l .negate a :: r)) (hb : RBlame P l (negV v)) :
    Runs c P (vm k (v :: st) scs σ lim) (outcome (negV v) (k + 1) st scs σ lim) := by
  refine Runs.exec h rfl ?_
  exec_simp []
  exact runs_lift _ hb

theorem Runs.equal {a x y} (h : CodeAt P k (li l .equal a :: r))
    (hr : Runs c P (vm (k + 1) (.bool (equalV x y) :: st) scs σ lim) Q) :
    Runs c P (vm k (y :: x :: st) scs σ lim) Q := by
  refine Runs.exec h rfl ?_
  exec_simp []
  exact ExecPost.ok hr rfl

/-- the result of `OpEqualInt` on two values -/
def eqIntR : Val → Val → R Val
  | .int .int x, .int .int y => .ok (.bool (x == y))
  | _, _ => .error .type_

def eqStrR : Val → Val → R Val
  | .str x, .str y => .ok (.bool (x == y))
  | _, _ => .error .type_

theorem eqIntR_else {x y : Val} (h : ∀ a b, x = .int .int a → y = .int .int b → False) : eqIntR x y = .error .type_ := by
  unfold eqIntR; split
  · exact (h _ _ rfl rfl).elim
  · rfl

theorem eqStrR_else {x y : Val} (h : ∀ a b, x = .str a → y = .str b → False) : eqStrR x y = .error .type_ := by
  unfold eqStrR; split
  · exact (h _ _ rfl rfl).elim
  · rfl

theorem Runs.equalInt {a x y} (h : CodeAt P k (li l .equalInt a :: r)) (hb : RBlame P l (eqIntR x y)) :
    Runs c P (vm k (y :: x :: st) scs σ lim) (outcome (eqIntR x y) (k + 1) st scs σ lim) := by
  refine Runs.exec h rfl ?_
  exec_simp []
  refine runs_res (pp := k) (s2 := ⟨st, scs, k + 1, k, σ.memory, lim, σ.created, σ.log⟩) (eqIntR x y) ?_ rfl hb
  split
  · rfl
  · rename_i hne; rw [eqIntR_else hne]

theorem Runs.equalString {a x y} (h : CodeAt P k (li l .equalString a :: r)) (hb : RBlame P l (eqStrR x y)) :
    Runs c P (vm k (y :: x :: st) scs σ lim) (outcome (eqStrR x y) (k + 1) st scs σ lim) := by
  refine Runs.exec h rfl ?_
  exec_simp []
  refine runs_res (pp := k) (s2 := ⟨st, scs, k + 1, k, σ.memory, lim, σ.created, σ.log⟩) (eqStrR x y) ?_ rfl hb
  split
  · rfl
  · rename_i hne; rw [eqStrR_else hne]

theorem Runs.in_ {a x y} (h : CodeAt P k (li l .in_ a :: r)) (hb : RBlame P l (inV x y)) :
    Runs c P (vm k (y :: x :: st) scs σ lim) (outcome ((inV x y).map Val.bool) (k + 1) st scs σ lim) := by
  refine Runs.exec h rfl ?_
  exec_simp []
  revert hb
  cases inV x y with
  | ok b => intro _; exact ExecPost.ok (Reach.refl _) rfl
  | error e => intro hb; exact ⟨rfl, hb e rfl⟩

theorem Runs.binop {op hlp a x y} (h : CodeAt P k (li l op a :: r)) (hop : binOpOf op = some hlp) (hb : RBlame P l (binHelper hlp x y)) :
    Runs c P (vm k (y :: x :: st) scs σ lim) (outcome (binHelper hlp x y) (k + 1) st scs σ lim) := by
  refine Runs.exec h rfl ?_
  cases op <;> simp only [binOpOf] at hop <;> try cases hop
  all_goals
    exec_simp []
    exact runs_lift _ hb

def powR (w : World) (x y : Val) : R Val :=
  match toFloat64Val x, toFloat64Val y with
  | some a, some b => .ok (.f64 (w.pow a b))
  | _, _ => .error .type_

theorem Runs.exponent {a x y} (h : CodeAt P k (li l .exponent a :: r)) (hb : RBlame P l (powR c.world x y)) :
    Runs c P (vm k (y :: x :: st) scs σ lim) (outcome (powR c.world x y) (k + 1) st scs σ lim) := by
  refine Runs.exec h rfl ?_
  exec_simp []
  refine runs_res (pp := k) (s2 := ⟨st, scs, k + 1, k, σ.memory, lim, σ.created, σ.log⟩) (powR c.world x y) ?_ rfl hb
  unfold powR
  cases toFloat64Val x <;> cases toFloat64Val y <;> rfl

theorem Runs.strop {op f a x y} (h : CodeAt P k (li l op a :: r))
    (hop : (op = .contains ∧ f = strContains) ∨ (op = .startsWith ∧ f = strHasPrefix) ∨ (op = .endsWith ∧ f = strHasSuffix)) (hb : RBlame P l (strOp f x y)) :
    Runs c P (vm k (y :: x :: st) scs σ lim) (outcome (strOp f x y) (k + 1) st scs σ lim) := by
  refine Runs.exec h rfl ?_
  rcases hop with ⟨rfl, rfl⟩ | ⟨rfl, rfl⟩ | ⟨rfl, rfl⟩
  all_goals
    exec_simp []
    exact runs_lift _ hb

theorem Runs.index {a x y} (h : CodeAt P k (li l .index a :: r)) (hb : RBlame P l (fetchV x y false)) :
    Runs c P (vm k (y :: x :: st) scs σ lim) (outcome (fetchV x y false) (k + 1) st scs σ lim) := by
  refine Runs.exec h rfl ?_
  exec_simp []
  exact runs_lift _ hb

theorem Runs.slice {a x f t} (h : CodeAt P k (li l .slice a :: r)) (hb : RBlame P l (sliceV x f t)) :
    Runs c P (vm k (f :: t :: x :: st) scs σ lim) (outcome (sliceV x f t) (k + 1) st scs σ lim) := by
  refine Runs.exec h rfl ?_
  exec_simp []
  exact runs_lift _ hb

theorem Runs.property {a x kv} (h : CodeAt P k (li l .property a :: r)) (hv : P.consts[a]? = some kv) (hb : RBlame P l (fetchV x kv false)) :
    Runs c P (vm k (x :: st) scs σ lim) (outcome (fetchV x kv false) (k + 3) st scs σ lim) := by
  refine Runs.exec h rfl ?_
  exec_simp [hv]
  exact runs_lift _ hb

theorem Runs.propertyNilSafe {a x kv} (h : CodeAt P k (li l .propertyNilSafe a :: r)) (hv : P.consts[a]? = some kv) (hb : RBlame P l (fetchV x kv true)) :
    Runs c P (vm k (x :: st) scs σ lim) (outcome (fetchV x kv true) (k + 3) st scs σ lim) := by
  refine Runs.exec h rfl ?_
  exec_simp [hv]
  exact runs_lift _ hb

/-- `OpLen` peeks: the collection stays below the length -/
theorem Runs.len {a x} (h : CodeAt P k (li l .len a :: r)) (hb : RBlame P l (lengthV x)) :
    Runs c P (vm k (x :: st) scs σ lim) (outcome ((lengthV x).map (Val.int .int)) (k + 1) (x :: st) scs σ lim) := by
  refine Runs.exec h rfl ?_
  exec_simp []
  revert hb
  cases lengthV x with
  | ok n => intro _; exact ExecPost.ok (Reach.refl _) rfl
  | error e => intro hb; exact ⟨rfl, hb e rfl⟩

/-! #### matches -/

def matchR (w : World) (subj pat : Val) : R Val :=
  match subj, pat with
  | .str s, .str p => match w.regexMatch p s with
    | some m => .ok (.bool m)
    | none => .error .type_
  | _, _ => .error .type_

theorem matchR_else {w : World} {x y : Val} (h : ∀ a b, x = .str a → y = .str b → False) : matchR w x y = .error .type_ := by
  unfold matchR; split
  · exact (h _ _ rfl rfl).elim
  · rfl

theorem Runs.matches_ {a x y} (h : CodeAt P k (li l .matches_ a :: r)) (hb : RBlame P l (matchR c.world x y)) :
    Runs c P (vm k (y :: x :: st) scs σ lim) (outcome (matchR c.world x y) (k + 1) st scs σ lim) := by
  refine Runs.exec h rfl ?_
  exec_simp []
  refine runs_res (pp := k) (s2 := ⟨st, scs, k + 1, k, σ.memory, lim, σ.created, σ.log⟩) (matchR c.world x y) ?_ rfl hb
  split
  · rename_i s p
    simp only [matchR]
    cases c.world.regexMatch p s <;> rfl
  · rename_i hne; rw [matchR_else hne]

theorem Runs.matchesConst {a x pat} (h : CodeAt P k (li l .matchesConst a :: r)) (hv : P.consts[a]? = some (.regexp pat)) (hb : RBlame P l (matchR c.world x (.str pat))) :
    Runs c P (vm k (x :: st) scs σ lim) (outcome (matchR c.world x (.str pat)) (k + 3) st scs σ lim) := by
  refine Runs.exec h rfl ?_
  exec_simp [hv]
  refine runs_res (pp := k) (s2 := ⟨st, scs, k + 1 + 2, k, σ.memory, lim, σ.created, σ.log⟩) (matchR c.world x (.str pat)) ?_ rfl hb
  unfold matchR
  cases x <;> try rfl
  rename_i s
  simp only []
  cases c.world.regexMatch pat s <;> rfl

/-! #### jumps -/

theorem Runs.jump {o} (h : CodeAt P k (li l .jump o :: r))
    (hr : Runs c P (vm (k + 3 + o) st scs σ lim) Q) : Runs c P (vm k st scs σ lim) Q := by
  refine Runs.exec h rfl ?_
  exec_simp []
  exact ExecPost.ok hr rfl

theorem Runs.jumpIfTrue_true {o} (h : CodeAt P k (li l .jumpIfTrue o :: r))
    (hr : Runs c P (vm (k + 3 + o) (.bool true :: st) scs σ lim) Q) : Runs c P (vm k (.bool true :: st) scs σ lim) Q := by
  refine Runs.exec h rfl ?_
  exec_simp []
  exact ExecPost.ok hr rfl

theorem Runs.jumpIfTrue_false {o} (h : CodeAt P k (li l .jumpIfTrue o :: r))
    (hr : Runs c P (vm (k + 3) (.bool false :: st) scs σ lim) Q) : Runs c P (vm k (.bool false :: st) scs σ lim) Q := by
  refine Runs.exec h rfl ?_
  exec_simp []
  exact ExecPost.ok hr rfl

theorem Runs.jumpIfFalse_false {o} (h : CodeAt P k (li l .jumpIfFalse o :: r))
    (hr : Runs c P (vm (k + 3 + o) (.bool false :: st) scs σ lim) Q) : Runs c P (vm k (.bool false :: st) scs σ lim) Q := by
  refine Runs.exec h rfl ?_
  exec_simp []
  exact ExecPost.ok hr rfl

theorem Runs.jumpIfFalse_true {o} (h : CodeAt P k (li l .jumpIfFalse o :: r))
    (hr : Runs c P (vm (k + 3) (.bool true :: st) scs σ lim) Q) : Runs c P (vm k (.bool true :: st) scs σ lim) Q := by
  refine Runs.exec h rfl ?_
  exec_simp []
  exact ExecPost.ok hr rfl

theorem Runs.jumpIf_err {op o v} (hop : op = .jumpIfTrue ∨ op = .jumpIfFalse) (h : CodeAt P k (li l op o :: r))
    (hv : ∀ b, v ≠ .bool b) (hb : P.blame .type_ l) : Runs c P (vm k (v :: st) scs σ lim) (.err .type_ σ) := by
  refine Runs.exec h rfl ?_
  rcases hop with rfl | rfl
  all_goals
    exec_simp []
    cases v with
    | bool b => exact absurd rfl (hv b)
    | _ => exact ⟨rfl, hb⟩

theorem Runs.jumpBackward {o} (h : CodeAt P k (li l .jumpBackward o :: r)) (ho : o ≤ k + 3)
    (hr : Runs c P (vm (k + 3 - o) st scs σ lim) Q) : Runs c P (vm k st scs σ lim) Q := by
  refine Runs.exec h rfl ?_
  exec_simp []
  rw [if_pos (by omega)]
  exact ExecPost.ok hr rfl

/-! #### scopes -/

theorem Runs.begin_ {a} (h : CodeAt P k (li l .begin_ a :: r))
    (hr : Runs c P (vm (k + 1) st ([] :: scs) σ lim) Q) : Runs c P (vm k st scs σ lim) Q := by
  refine Runs.exec h rfl ?_
  exec_simp []
  exact ExecPost.ok hr rfl

theorem Runs.end_ {a sc} (h : CodeAt P k (li l .end_ a :: r))
    (hr : Runs c P (vm (k + 1) st scs σ lim) Q) : Runs c P (vm k st (sc :: scs) σ lim) Q := by
  refine Runs.exec h rfl ?_
  exec_simp []
  exact ExecPost.ok hr rfl

theorem Runs.store {a key v sc} (h : CodeAt P k (li l .store a :: r)) (hv : P.consts[a]? = some (.str key))
    (hr : Runs c P (vm (k + 3) st (scopeSet key v sc :: scs) σ lim) Q) :
    Runs c P (vm k (v :: st) (sc :: scs) σ lim) Q := by
  refine Runs.exec h rfl ?_
  exec_simp [hv, liftR]
  exact ExecPost.ok hr rfl

theorem Runs.load {a key sc} (h : CodeAt P k (li l .load a :: r)) (hv : P.consts[a]? = some (.str key))
    (hr : Runs c P (vm (k + 3) ((lookupKv key sc).getD .nil :: st) (sc :: scs) σ lim) Q) :
    Runs c P (vm k st (sc :: scs) σ lim) Q := by
  refine Runs.exec h rfl ?_
  exec_simp [hv, liftR]
  exact ExecPost.ok hr rfl

theorem Runs.load_nil {a key} (h : CodeAt P k (li l .load a :: r)) (hv : P.consts[a]? = some (.str key))
    (hr : Runs c P (vm (k + 3) (.nil :: st) [] σ lim) Q) :
    Runs c P (vm k st [] σ lim) Q := by
  refine Runs.exec h rfl ?_
  exec_simp [hv, liftR]
  exact ExecPost.ok hr rfl

theorem Runs.inc {a key sc i} (h : CodeAt P k (li l .inc a :: r)) (hv : P.consts[a]? = some (.str key))
    (hi : lookupKv key sc = some (.int .int i))
    (hr : Runs c P (vm (k + 3) st (scopeSet key (.int .int (wrap .int (i + 1))) sc :: scs) σ lim) Q) :
    Runs c P (vm k st (sc :: scs) σ lim) Q := by
  refine Runs.exec h rfl ?_
  exec_simp [hv, liftR, hi]
  exact ExecPost.ok hr rfl

/-! #### calls, array and map literals -/

theorem popN_rev (xs : List Val) : ∀ (s : VM) (acc : List Val) (st : List Val), s.stack = xs ++ st →
    VM.popN xs.length s acc = .ok (xs.reverse ++ acc, { s with stack := st })
  | s, acc, st, h => by
    induction xs generalizing s acc with
    | nil => simp only [List.nil_append] at h; subst h; rfl
    | cons x xs ih =>
      simp only [List.length_cons, VM.popN, VM.pop, h, List.cons_append, bind, Except.bind]
      rw [ih _ (x :: acc) rfl]
      simp

/-- the log after a call that may or may not have entered the function -/
def logged (res : R Val) (name : String) (args : List Val) (σ : SState) : SState :=
  if callHappened res then { σ with log := (name, args) :: σ.log } else σ

theorem Runs.call {op a name} {args : List Val} (hop : op = .call ∨ op = .callFast)
    (h : CodeAt P k (li l op a :: r)) (hv : P.consts[a]? = some (.call name args.length)) (hb : RBlame P l (callMember c.world c.env name args)) :
    Runs c P (vm k (args.reverse ++ st) scs σ lim)
      (outcome (callMember c.world c.env name args) (k + 3) st scs
        (logged (callMember c.world c.env name args) name args σ) lim) := by
  refine Runs.exec h rfl ?_
  have hp := fun (s : VM) acc (hs : s.stack = args.reverse ++ st) => popN_rev args.reverse s acc st hs
  simp only [List.length_reverse, List.reverse_reverse] at hp
  rcases hop with rfl | rfl
  all_goals
    exec_simp [hv]
    rw [hp _ _ rfl]
    simp only [List.append_nil, logged]
    revert hb
    cases callHappened (callMember c.world c.env name args)
    all_goals
      cases callMember c.world c.env name args with
      | ok v => intro _; exact ExecPost.ok (Reach.refl _) rfl
      | error e => intro hb; exact ⟨rfl, hb e rfl⟩

/-- result of a method call on `obj` -/
def methodR (w : World) (nilsafe : Bool) (obj : Val) (name : String) (args : List Val) : R Val :=
  if nilsafe && obj.isNilLike then .ok .nil else callMember w obj name args

def methodLogged (w : World) (nilsafe : Bool) (obj : Val) (name : String) (args : List Val) (σ : SState) : SState :=
  if nilsafe && obj.isNilLike then σ else logged (callMember w obj name args) name args σ

theorem Runs.method {op a name obj ns} {args : List Val}
    (hop : (op = .method ∧ ns = false) ∨ (op = .methodNilSafe ∧ ns = true))
    (h : CodeAt P k (li l op a :: r)) (hv : P.consts[a]? = some (.call name args.length)) (hb : RBlame P l (methodR c.world ns obj name args)) :
    Runs c P (vm k (args.reverse ++ obj :: st) scs σ lim)
      (outcome (methodR c.world ns obj name args) (k + 3) st scs (methodLogged c.world ns obj name args σ) lim) := by
  refine Runs.exec h rfl ?_
  have hp := fun (s : VM) acc (hs : s.stack = args.reverse ++ obj :: st) => popN_rev args.reverse s acc (obj :: st) hs
  simp only [List.length_reverse, List.reverse_reverse] at hp
  rcases hop with ⟨rfl, rfl⟩ | ⟨rfl, rfl⟩
  · exec_simp [hv]
    rw [hp _ _ rfl]
    simp only [List.append_nil, logged, methodR, methodLogged, Bool.false_and, Bool.false_eq_true, if_false,
      show (Op.method == Op.methodNilSafe) = false from rfl] at hb ⊢
    revert hb
    cases callHappened (callMember c.world obj name args)
    all_goals
      cases callMember c.world obj name args with
      | ok v => intro _; exact ExecPost.ok (Reach.refl _) rfl
      | error e => intro hb; exact ⟨rfl, hb e rfl⟩
  · exec_simp [hv]
    rw [hp _ _ rfl]
    simp only [List.append_nil, logged, methodR, methodLogged, Bool.true_and,
      show (Op.methodNilSafe == Op.methodNilSafe) = true from rfl] at hb ⊢
    revert hb
    cases obj.isNilLike
    · simp only [Bool.false_eq_true, if_false]
      cases callHappened (callMember c.world obj name args)
      all_goals
        cases callMember c.world obj name args with
        | ok v => intro _; exact ExecPost.ok (Reach.refl _) rfl
        | error e => intro hb; exact ⟨rfl, hb e rfl⟩
    · intro _; exact ExecPost.ok (Reach.refl _) rfl

/-- observable state after `allocAfter counted built` (whether or not the budget is exceeded) -/
def allocd (σ : SState) (counted : Int) (built : Nat) : SState :=
  { σ with memory := σ.memory + counted, created := σ.created + built }

theorem Runs.array {a} {vs : List Val} (h : CodeAt P k (li l .array a :: r)) (hb : RBlame P l ((if (allocd σ vs.length vs.length).memory ≥ lim then .error .budget else .ok (.arr .iface vs) : R Val))) :
    Runs c P (vm k (.int .int vs.length :: (vs.reverse ++ st)) scs σ lim)
      (outcome (if (allocd σ vs.length vs.length).memory ≥ lim then .error .budget else .ok (.arr .iface vs))
        (k + 1) st scs (allocd σ vs.length vs.length) lim) := by
  refine Runs.exec h rfl ?_
  have hp := fun (s : VM) acc (hs : s.stack = vs.reverse ++ st) => popN_rev vs.reverse s acc st hs
  simp only [List.length_reverse, List.reverse_reverse] at hp
  exec_simp []
  rw [if_neg (by omega)]
  simp only [Int.toNat_natCast]
  rw [hp _ _ rfl]
  simp only [List.append_nil, allocd] at hb ⊢
  by_cases hbd : σ.memory + (vs.length : Int) ≥ lim
  · simp only [hbd, ↓reduceIte] at hb ⊢; exact ⟨rfl, hb _ rfl⟩
  · simp only [hbd, ↓reduceIte]; exact ExecPost.ok (Reach.refl _) rfl

theorem Runs.map {a} {n : Nat} {flat : List Val} (h : CodeAt P k (li l .map a :: r)) (hn : flat.length = 2 * n)
    (hb1 : RBlame P l (buildMap flat))
    (hb2 : ∀ mp, buildMap flat = .ok mp → (allocd σ n n).memory ≥ lim → P.blame .budget l) :
    Runs c P (vm k (.int .int n :: (flat.reverse ++ st)) scs σ lim)
      (match buildMap flat with
       | .error e => .err e σ
       | .ok m => outcome (if (allocd σ n n).memory ≥ lim then .error .budget else .ok (.map m))
                    (k + 1) st scs (allocd σ n n) lim) := by
  refine Runs.exec h rfl ?_
  have hp := fun (s : VM) acc (hs : s.stack = flat.reverse ++ st) => popN_rev flat.reverse s acc st hs
  simp only [List.length_reverse, List.reverse_reverse, hn] at hp
  exec_simp []
  rw [if_neg (by omega)]
  simp only [Int.toNat_natCast]
  rw [hp _ _ rfl]
  simp only [List.append_nil, allocd, liftR] at hb2 ⊢
  revert hb1 hb2
  cases buildMap flat with
  | error e => intro hb1 _; exact ⟨rfl, hb1 e rfl⟩
  | ok m =>
    intro _ hb2
    simp only []
    by_cases hbd : σ.memory + (n : Int) ≥ lim
    · simp only [hbd, ↓reduceIte]; exact ⟨rfl, hb2 m rfl hbd⟩
    · simp only [hbd, ↓reduceIte]; exact ExecPost.ok (Reach.refl _) rfl

/-! #### range -/

/-- `OpRange` on two values: result and observable state -/
def rangeR (signed : Bool) (lim : Int) (x y : Val) (σ : SState) : R Val × SState :=
  match toIntR x with
  | .error e => (.error e, σ)
  | .ok lo => match toIntR y with
    | .error e => (.error e, σ)
    | .ok hi =>
      let size : Int := hi - lo + 1
      let counted : Int := if signed then size else (if size < 0 then 0 else size)
      if σ.memory + counted ≥ lim then (.error .budget, σ)
      else (.ok (.arr (.num .int) (rangeElems lo hi)), allocd σ counted (rangeElems lo hi).length)

theorem Runs.range {a x y} (h : CodeAt P k (li l .range a :: r)) (hb : RBlame P l ((rangeR c.defects.rangeSizeSigned lim x y σ).1)) :
    Runs c P (vm k (y :: x :: st) scs σ lim)
      (outcome (rangeR c.defects.rangeSizeSigned lim x y σ).1 (k + 1) st scs (rangeR c.defects.rangeSizeSigned lim x y σ).2 lim) := by
  refine Runs.exec h rfl ?_
  exec_simp [liftR]
  unfold rangeR at hb ⊢
  revert hb
  cases toIntR x with
  | error e => intro hb; exact ⟨rfl, hb e rfl⟩
  | ok lo =>
    cases toIntR y with
    | error e => intro hb; exact ⟨rfl, hb e rfl⟩
    | ok hi =>
      simp only []
      generalize (if c.defects.rangeSizeSigned = true then hi - lo + 1 else if hi - lo + 1 < 0 then 0 else hi - lo + 1) = counted
      by_cases hbd : σ.memory + counted ≥ lim
      · simp only [hbd, ↓reduceIte]; intro hb; exact ⟨rfl, hb _ rfl⟩
      · simp only [hbd, ↓reduceIte]; intro _; exact ExecPost.ok (Reach.refl _) rfl

/-! #### the result directive -/

theorem Runs.cast {t v} (h : CodeAt P k (li l .cast t :: r)) (ht : t = 0 ∨ t = 1) (hb : RBlame P l (castV t v)) :
    Runs c P (vm k (v :: st) scs σ lim) (outcome (castV t v) (k + 3) st scs σ lim) := by
  refine Runs.exec h rfl ?_
  rcases ht with rfl | rfl
  all_goals
    exec_simp []
    exact runs_lift _ hb

end ExprModel.Refine
