import ExprModel.Proofs.RefineSimAll
import ExprModel.Proofs.RefinePoolMain
/-
C01: from the simulation to the statements about `compileNode` / `compileProgram` and the fuel-indexed
dispatch loop `run`.
-/
set_option linter.unusedVariables false
set_option linter.unusedSimpArgs false
namespace ExprModel.Refine
open ExprModel
open ExprModel.Spec

/-- the program value the VM runs for a compiled expression -/
def progOf (cp : Compiled) : Prog := { code := cp.bytes.toArray, consts := cp.consts }

/-- the same with its instruction list and a blame relation -/
def lprogOf (cp : Compiled) (bl : ErrClass → Loc → Prop) : LProg :=
  { prog := progOf cp, full := cp.code, enc := rfl, blame := bl }

theorem codeAt_of_layout {P : LProg} {pre code post : List LInstr}
    (h : P.full = pre ++ code ++ post) (hf : FitsU16 code) :
    CodeAt P (lsize pre) code := ⟨pre, post, h, rfl, hf⟩

/-- compiler output simulates the Spec (all the pool reasoning discharged) -/
theorem compile_sim {cfg : CompCfg} {n : Node} {pool pool' : Pool} {code : List LInstr} {F : Val → Prop} {loops : Node → Prop}
    {c : Cfg} {P : LProg} (hc : compileNode cfg n pool = .ok (code, pool')) (hF : AliasFree F) (hinv : PoolInv F pool)
    (hfl : FloatsIn F n) (hg : Good loops n) (hK : PoolExt pool' P.consts) (henv : EnvOK c cfg)
    (hloop : LoopCase c P loops) (ctx : Ctx) : Sim c P ctx n code :=
  sim henv hloop n code ctx ((compile_compiles cfg F hF n pool code pool' hc hinv hfl).comp _ hK) hg

/-! ### the dispatch loop -/

theorem loop_ok {c : Cfg} {P : LProg} {s : VM} {ip : Nat} {v : Val} {st : List Val} {scs : List Scope} {σ : SState} {lim : Int}
    (h : Reach c P s (vm ip (v :: st) scs σ lim)) (hend : P.prog.code.size ≤ ip) :
    ∃ N, ∀ fuel, N ≤ fuel → ∃ t, loop c P.prog fuel s = (.ok v, t) ∧ noPP t = vm ip st scs σ lim := by
  obtain ⟨t', hs, ht'⟩ := h
  obtain ⟨n, hn⟩ := loop_of_steps hs
  refine ⟨n + 1, fun fuel hf => ?_⟩
  obtain ⟨k, rfl⟩ : ∃ k, fuel = (k + 1) + n := ⟨fuel - n - 1, by omega⟩
  rw [hn]
  obtain ⟨st', scs', ip', pp', mem', lim', cr', lg'⟩ := t'
  simp only [noPP, vm, VM.mk.injEq] at ht'
  obtain ⟨rfl, rfl, rfl, -, rfl, rfl, rfl, rfl⟩ := ht'
  rw [loop, if_neg (by simpa using hend)]
  exact ⟨_, rfl, rfl⟩

theorem loop_err {c : Cfg} {P : LProg} {s : VM} {e : ErrClass} {σ : SState} (h : ReachErr c P s e σ) :
    ∃ N, ∀ fuel, N ≤ fuel → ∃ t, loop c P.prog fuel s = (.error e, t) ∧ obs t = σ := by
  obtain ⟨s1, s2, hs, hlt, hst, ho, _⟩ := h
  obtain ⟨n, hn⟩ := loop_of_steps hs
  refine ⟨n + 1, fun fuel hf => ?_⟩
  obtain ⟨k, rfl⟩ : ∃ k, fuel = (k + 1) + n := ⟨fuel - n - 1, by omega⟩
  rw [hn, loop, if_pos hlt, hst]
  exact ⟨s2, rfl, ho⟩

/-! ### the result directive -/

theorem castV_other {t : Nat} (h : ¬(t = 0 ∨ t = 1)) (v : Val) : castV t v = .ok v := by
  match t, h with
  | 0, h => exact absurd (.inl rfl) h
  | 1, h => exact absurd (.inr rfl) h
  | t + 2, _ => rfl

theorem Runs.cast_any {c : Cfg} {P : LProg} {k : Nat} {l : Loc} {r : List LInstr} {st : List Val} {scs : List Scope}
    {σ : SState} {lim : Int} {t : Nat} {v : Val} (h : CodeAt P k (li l .cast t :: r)) (hb : RBlame P l (castV t v)) :
    Runs c P (vm k (v :: st) scs σ lim) (outcome (castV t v) (k + 3) st scs σ lim) := by
  by_cases ht : t = 0 ∨ t = 1
  · exact Runs.cast h ht hb
  · rw [castV_other ht]
    refine Runs.exec h rfl ?_
    have h0 : (t == 0 || t == 1) = false := by
      simp only [Bool.or_eq_false_iff, beq_eq_false_iff_ne, ne_eq]
      exact ⟨fun h => ht (.inl h), fun h => ht (.inr h)⟩
    simp only [execI, argI, li_instr, vm, bind, Except.bind, pure, Except.pure, h0, Bool.false_eq_true, if_false]
    exact ExecPost.ok (Reach.refl _) rfl

/-! ### whole programs -/

theorem prologue_fresh (c : Cfg) : prologue c {} = vm 0 [] [] {} c.budget := by
  unfold prologue vm
  cases c.defects.memoryNotReset <;> rfl

/-- `Spec.run` in terms of the evaluation result -/
def specOut (r : R Val) (cast : Option Nat) (σ' : SState) : R Val × SState :=
  match r, cast with
  | .ok v, some t => (castV t v, σ')
  | .ok v, none => (.ok v, σ')
  | .error e, _ => (.error e, σ')

theorem specRun_eq (sc : SCfg) (cast : Option Nat) (n : Node) (r : R Val) (σ' : SState)
    (h : eval sc [] n {} = (r, σ')) : Spec.run sc cast n = specOut r cast σ' := by
  unfold Spec.run
  rw [h]
  cases r <;> cases cast <;> rfl

/-- what a run of a whole program is compared on -/
def RunAgrees (out : R Val × VM) (spec : R Val × SState) : Prop :=
  out.1 = spec.1 ∧ obs out.2 = spec.2 ∧ (∀ v, out.1 = .ok v → out.2.stack = [] ∧ out.2.scopes = [])

/-- the expected end of a whole program -/
def progOutcome (c : Cfg) (cfg : CompCfg) (n : Node) (cp : Compiled) : Res :=
  outcome (Spec.run (specOf c) cfg.cast n).1 (lsize cp.code) [] [] (Spec.run (specOf c) cfg.cast n).2 c.budget

/-- **whole programs, at the level of `Runs`** (value and failure direction, with the blame relation of the
    failure direction: C13) -/
theorem program_runs {cfg : CompCfg} {n : Node} {cp : Compiled} {F : Val → Prop} {loops : Node → Prop} {c : Cfg}
    (bl : ErrClass → Loc → Prop)
    (hc : compileProgram cfg n = .ok cp) (hF : AliasFree F) (hfl : FloatsIn F n) (hg : Good loops n)
    (hfit : FitsU16 cp.code) (henv : EnvOK c cfg) (hloop : LoopCase c (lprogOf cp bl) loops)
    (hB : BAt bl (evalLoc (specOf c) [] n) {})
    (hcb : ∀ t v e, cfg.cast = some t → castV t v = .error e → bl e {}) :
    Runs c (lprogOf cp bl) (vm 0 [] [] {} c.budget) (progOutcome c cfg n cp) := by
  unfold compileProgram at hc
  rw [bind_ok] at hc
  obtain ⟨⟨code, p⟩, hcn, hcp⟩ := hc
  -- C05: with the offset guard (`cfg.jumpGuard`) an oversized jump makes `compileProgram` fail
  dsimp only at hcp
  split at hcp
  · cases hcp
  simp only [pure_ok] at hcp
  subst hcp
  have hinv : PoolInv F {} := ⟨fun i w h => by simp at h, fun o h => by cases h⟩
  have hsim := compile_sim (c := c) (P := lprogOf ⟨code ++ _, p.consts⟩ bl) hcn hF hinv hfl hg (PoolExt.refl p) henv hloop []
  unfold progOutcome
  cases hev : eval (specOf c) [] n {} with
  | mk r σ' =>
  rw [specRun_eq _ _ _ _ _ hev]
  cases hcast : cfg.cast with
  | none =>
    simp only [hcast, List.append_nil, specOut] at hfit hsim hloop ⊢
    have hcode : CodeAt (lprogOf ⟨code, p.consts⟩ bl) 0 code :=
      (codeAt_of_layout (pre := []) (post := []) (by simp [lprogOf]) hfit)
    have hrun := hsim 0 [] [] {} r σ' hcode rfl hev hB
    cases r with
    | ok v => simpa using hrun
    | error e => simpa using hrun
  | some tc =>
    simp only [hcast, specOut] at hfit hsim hloop ⊢
    have hfit' := FitsU16.append.1 hfit
    have hcode : CodeAt (lprogOf ⟨code ++ [li {} .cast tc], p.consts⟩ bl) 0 code :=
      (codeAt_of_layout (pre := []) (post := [li {} .cast tc]) (by simp [lprogOf]) hfit'.1)
    have hcast' : CodeAt (lprogOf ⟨code ++ [li {} .cast tc], p.consts⟩ bl) (lsize code) [li {} .cast tc] :=
      (codeAt_of_layout (pre := code) (post := []) (by simp [lprogOf]) hfit'.2)
    have hrun := hsim 0 [] [] {} r σ' hcode rfl hev hB
    cases r with
    | error e => simpa using hrun
    | ok v =>
      refine Reach.runs (by simpa using hrun) ?_
      have := Runs.cast_any (c := c) (st := []) (scs := []) (σ := σ') (lim := c.budget) (v := v) hcast'
        (fun e he => hcb tc v e hcast he)
      exact this.to_ip (by ip_arith)

theorem run_conforms_gen {cfg : CompCfg} {n : Node} {cp : Compiled} {F : Val → Prop} {loops : Node → Prop} {c : Cfg}
    (hc : compileProgram cfg n = .ok cp) (hF : AliasFree F) (hfl : FloatsIn F n) (hg : Good loops n)
    (hfit : FitsU16 cp.code) (henv : EnvOK c cfg) (hloop : LoopCase c (lprogOf cp (fun _ _ => True)) loops) :
    ∃ N, ∀ fuel, N ≤ fuel → RunAgrees (run c (progOf cp) fuel) (Spec.run (specOf c) cfg.cast n) := by
  have hrun := program_runs (fun _ _ => True) hc hF hfl hg hfit henv hloop
    (BAt.trivial _ _) (fun _ _ _ _ _ => trivial)
  have hsize : (progOf cp).code.size = lsize cp.code := by
    simp [progOf, Compiled.bytes, encodeAll_length, lsize]
  unfold progOutcome at hrun
  cases hsr : Spec.run (specOf c) cfg.cast n with
  | mk r σ' =>
  rw [hsr] at hrun
  cases r with
  | ok v =>
    obtain ⟨N, hN⟩ := loop_ok (P := lprogOf cp (fun _ _ => True)) (by simpa using hrun)
      (by show (progOf cp).code.size ≤ _; rw [hsize]; omega)
    refine ⟨N, fun fuel hf => ?_⟩
    obtain ⟨t, ht, htt⟩ := hN fuel hf
    unfold run runOn
    rw [prologue_fresh]
    have ht' : loop c (progOf cp) fuel (vm 0 [] [] {} c.budget) = (.ok v, t) := ht
    rw [ht']
    have h1 := congrArg VM.stack htt
    have h2 := congrArg VM.scopes htt
    have h3 := congrArg obs htt
    exact ⟨rfl, h3, fun _ _ => ⟨h1, h2⟩⟩
  | error e =>
    obtain ⟨N, hN⟩ := loop_err (P := lprogOf cp (fun _ _ => True)) (by simpa using hrun)
    refine ⟨N, fun fuel hf => ?_⟩
    obtain ⟨t, ht, htt⟩ := hN fuel hf
    unfold run runOn
    rw [prologue_fresh]
    have ht' : loop c (progOf cp) fuel (vm 0 [] [] {} c.budget) = (.error e, t) := ht
    rw [ht']
    exact ⟨rfl, htt, fun _ h => by cases h⟩

end ExprModel.Refine
