import ExprModel.Proofs.RefineSimAll
import ExprModel.Proofs.RefinePoolMain
/-
C01: from the simulation to the statements about `compileNode` / `compileProgram` and the fuel-indexed
dispatch loop `run`.
-/
set_option linter.unusedVariables false
set_option linter.unusedSimpArgs false
namespace ExprModel.Refine
open ExprModel
open ExprModel.Spec

/-- the program value the VM runs for a compiled expression -/
def progOf (cp : Compiled) : Prog := { code := cp.bytes.toArray, consts := cp.consts }

theorem codeAt_of_layout {P : Prog} {pre code post : List LInstr}
    (h : P.code = (encodeAll ((pre ++ code ++ post).map (·.instr))).toArray) (hf : FitsU16 code) :
    CodeAt P (lsize pre) code := ⟨pre, post, h, rfl, hf⟩

/-- compiler output simulates the Spec (all the pool reasoning discharged) -/
theorem compile_sim {cfg : CompCfg} {n : Node} {pool pool' : Pool} {code : List LInstr} {F : Val → Prop} {loops : Node → Prop}
    {c : Cfg} {P : Prog} (hc : compileNode cfg n pool = .ok (code, pool')) (hF : AliasFree F) (hinv : PoolInv F pool)
    (hfl : FloatsIn F n) (hg : Good loops n) (hK : PoolExt pool' P.consts) (henv : EnvOK c cfg)
    (hloop : LoopCase c P loops) (ctx : Ctx) : Sim c P ctx n code :=
  sim henv hloop n code ctx ((compile_compiles cfg F hF n pool code pool' hc hinv hfl).comp _ hK) hg

/-! ### the dispatch loop -/

theorem loop_ok {c : Cfg} {P : Prog} {s : VM} {ip : Nat} {v : Val} {st : List Val} {scs : List Scope} {σ : SState} {lim : Int}
    (h : Reach c P s (vm ip (v :: st) scs σ lim)) (hend : P.code.size ≤ ip) :
    ∃ N, ∀ fuel, N ≤ fuel → ∃ t, loop c P fuel s = (.ok v, t) ∧ noPP t = vm ip st scs σ lim := by
  obtain ⟨t', hs, ht'⟩ := h
  obtain ⟨n, hn⟩ := loop_of_steps hs
  refine ⟨n + 1, fun fuel hf => ?_⟩
  obtain ⟨k, rfl⟩ : ∃ k, fuel = (k + 1) + n := ⟨fuel - n - 1, by omega⟩
  rw [hn]
  obtain ⟨st', scs', ip', pp', mem', lim', cr', lg'⟩ := t'
  simp only [noPP, vm, VM.mk.injEq] at ht'
  obtain ⟨rfl, rfl, rfl, -, rfl, rfl, rfl, rfl⟩ := ht'
  rw [loop, if_neg (by simpa using hend)]
  exact ⟨_, rfl, rfl⟩

theorem loop_err {c : Cfg} {P : Prog} {s : VM} {e : ErrClass} {σ : SState} (h : ReachErr c P s e σ) :
    ∃ N, ∀ fuel, N ≤ fuel → ∃ t, loop c P fuel s = (.error e, t) ∧ obs t = σ := by
  obtain ⟨s1, s2, hs, hlt, hst, ho⟩ := h
  obtain ⟨n, hn⟩ := loop_of_steps hs
  refine ⟨n + 1, fun fuel hf => ?_⟩
  obtain ⟨k, rfl⟩ : ∃ k, fuel = (k + 1) + n := ⟨fuel - n - 1, by omega⟩
  rw [hn, loop, if_pos hlt, hst]
  exact ⟨s2, rfl, ho⟩

/-! ### the result directive -/

theorem castV_other {t : Nat} (h : ¬(t = 0 ∨ t = 1)) (v : Val) : castV t v = .ok v := by
  match t, h with
  | 0, h => exact absurd (.inl rfl) h
  | 1, h => exact absurd (.inr rfl) h
  | t + 2, _ => rfl

theorem Runs.cast_any {c : Cfg} {P : Prog} {k : Nat} {l : Loc} {r : List LInstr} {st : List Val} {scs : List Scope}
    {σ : SState} {lim : Int} {t : Nat} {v : Val} (h : CodeAt P k (li l .cast t :: r)) :
    Runs c P (vm k (v :: st) scs σ lim) (outcome (castV t v) (k + 3) st scs σ lim) := by
  by_cases ht : t = 0 ∨ t = 1
  · exact Runs.cast h ht
  · rw [castV_other ht]
    refine Runs.exec h rfl ?_
    have h0 : (t == 0 || t == 1) = false := by
      simp only [Bool.or_eq_false_iff, beq_eq_false_iff_ne, ne_eq]
      exact ⟨fun h => ht (.inl h), fun h => ht (.inr h)⟩
    simp only [execI, argI, li_instr, vm, bind, Except.bind, pure, Except.pure, h0, Bool.false_eq_true, if_false]
    exact ExecPost.ok (Reach.refl _) rfl

/-! ### whole programs -/

theorem prologue_fresh (c : Cfg) : prologue c {} = vm 0 [] [] {} c.budget := by
  unfold prologue vm
  cases c.defects.memoryNotReset <;> rfl

/-- `Spec.run` in terms of the evaluation result -/
def specOut (r : R Val) (cast : Option Nat) (σ' : SState) : R Val × SState :=
  match r, cast with
  | .ok v, some t => (castV t v, σ')
  | .ok v, none => (.ok v, σ')
  | .error e, _ => (.error e, σ')

theorem specRun_eq (sc : SCfg) (cast : Option Nat) (n : Node) (r : R Val) (σ' : SState)
    (h : eval sc [] n {} = (r, σ')) : Spec.run sc cast n = specOut r cast σ' := by
  unfold Spec.run
  rw [h]
  cases r <;> cases cast <;> rfl

/-- what a run of a whole program is compared on -/
def RunAgrees (out : R Val × VM) (spec : R Val × SState) : Prop :=
  out.1 = spec.1 ∧ obs out.2 = spec.2 ∧ (∀ v, out.1 = .ok v → out.2.stack = [] ∧ out.2.scopes = [])

theorem run_conforms_gen {cfg : CompCfg} {n : Node} {cp : Compiled} {F : Val → Prop} {loops : Node → Prop} {c : Cfg}
    (hc : compileProgram cfg n = .ok cp) (hF : AliasFree F) (hfl : FloatsIn F n) (hg : Good loops n)
    (hfit : FitsU16 cp.code) (henv : EnvOK c cfg) (hloop : LoopCase c (progOf cp) loops) :
    ∃ N, ∀ fuel, N ≤ fuel → RunAgrees (run c (progOf cp) fuel) (Spec.run (specOf c) cfg.cast n) := by
  unfold compileProgram at hc
  rw [bind_ok] at hc
  obtain ⟨⟨code, p⟩, hcn, hcp⟩ := hc
  -- C05: with the offset guard (`cfg.jumpGuard`) an oversized jump makes `compileProgram` fail
  dsimp only at hcp
  split at hcp
  · cases hcp
  simp only [pure_ok] at hcp
  subst hcp
  have hinv : PoolInv F {} := ⟨fun i w h => by simp at h, fun o h => by cases h⟩
  have hsim := compile_sim (c := c) (P := progOf ⟨code ++ _, p.consts⟩) hcn hF hinv hfl hg (PoolExt.refl p) henv hloop []
  cases hev : eval (specOf c) [] n {} with
  | mk r σ' =>
  rw [specRun_eq _ _ _ _ _ hev]
  cases hcast : cfg.cast with
  | none =>
    simp only [hcast, List.append_nil, specOut] at hfit hsim hloop ⊢
    have hcode : CodeAt (progOf ⟨code, p.consts⟩) 0 code :=
      (codeAt_of_layout (pre := []) (post := []) (by simp [progOf, Compiled.bytes]) hfit)
    have hrun := hsim 0 [] [] {} r σ' hcode rfl hev
    have hsize : (progOf ⟨code, p.consts⟩).code.size = lsize code := by
      simp [progOf, Compiled.bytes, encodeAll_length, lsize]
    cases r with
    | ok v =>
      obtain ⟨N, hN⟩ := loop_ok (by simpa using hrun) (by rw [hsize]; omega)
      refine ⟨N, fun fuel hf => ?_⟩
      obtain ⟨t, ht, htt⟩ := hN fuel hf
      unfold run runOn
      rw [prologue_fresh, ht]
      have h1 := congrArg VM.stack htt
      have h2 := congrArg VM.scopes htt
      have h3 := congrArg obs htt
      exact ⟨rfl, h3, fun _ _ => ⟨h1, h2⟩⟩
    | error e =>
      obtain ⟨N, hN⟩ := loop_err (by simpa using hrun)
      refine ⟨N, fun fuel hf => ?_⟩
      obtain ⟨t, ht, htt⟩ := hN fuel hf
      unfold run runOn
      rw [prologue_fresh, ht]
      exact ⟨rfl, htt, fun _ h => by cases h⟩
  | some tc =>
    simp only [hcast, specOut] at hfit hsim hloop ⊢
    have hfit' := FitsU16.append.1 hfit
    have hcode : CodeAt (progOf ⟨code ++ [li {} .cast tc], p.consts⟩) 0 code :=
      (codeAt_of_layout (pre := []) (post := [li {} .cast tc]) (by simp [progOf, Compiled.bytes]) hfit'.1)
    have hcast' : CodeAt (progOf ⟨code ++ [li {} .cast tc], p.consts⟩) (lsize code) [li {} .cast tc] :=
      (codeAt_of_layout (pre := code) (post := []) (by simp [progOf, Compiled.bytes]) hfit'.2)
    have hrun := hsim 0 [] [] {} r σ' hcode rfl hev
    have hsize : (progOf ⟨code ++ [li {} .cast tc], p.consts⟩).code.size = lsize code + 3 := by
      simp [progOf, Compiled.bytes, encodeAll_length, lsize, codeSize, Instr.size, Op.hasArg]
    cases r with
    | error e =>
      obtain ⟨N, hN⟩ := loop_err (by simpa using hrun)
      refine ⟨N, fun fuel hf => ?_⟩
      obtain ⟨t, ht, htt⟩ := hN fuel hf
      unfold run runOn
      rw [prologue_fresh, ht]
      exact ⟨rfl, htt, fun _ h => by cases h⟩
    | ok v =>
      have hrun2 : Runs c (progOf ⟨code ++ [li {} .cast tc], p.consts⟩) (vm 0 [] [] {} c.budget) (outcome (castV tc v) (lsize code + 3) [] [] σ' c.budget) := by
        refine Reach.runs (by simpa using hrun) ?_
        have := Runs.cast_any (c := c) (st := []) (scs := []) (σ := σ') (lim := c.budget) (v := v) hcast'
        exact this
      cases hcv : castV tc v with
      | ok w =>
        rw [hcv] at hrun2
        obtain ⟨N, hN⟩ := loop_ok (by simpa using hrun2) (by rw [hsize]; omega)
        refine ⟨N, fun fuel hf => ?_⟩
        obtain ⟨t, ht, htt⟩ := hN fuel hf
        unfold run runOn
        rw [prologue_fresh, ht]
        have h1 := congrArg VM.stack htt
        have h2 := congrArg VM.scopes htt
        have h3 := congrArg obs htt
        exact ⟨hcv.symm, h3, fun _ _ => ⟨h1, h2⟩⟩
      | error e =>
        rw [hcv] at hrun2
        obtain ⟨N, hN⟩ := loop_err (by simpa using hrun2)
        refine ⟨N, fun fuel hf => ?_⟩
        obtain ⟨t, ht, htt⟩ := hN fuel hf
        unfold run runOn
        rw [prologue_fresh, ht]
        exact ⟨hcv.symm, htt, fun _ h => by cases h⟩

end ExprModel.Refine
