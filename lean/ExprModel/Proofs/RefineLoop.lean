import ExprModel.Proofs.RefineSim
/-
C01 stage B, generic part: the code `emitLoop` produces, the scope facts at the loop head, and the loop
lemma `loop_iter` — induction on the remaining iterations, parametric in the Spec's per-iteration
function `fb`, the accumulator's footprint on the stack (`S`) and in the scope (`Extra`).
-/
set_option linter.unusedVariables false
set_option linter.unusedSimpArgs false
namespace ExprModel.Refine
open ExprModel
open ExprModel.Spec
open ExprModel.Spec.SML

/-! ### scopes -/

theorem lookup_set_same (k : String) (v : Val) : ∀ sc : Scope, lookupKv k (scopeSet k v sc) = some v
  | [] => by simp [scopeSet, lookupKv]
  | (k', v') :: rest => by
    unfold scopeSet
    by_cases h : (k == k') = true
    · simp [h, lookupKv]
    · simp [h, lookupKv, lookup_set_same k v rest]

theorem lookup_set_other {k k' : String} (hne : k ≠ k') (v : Val) : ∀ sc : Scope, lookupKv k' (scopeSet k v sc) = lookupKv k' sc
  | [] => by
    have : (k' == k) = false := by simpa using fun h => hne h.symm
    simp [scopeSet, lookupKv, this]
  | (k'', v') :: rest => by
    unfold scopeSet
    by_cases h : (k == k'') = true
    · have hk : k = k'' := by simpa using h
      subst hk
      have : (k' == k) = false := by simpa using fun h => hne h.symm
      simp [h, lookupKv, this]
    · simp [h, lookupKv, lookup_set_other hne v rest]

theorem wrap_int_id {x : Int} (h0 : 0 ≤ x) (h1 : x < 2 ^ 63) : wrap .int x = x := by
  simp only [wrap, Kind.bits, Kind.isSigned, if_true]
  omega

theorem less_int (a b : Int) : binHelper .less (.int .int a) (.int .int b) = .ok (.bool (decide (a < b))) := rfl

/-- the loop variables in the innermost scope -/
structure Base (sc : Scope) (coll : Val) (N : Nat) (i : Nat) : Prop where
  array : lookupKv "array" sc = some coll
  size : lookupKv "size" sc = some (.int .int N)
  idx : lookupKv "i" sc = some (.int .int i)

theorem Base.step {sc coll N i} (h : Base sc coll N i) : Base (scopeSet "i" (.int .int ((i + 1 : Nat) : Int)) sc) coll N (i + 1) :=
  ⟨by rw [lookup_set_other (by decide)]; exact h.array, by rw [lookup_set_other (by decide)]; exact h.size,
   lookup_set_same _ _ _⟩

theorem Base.scopesOK {sc coll N i} (h : Base sc coll N i) (ctx : Ctx) (scs : List Scope) :
    ScopesOK ((coll, (i : Int)) :: ctx) (sc :: scs) := ⟨sc, scs, rfl, h.array, h.idx⟩

/-! ### the emitted loop -/

/-- `emitLoop` with the jump operands in closed form -/
def loopCode (l : Loc) (ci cs car c0 : Nat) (body : List LInstr) : List LInstr :=
  [li l .len, li l .store cs, li l .store car, li l .push c0, li l .store ci,
   li l .load ci, li l .load cs, li l .less, li l .jumpIfFalse (lsize body + 7), li l .pop] ++ body ++
  [li l .inc ci, li l .jumpBackward (lsize body + 17), li l .pop]

theorem emitLoop_eq (l : Loc) (ci cs car c0 : Nat) (body : List LInstr) :
    emitLoop l ci cs car c0 body = loopCode l ci cs car c0 body := by
  have h1 : lsize ([li l .pop] ++ body ++ [li l .inc ci]) + 3 = lsize body + 7 := by ip_arith
  have h2 : lsize [li l .load ci, li l .load cs, li l .less] + 3 + lsize ([li l .pop] ++ body ++ [li l .inc ci]) + 3
      = lsize body + 17 := by ip_arith
  unfold emitLoop loopCode
  dsimp only
  rw [h1, h2]
  simp only [List.append_assoc, List.cons_append, List.nil_append]

theorem lsize_loopCode (l : Loc) (ci cs car c0 : Nat) (body : List LInstr) :
    lsize (loopCode l ci cs car c0 body) = lsize body + 31 := by
  unfold loopCode; ip_arith

theorem loopCode_body {P : LProg} {k0 : Nat} {l : Loc} {ci cs car c0 : Nat} {body rest : List LInstr}
    (h : CodeAt P k0 (loopCode l ci cs car c0 body ++ rest)) : CodeAt P (k0 + 24) body := by
  have := h.left.left.right
  exact this.cast (by ip_arith)

section
variable {c : Cfg} {P : LProg} {l : Loc} {ci cs car c0 : Nat} {body : List LInstr} {k0 : Nat}
  {st : List Val} {scs : List Scope}

/-- what one run of the closure body plus the builtin's own per-element code has to achieve -/
def BodyPost (c : Cfg) (P : LProg) {α : Type} (S : α → List Val) (Extra : Scope → Nat → α → Prop) (coll : Val) (N i : Nat)
    (kinc kexit : Nat) (st : List Val) (scs : List Scope) (s0 : VM) (res : R (α ⊕ Val)) (σ1 : SState) : Prop :=
  match res with
  | .ok (.inl acc') => ∃ sc', Base sc' coll N i ∧ Extra sc' (i + 1) acc' ∧
      Reach c P s0 (vm kinc (S acc' ++ st) (sc' :: scs) σ1 c.budget)
  | .ok (.inr v) => ∃ sc', Reach c P s0 (vm kexit (v :: st) (sc' :: scs) σ1 c.budget)
  | .error e => ReachErr c P s0 e σ1

/-- what the whole loop achieves from the loop head -/
def LoopPost (c : Cfg) (P : LProg) {α : Type} (S : α → List Val) (Extra : Scope → Nat → α → Prop) (coll : Val) (N : Nat)
    (kend kexit : Nat) (st : List Val) (scs : List Scope) (s0 : VM) (res : R (α ⊕ Val)) (σ' : SState) : Prop :=
  match res with
  | .ok (.inl acc') => ∃ sc', Base sc' coll N N ∧ Extra sc' N acc' ∧
      Reach c P s0 (vm kend (S acc' ++ st) (sc' :: scs) σ' c.budget)
  | .ok (.inr v) => ∃ sc', Reach c P s0 (vm kexit (v :: st) (sc' :: scs) σ' c.budget)
  | .error e => ReachErr c P s0 e σ'

theorem LoopPost.of_reach {α : Type} {S : α → List Val} {Extra : Scope → Nat → α → Prop} {coll : Val} {N kend kexit : Nat}
    {s0 s1 : VM} {res : R (α ⊕ Val)} {σ' : SState} (h : Reach c P s0 s1)
    (hp : LoopPost c P S Extra coll N kend kexit st scs s1 res σ') :
    LoopPost c P S Extra coll N kend kexit st scs s0 res σ' := by
  unfold LoopPost at hp ⊢
  split
  · obtain ⟨sc', hb, he, hr⟩ := hp; exact ⟨sc', hb, he, h.trans hr⟩
  · obtain ⟨sc', hr⟩ := hp; exact ⟨sc', h.trans hr⟩
  · exact h.trans_err hp

theorem loopIdxL_succ {α : Type} (body : Nat → α → SML (α ⊕ Val)) (fuel i : Nat) (acc : α) :
    loopIdxL body (fuel + 1) i acc = (body i acc >>= fun r => match r with
      | .inl acc' => loopIdxL body fuel (i + 1) acc'
      | .inr v => pure (.inr v)) := rfl

/-- the loop lemma; `fbL` is the located form of the per-iteration function `fb` (C13) -/
theorem loop_iter {α : Type} (fb : Nat → α → SM (α ⊕ Val)) (fbL : Nat → α → SML (α ⊕ Val))
    (hfbL : ∀ i acc σ x σ1, fb i acc σ = (.ok x, σ1) → fbL i acc σ = (.ok x, σ1))
    (S : α → List Val) (Extra : Scope → Nat → α → Prop)
    (hEx : ∀ sc j acc v, Extra sc j acc → Extra (scopeSet "i" v sc) j acc)
    (coll : Val) (N : Nat) (hN : (N : Int) < 2 ^ 63) (kexit : Nat)
    (hcode : CodeAt P k0 (loopCode l ci cs car c0 body)) (hK : LoopK P.consts ci cs car c0)
    (Hbody : ∀ (i : Nat) (acc : α) (σ : SState) (res : R (α ⊕ Val)) (σ1 : SState) (sc : Scope), i < N →
      Base sc coll N i → Extra sc i acc → fb i acc σ = (res, σ1) → BAt P.blame (fbL i acc) σ →
      BodyPost c P S Extra coll N i (k0 + 24 + lsize body) kexit st scs
        (vm (k0 + 24) (S acc ++ st) (sc :: scs) σ c.budget) res σ1) :
    ∀ (fuel i : Nat) (acc : α) (sc : Scope) (σ : SState) (res : R (α ⊕ Val)) (σ' : SState), i + fuel = N →
      Base sc coll N i → Extra sc i acc → loopIdx fb fuel i acc σ = (res, σ') → BAt P.blame (loopIdxL fbL fuel i acc) σ →
      LoopPost c P S Extra coll N (k0 + 31 + lsize body) kexit st scs
        (vm (k0 + 13) (S acc ++ st) (sc :: scs) σ c.budget) res σ' := by
  -- the fixed segments
  have hcond : CodeAt P (k0 + 13) [li l .load ci, li l .load cs, li l .less, li l .jumpIfFalse (lsize body + 7), li l .pop] := by
    have := hcode.left.left
    have h2 := CodeAt.right (a := [li l .len, li l .store cs, li l .store car, li l .push c0, li l .store ci])
      (b := [li l .load ci, li l .load cs, li l .less, li l .jumpIfFalse (lsize body + 7), li l .pop]) (by simpa using this)
    exact h2.cast (by ip_arith)
  have htail : CodeAt P (k0 + 24 + lsize body) [li l .inc ci, li l .jumpBackward (lsize body + 17), li l .pop] :=
    hcode.right.cast (by ip_arith)
  intro fuel
  induction fuel with
  | zero =>
    intro i acc sc σ res σ' hi hb he hev hblm
    have hiN : i = N := by omega
    subst hiN
    rw [loopIdx, SM.pure_apply] at hev
    obtain ⟨rfl, rfl⟩ := Prod.mk.inj hev
    refine ⟨sc, hb, he, ?_⟩
    show Runs c P _ (Res.ok _)
    refine Runs.load hcond hK.i ?_
    simp only [hb.idx, Option.getD_some]
    refine Runs.load hcond.tail3 hK.size ?_
    simp only [hb.size, Option.getD_some]
    refine Runs.andThen (Runs.binop hcond.tail3.tail3 (hlp := .less) rfl (fun e he => by rw [less_int] at he; cases he)) ?_ ?_
    · intro v hv
      rw [less_int] at hv
      cases hv
      simp only [Int.lt_irrefl, decide_false]
      refine Runs.jumpIfFalse_false hcond.tail3.tail3.tail1 ?_
      refine Runs.pop (htail.tail3.tail3.cast (by ip_arith)) ?_
      exact (Reach.refl _).to_ip (by ip_arith)
    · intro e he'
      rw [less_int] at he'; cases he'
  | succ fuel ih =>
    intro i acc sc σ res σ' hi hb he hev hblm
    have hiN : i < N := by omega
    rw [loopIdx, SM.bind_apply] at hev
    -- the head of the iteration: i < size, fall through, pop
    have hhead : Reach c P (vm (k0 + 13) (S acc ++ st) (sc :: scs) σ c.budget)
        (vm (k0 + 24) (S acc ++ st) (sc :: scs) σ c.budget) := by
      show Runs c P _ (Res.ok _)
      refine Runs.load hcond hK.i ?_
      simp only [hb.idx, Option.getD_some]
      refine Runs.load hcond.tail3 hK.size ?_
      simp only [hb.size, Option.getD_some]
      refine Runs.andThen (Runs.binop hcond.tail3.tail3 (hlp := .less) rfl (fun e he => by rw [less_int] at he; cases he)) (Q := .ok _) ?_ ?_
      · intro v hv
        rw [less_int] at hv
        cases hv
        have : ((i : Int) < (N : Int)) := by omega
        simp only [this, decide_true]
        refine Runs.jumpIfFalse_true hcond.tail3.tail3.tail1 ?_
        refine Runs.pop hcond.tail3.tail3.tail1.tail3 ?_
        exact (Reach.refl _).to_ip (by ip_arith)
      · intro e he'
        rw [less_int] at he'; cases he'
    refine LoopPost.of_reach hhead ?_
    cases hfb : fb i acc σ with
    | mk r1 σ1 =>
    rw [hfb] at hev
    rw [loopIdxL_succ] at hblm
    have hbp := Hbody i acc σ r1 σ1 sc hiN hb he hfb hblm.left
    cases r1 with
    | error e =>
      simp only [Prod.mk.injEq] at hev
      obtain ⟨rfl, rfl⟩ := hev
      exact hbp
    | ok x =>
      cases x with
      | inr v =>
        simp only [SM.pure_apply, Prod.mk.injEq] at hev
        obtain ⟨rfl, rfl⟩ := hev
        exact hbp
      | inl acc' =>
        simp only at hev
        obtain ⟨sc', hb', he', hr⟩ := hbp
        refine LoopPost.of_reach hr ?_
        -- inc i; jump back
        have hinc : Reach c P (vm (k0 + 24 + lsize body) (S acc' ++ st) (sc' :: scs) σ1 c.budget)
            (vm (k0 + 13) (S acc' ++ st) (scopeSet "i" (.int .int ((i + 1 : Nat) : Int)) sc' :: scs) σ1 c.budget) := by
          show Runs c P _ (Res.ok _)
          refine Runs.inc htail hK.i hb'.idx ?_
          rw [wrap_int_id (by omega) (by omega)]
          refine Runs.jumpBackward htail.tail3 (by omega) ?_
          have : ((i : Int) + 1) = ((i + 1 : Nat) : Int) := by omega
          rw [this]
          exact (Reach.refl _).to_ip (by omega)
        refine LoopPost.of_reach hinc ?_
        exact ih (i + 1) acc' _ σ1 res σ' (by omega) hb'.step (hEx _ _ _ _ he') hev (hblm.right (hfbL _ _ _ _ _ hfb))

end

end ExprModel.Refine
