import ExprModel.Proofs.ParserConv
/-
Round trip, part 1: statements, parentheses, literals, binary and unary operators.
-/
namespace ExprModel.Parser

/-- what the round trip needs to know about the tables (all decidable; proved for the documented tables) -/
structure TbOK (tb : Tables) : Prop where
  coherent : ∀ o o' q a a', tb.binary.lookup o = some (q, a) → tb.binary.lookup o' = some (q, a') → a = a'
  un_pos : ∀ o pu a, tb.unary.lookup o = some (pu, a) → 0 < pu
  bin_pos : ∀ o q a, tb.binary.lookup o = some (q, a) → 0 < q
  bin_follow : ∀ o qa, tb.binary.lookup o = some qa → o ≠ "." ∧ o ≠ "?." ∧ o ≠ "[" ∧ o ≠ "(" ∧ o ≠ "?"
  un_val : ∀ o x, tb.unary.lookup o = some x → o ≠ "#" ∧ o ≠ "." ∧ o ≠ ":" ∧ o ≠ ","
  bi_names : ∀ n ar, tb.builtins.lookup n = some ar → reserved n = false
  no_quest : tb.binary.lookup "?" = none
  no_colon : tb.binary.lookup ":" = none
  no_comma : tb.binary.lookup "," = none

structure Hyp (cfg : Cfg) (sh : NumShow) : Prop where
  tb : TbOK cfg.tb
  int_rt : ∀ n : Nat, n < 2 ^ 63 → cfg.num (sh.showInt n) = some (.int n)
  float_rt : ∀ b : UInt64, floatLit b = true → cfg.num (sh.showFloat b) = some (.float b)

variable (cfg : Cfg) (sh : NumShow) (pc : ParenChoice)

/-- context invariant: a binary operator that follows the text binds no tighter on its left than the
    level at which the text is parsed -/
def Inv (m : Nat) (fw : Token) : Prop := ∀ q a, binOp cfg fw = some (q, a) → lprec q a ≤ m

/-- round trip of `t` in an expression context, generalised: parsing the text of `t` at a level `p ≤ m`
    behaves like the operator loop continuing from `t` -/
def EStmt (t : Node) : Prop :=
  ∀ (π : List Nat) (m p : Nat) (fw : Token) (tl : List Token) (d : Nat) (res : Res Node),
    canon cfg d t = true → p ≤ m → FollowTok fw → Inv cfg m fw →
    Conv (fun f => cont cfg f d p t (fw :: tl)) res →
    Conv (fun f => parseExpression cfg f d p (pr cfg sh pc π m fw t ++ fw :: tl)) res

/-- the same for the bare text, where the omission rule allows it -/
def EbStmt (t : Node) : Prop :=
  ∀ (π : List Nat) (m p : Nat) (fw : Token) (tl : List Token) (d : Nat) (res : Res Node),
    canon cfg d t = true → p ≤ m → needParens cfg m fw t = false → FollowTok fw → Inv cfg m fw →
    Conv (fun f => cont cfg f d p t (fw :: tl)) res →
    Conv (fun f => parseExpression cfg f d p (body cfg sh pc π m fw t ++ fw :: tl)) res

theorem followTok_rparen : FollowTok rparen := by
  simp [FollowTok, rparen, tok]

theorem binOp_bracket (v : String) (l : Loc) : binOp cfg (tok .bracket v l) = none := by
  simp [binOp, tok]

theorem stops_rparen (p : Nat) : Stops cfg p rparen := by
  refine ⟨fun q a h => ?_, fun _ => ?_⟩
  · simp [rparen, binOp_bracket] at h
  · simp [rparen, tok, Token.is]

theorem inv_rparen (m : Nat) : Inv cfg m rparen := by
  intro q a h
  simp [rparen, binOp_bracket] at h

theorem needParens_zero_rparen (t : Node) : needParens cfg 0 rparen t = false := by
  have hb : binOp cfg rparen = none := binOp_bracket cfg ")" {}
  cases t <;> simp only [needParens, hb] <;> try rfl
  all_goals first
    | (split <;> simp_all)
    | simp [rparen, tok, Token.is]

theorem parsePrimary_lparen (f d : Nat) (ts : List Token) (h : ts ≠ []) :
    parsePrimary cfg (f+1) d (lparen :: ts) =
      (parseExpression cfg f d 0 ts).bind fun e ts2 =>
      (expect .bracket ")" ts2).bind fun _ ts3 => parsePostfix cfg f d e false ts3 := by
  rw [parsePrimary]
  simp [lparen, tok, unOp, Token.is, next_cons_of_ne _ _ h]

theorem expect_rparen (t2 : Token) (tl : List Token) :
    expect .bracket ")" (rparen :: t2 :: tl) = .ok () (t2 :: tl) := by
  simp [expect, rparen, tok, Token.is, next]

/-- parenthesised text (k+1 pairs) as a primary -/
theorem conv_primary_wrap {d : Nat} {b : List Token} {t : Node}
    (hb : ∀ tl', Conv (fun f => parseExpression cfg f d 0 (b ++ rparen :: tl')) (.ok t (rparen :: tl'))) :
    ∀ (k : Nat) (fw : Token) (tl : List Token) (res : Res Node),
      Conv (fun f => parsePostfix cfg f d t false (fw :: tl)) res →
      Conv (fun f => parsePrimary cfg f d (wrap (k+1) b ++ fw :: tl)) res := by
  intro k
  induction k with
  | zero =>
    intro fw tl res hp
    apply Conv.of_succ
    have hne : wrap 0 b ++ [rparen] ++ fw :: tl ≠ [] := by simp
    refine Conv.congr (fun f => by
      show parsePrimary cfg (f+1) d (lparen :: (wrap 0 b ++ [rparen] ++ fw :: tl)) = _
      exact parsePrimary_lparen cfg f d _ hne) ?_
    have h1 := hb (fw :: tl)
    simp only [wrap, List.append_assoc, List.singleton_append]
    refine Conv.bind h1 ?_
    simp only [expect_rparen, Res.bind_ok]
    exact hp
  | succ k ih =>
    intro fw tl res hp
    apply Conv.of_succ
    have hne : wrap (k+1) b ++ [rparen] ++ fw :: tl ≠ [] := by simp
    refine Conv.congr (fun f => by
      show parsePrimary cfg (f+1) d (lparen :: (wrap (k+1) b ++ [rparen] ++ fw :: tl)) = _
      exact parsePrimary_lparen cfg f d _ hne) ?_
    have h1 : Conv (fun f => parseExpression cfg f d 0 (wrap (k+1) b ++ rparen :: fw :: tl)) (.ok t (rparen :: fw :: tl)) := by
      refine conv_parseExpression cfg (ih rparen (fw :: tl) _ (conv_postfix_stop cfg followTok_rparen d t false _)) ?_
      exact conv_cont_stop cfg (stops_rparen cfg 0) d t _
    simp only [List.append_assoc, List.singleton_append]
    refine Conv.bind h1 ?_
    simp only [expect_rparen, Res.bind_ok]
    exact hp

/-- from the bare statement to the full one: parentheses where needed or chosen -/
theorem E_of_Ebare {t : Node} (h : EbStmt cfg sh pc t) : EStmt cfg sh pc t := by
  intro π m p fw tl d res hc hpm hfw hinv hcont
  unfold pr parenthesize
  split
  · next hk => exact h π m p fw tl d res hc hpm hk.2 hfw hinv hcont
  · next hk =>
    obtain ⟨k, hk'⟩ : ∃ k, max (pc π) 1 = k + 1 := ⟨max (pc π) 1 - 1, by omega⟩
    rw [hk']
    refine conv_parseExpression cfg (conv_primary_wrap cfg (fun tl' => ?_) k fw tl _
      (conv_postfix_stop cfg hfw d t false tl)) hcont
    exact h π 0 0 rparen tl' d _ hc (Nat.le_refl _) (needParens_zero_rparen cfg t) followTok_rparen
      (inv_rparen cfg 0) (conv_cont_stop cfg (stops_rparen cfg 0) d t _)

end ExprModel.Parser
