import ExprModel.Spec.Eval
/-
C01: unfolding equations of the reference evaluator `Spec.eval` / `Spec.evalList` (all by `rfl`, stated
once), and the small calculus of the state monad `SM` used by the refinement proof.
-/
set_option linter.unusedVariables false
namespace ExprModel.Refine
open ExprModel
open ExprModel.Spec

/-! ### the monad -/

theorem SM.bind_apply {α β : Type} (m : SM α) (f : α → SM β) (σ : SState) :
    (m >>= f) σ = match m σ with
      | (.ok a, σ1) => f a σ1
      | (.error e, σ1) => (.error e, σ1) := rfl

theorem SM.bind_cases {α β : Type} {m : SM α} {f : α → SM β} {σ σ' : SState} {r : R β} (h : (m >>= f) σ = (r, σ')) :
    (∃ e, m σ = (.error e, σ') ∧ r = .error e) ∨ (∃ a σ1, m σ = (.ok a, σ1) ∧ f a σ1 = (r, σ')) := by
  rw [SM.bind_apply] at h
  cases hm : m σ with
  | mk r1 σ1 =>
    cases r1 with
    | error e =>
      rw [hm] at h
      simp only [Prod.mk.injEq] at h
      obtain ⟨rfl, rfl⟩ := h
      exact .inl ⟨e, rfl, rfl⟩
    | ok a =>
      rw [hm] at h
      exact .inr ⟨a, σ1, rfl, h⟩

@[simp] theorem SM.pure_apply {α : Type} (a : α) (σ : SState) : (pure a : SM α) σ = (.ok a, σ) := rfl
@[simp] theorem SM.fail_apply {α : Type} (e : ErrClass) (σ : SState) : (SM.fail e : SM α) σ = (.error e, σ) := rfl
@[simp] theorem SM.lift_apply {α : Type} (r : R α) (σ : SState) : (SM.lift r) σ = (r, σ) := by cases r <;> rfl

theorem asBool_bool (b : Bool) : asBool (.bool b) = pure b := rfl
theorem asBool_other {v : Val} (h : ∀ b, v ≠ .bool b) : asBool v = SM.fail .type_ := by
  cases v <;> first | rfl | exact absurd rfl (h _)

/-! ### `eval`, one equation per node kind -/
variable (c : SCfg) (ctx : Ctx)

theorem eval_nil (m) : eval c ctx (.nil m) = pure .nil := rfl
theorem eval_ident (m name nilsafe) : eval c ctx (.ident m name nilsafe) = SM.lift (fetchV c.env (.str name) nilsafe) := rfl
theorem eval_int (m v) : eval c ctx (.int m v) = pure (intConst m.kd v) := rfl
theorem eval_float (m bits) : eval c ctx (.float m bits) = pure (.f64 (Float.ofBits bits)) := rfl
theorem eval_bool (m b) : eval c ctx (.bool m b) = pure (.bool b) := rfl
theorem eval_str (m s) : eval c ctx (.str m s) = pure (.str s) := rfl
theorem eval_const (m v) : eval c ctx (.const m v) = pure v := rfl

theorem eval_unary (m op x) : eval c ctx (.unary m op x) = (do
    let v ← eval c ctx x
    if op == "!" || op == "not" then SM.lift (notV v)
    else if op == "-" then SM.lift (negV v)
    else if op == "+" then pure v
    else SM.fail .badop) := rfl

theorem eval_binary (m op l r) : eval c ctx (.binary m op l r) = (do
    if op == "and" || op == "&&" then
      let a ← eval c ctx l
      if ← asBool a then eval c ctx r else pure (.bool false)
    else if op == "or" || op == "||" then
      let a ← eval c ctx l
      if ← asBool a then pure (.bool true) else eval c ctx r
    else
      let a ← eval c ctx l
      let b ← eval c ctx r
      if op == "==" then
        if l.kd == r.kd && l.kd == .num .int then
          match a, b with
          | .int .int x, .int .int y => pure (.bool (x == y))
          | _, _ => SM.fail .type_
        else if l.kd == r.kd && l.kd == .string then
          match a, b with
          | .str x, .str y => pure (.bool (x == y))
          | _, _ => SM.fail .type_
        else pure (.bool (equalV a b))
      else if op == "!=" then pure (.bool (!equalV a b))
      else if op == "in" then do pure (.bool (← SM.lift (inV a b)))
      else if op == "not in" then do pure (.bool (!(← SM.lift (inV a b))))
      else if op == "**" then
        match toFloat64Val a, toFloat64Val b with
        | some x, some y => pure (.f64 (c.world.pow x y))
        | _, _ => SM.fail .type_
      else if op == ".." then do
        let lo ← SM.lift (toIntR a)
        let hi ← SM.lift (toIntR b)
        let size : Int := hi - lo + 1
        let counted : Int := if c.rangeSizeSigned then size else (if size < 0 then 0 else size)
        let elems := rangeElems lo hi
        SM.allocBefore c.budget counted elems.length
        pure (.arr (.num .int) elems)
      else if op == "contains" then SM.lift (strOp strContains a b)
      else if op == "startsWith" then SM.lift (strOp strHasPrefix a b)
      else if op == "endsWith" then SM.lift (strOp strHasSuffix a b)
      else match binArith op with
        | some h => SM.lift (binHelper h a b)
        | none => SM.fail .badop) := rfl

theorem eval_matches (m hasRe l r) : eval c ctx (.matches m hasRe l r) = (do
    let a ← eval c ctx l
    if hasRe then
      let pat := match r with
        | .str _ s => s
        | _ => ""
      match a with
      | .str subj => match c.world.regexMatch pat subj with
        | some m => pure (.bool m)
        | none => SM.fail .type_
      | _ => SM.fail .type_
    else
      let b ← eval c ctx r
      match a, b with
      | .str subj, .str pat => match c.world.regexMatch pat subj with
        | some m => pure (.bool m)
        | none => SM.fail .type_
      | _, _ => SM.fail .type_) := rfl

theorem eval_prop (m x name nilsafe) : eval c ctx (.prop m x name nilsafe) = (do
    let v ← eval c ctx x
    SM.lift (fetchV v (.str name) nilsafe)) := rfl

theorem eval_index (m x i) : eval c ctx (.index m x i) = (do
    let a ← eval c ctx x
    let b ← eval c ctx i
    SM.lift (fetchV a b false)) := rfl

/-- slice bounds, upper bound first (the order the compiler emits them in) -/
theorem eval_slice_ss (h : c.sliceToFirst = true) (m x f t) : eval c ctx (.slice m x (some f) (some t)) = (do
    let a ← eval c ctx x
    let tv ← eval c ctx t
    let fv ← eval c ctx f
    SM.lift (sliceV a fv tv)) := by
  show (do let a ← eval c ctx x; if c.sliceToFirst then _ else _) = _
  rw [h]; rfl
theorem eval_slice_sn (h : c.sliceToFirst = true) (m x f) : eval c ctx (.slice m x (some f) none) = (do
    let a ← eval c ctx x
    let n ← SM.lift (lengthV a)
    let tv ← (pure (.int .int n) : SM Val)
    let fv ← eval c ctx f
    SM.lift (sliceV a fv tv)) := by
  show (do let a ← eval c ctx x; if c.sliceToFirst then _ else _) = _
  rw [h]; rfl
theorem eval_slice_ns (h : c.sliceToFirst = true) (m x t) : eval c ctx (.slice m x none (some t)) = (do
    let a ← eval c ctx x
    let tv ← eval c ctx t
    let fv ← (pure (.int .int 0) : SM Val)
    SM.lift (sliceV a fv tv)) := by
  show (do let a ← eval c ctx x; if c.sliceToFirst then _ else _) = _
  rw [h]; rfl
theorem eval_slice_nn (h : c.sliceToFirst = true) (m x) : eval c ctx (.slice m x none none) = (do
    let a ← eval c ctx x
    let n ← SM.lift (lengthV a)
    let tv ← (pure (.int .int n) : SM Val)
    let fv ← (pure (.int .int 0) : SM Val)
    SM.lift (sliceV a fv tv)) := by
  show (do let a ← eval c ctx x; if c.sliceToFirst then _ else _) = _
  rw [h]; rfl

theorem eval_method (m x name args nilsafe) : eval c ctx (.method m x name args nilsafe) = (do
    let obj ← eval c ctx x
    let vs ← evalList c ctx args
    if nilsafe && obj.isNilLike then pure .nil
    else
      let r := callMember c.world obj name vs
      if callHappened r then SM.logCall name vs
      SM.lift r) := rfl

theorem eval_func (m name args fast) : eval c ctx (.func m name args fast) = (do
    let vs ← evalList c ctx args
    let r := callMember c.world c.env name vs
    if callHappened r then SM.logCall name vs
    SM.lift r) := rfl

theorem eval_len (m a) : eval c ctx (.builtin m "len" [a]) = (do
    let v ← eval c ctx a
    pure (.int .int (← SM.lift (lengthV v)))) := rfl

theorem eval_closure (m x) : eval c ctx (.closure m x) = eval c ctx x := rfl

theorem eval_pointer (m) : eval c ctx (.pointer m) = (match ctx with
    | (coll, i) :: _ => SM.lift (fetchV coll (.int .int i) false)
    | [] => SM.fail .type_) := rfl

theorem eval_cond (m cnd a b) : eval c ctx (.cond m cnd a b) = (do
    let v ← eval c ctx cnd
    if ← asBool v then eval c ctx a else eval c ctx b) := rfl

theorem eval_array (m xs) : eval c ctx (.array m xs) = (do
    let vs ← evalList c ctx xs
    SM.allocAfter c.budget vs.length vs.length
    pure (.arr .iface vs)) := rfl

theorem eval_map (m ps) : eval c ctx (.map m ps) = (do
    let flat ← evalList c ctx ps
    let mp ← SM.lift (buildMap flat)
    SM.allocAfter c.budget ps.length ps.length
    pure (.map mp)) := rfl

theorem evalList_nil : evalList c ctx [] = pure [] := rfl

theorem evalList_pair (m k v rest) : evalList c ctx (.pair m k v :: rest) = (do
    let kv ← eval c ctx k
    let vv ← eval c ctx v
    let vs ← evalList c ctx rest
    pure (kv :: vv :: vs)) := rfl

def isPair : Node → Bool
  | .pair .. => true
  | _ => false

theorem evalList_cons (n rest) (h : isPair n = false) : evalList c ctx (n :: rest) = (do
    let v ← eval c ctx n
    let vs ← evalList c ctx rest
    pure (v :: vs)) := by
  cases n <;> first | rfl | (simp [isPair] at h)

end ExprModel.Refine
