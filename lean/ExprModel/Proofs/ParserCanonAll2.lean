import ExprModel.Proofs.ParserCanonAll
import ExprModel.Proofs.ParserSuffix
/-
The image of the parser is canonical: the induction over the fuel, part 2 (identifiers, calls,
closures, collections, postfix chains) and the top-level theorem.
-/
namespace ExprModel.Parser

variable (cfg : Cfg)

theorem can_clos {f : Nat} (ih : CanAt cfg f) : ∀ d ts,
    Post (fun n _ => ∃ mc b, n = .closure mc b ∧ inv mc = true ∧ canon cfg (d+1) b = true)
      (parseClosure cfg (f+1) d ts) := by
  intro d ts
  rw [parseClosure]
  refine Post.bind (post_expect _ _ ts) ?_
  intro _ ts1 _
  refine Post.bind (ih.expr (d+1) 0 ts1) ?_
  intro n ts2 hn
  refine Post.bind (post_expect _ _ ts2) ?_
  intro _ ts3 hrb
  exact Post.ok ⟨_, _, rfl, inv_mk _, canon_of_QX_is cfg hn hrb (Or.inr rfl)⟩

theorem can_ident (hy : ImgHyp cfg) {f : Nat} (ih : CanAt cfg f) : ∀ d tok ts, reserved tok.value = false →
    Post (fun n ts' => baseOK cfg d n ts' = true) (parseIdentifierExpression cfg (f+1) d tok ts) := by
  intro d tok ts hres
  rw [parseIdentifierExpression]
  split
  · split
    · next ar hl =>
      refine Post.bind (post_expect _ _ ts) ?_
      intro _ ts1 _
      refine Post.bind (Q1 := fun args ts5 =>
        (ar = 1 ∧ ∃ a, args = [a] ∧ canonX cfg (pendB ts5) d a = true) ∨
        (ar = 2 ∧ ∃ a mc b, args = [a, .closure mc b] ∧ canon cfg d a = true ∧ inv mc = true ∧
          canon cfg (d+1) b = true)) ?_ ?_
      · split
        · next h1 =>
          refine Post.bind (ih.expr d 0 ts1) ?_
          intro a ts2 ha
          exact Post.ok (Or.inl ⟨h1, a, rfl, ha⟩)
        · next h1 =>
          split
          · next h2 =>
            refine Post.bind (ih.expr d 0 ts1) ?_
            intro a ts2 ha
            refine Post.bind (post_expect _ _ ts2) ?_
            intro _ ts3 hcm
            refine Post.bind (ih.clos d ts3) ?_
            intro c ts4 hc
            obtain ⟨mc, b, rfl, hmc, hb⟩ := hc
            exact Post.ok (Or.inr ⟨h2, a, mc, b, rfl, canon_of_QX_is cfg ha hcm (Or.inl rfl), hmc, hb⟩)
          · next h2 =>
            rcases hy.arity _ ar hl with h | h
            · exact absurd h h1
            · exact absurd h h2
      · intro args ts5 hargs
        refine Post.bind (post_expect _ _ ts5) ?_
        intro _ ts6 hrp
        refine Post.ok (baseOK_of_canon cfg ts6 ?_)
        rcases hargs with ⟨har, a, rfl, ha⟩ | ⟨har, a, mc, b, rfl, ha, hmc, hb⟩
        · have := canon_of_QX_is cfg ha hrp (Or.inr rfl)
          simp [canon, inv_mk, hl, har, this]
        · simp [canon, inv_mk, hl, har, ha, hmc, hb]
    · next hl =>
      refine Post.bind (ih.args d ts) ?_
      intro args ts1 ha
      refine Post.ok (baseOK_of_canon cfg ts1 ?_)
      simp [canon, inv_mk, hres, hl, ha]
  · refine Post.ok ?_
    simp [baseOK, canonBaseWith, inv_mk, hres]

theorem can_arr {f : Nat} (ih : CanAt cfg f) : ∀ d ts,
    Post (fun n _ => canon cfg d n = true) (parseArray cfg (f+1) d ts) := by
  intro d ts
  rw [parseArray]
  refine Post.bind (post_expect _ _ ts) ?_
  intro _ ts1 _
  refine Post.bind (ih.arrL d true ts1) ?_
  intro ns ts2 hns
  refine Post.bind (post_expect _ _ ts2) ?_
  intro _ ts3 _
  exact Post.ok (by simp [canon, inv_mk, hns.1])

theorem can_arrL {f : Nat} (ih : CanAt cfg f) : ∀ d b ts,
    Post (fun ns _ => canonList cfg d ns = true ∧ (b = false → pendB ts = false)) (arrayLoop cfg (f+1) d b ts) := by
  intro d b ts
  rw [arrayLoop]
  split
  · next hrb => exact Post.ok ⟨by simp [canonList], fun _ => pend_false_of_is hrb (Or.inr rfl)⟩
  · refine Post.bind (post_sep b ts) ?_
    intro _ ts1 hsep
    have hpend : b = false → pendB ts = false := fun hb => pend_false_of_is (hsep.2 hb) (Or.inl rfl)
    split
    · exact Post.ok ⟨by simp [canonList], hpend⟩
    · refine Post.bind (ih.expr d 0 ts1) ?_
      intro n ts2 hn
      refine Post.bind (ih.arrL d false ts2) ?_
      intro ns ts3 hns
      refine Post.ok ⟨?_, hpend⟩
      have hn' : canonX cfg (pendB ts2) d n = true := hn
      rw [hns.2 rfl] at hn'
      simp [canonList, canon_of_canonX_false cfg hn', hns.1]

theorem can_args {f : Nat} (ih : CanAt cfg f) : ∀ d ts,
    Post (fun as _ => canonList cfg d as = true) (parseArguments cfg (f+1) d ts) := by
  intro d ts
  rw [parseArguments]
  refine Post.bind (post_expect _ _ ts) ?_
  intro _ ts1 _
  refine Post.bind (ih.argsL d true ts1) ?_
  intro ns ts2 hns
  refine Post.bind (post_expect _ _ ts2) ?_
  intro _ ts3 _
  exact Post.ok hns.1

theorem can_argsL {f : Nat} (ih : CanAt cfg f) : ∀ d b ts,
    Post (fun ns _ => canonList cfg d ns = true ∧ (b = false → pendB ts = false)) (argsLoop cfg (f+1) d b ts) := by
  intro d b ts
  rw [argsLoop]
  split
  · next hrb => exact Post.ok ⟨by simp [canonList], fun _ => pend_false_of_is hrb (Or.inr rfl)⟩
  · refine Post.bind (post_sep b ts) ?_
    intro _ ts1 hsep
    have hpend : b = false → pendB ts = false := fun hb => pend_false_of_is (hsep.2 hb) (Or.inl rfl)
    refine Post.bind (ih.expr d 0 ts1) ?_
    intro n ts2 hn
    refine Post.bind (ih.argsL d false ts2) ?_
    intro ns ts3 hns
    refine Post.ok ⟨?_, hpend⟩
    have hn' : canonX cfg (pendB ts2) d n = true := hn
    rw [hns.2 rfl] at hn'
    simp [canonList, canon_of_canonX_false cfg hn', hns.1]

theorem can_map {f : Nat} (ih : CanAt cfg f) : ∀ d ts,
    Post (fun n _ => canon cfg d n = true) (parseMap cfg (f+1) d ts) := by
  intro d ts
  rw [parseMap]
  refine Post.bind (post_expect _ _ ts) ?_
  intro _ ts1 _
  refine Post.bind (ih.mapL d (cur ts).loc true ts1) ?_
  intro ps ts2 hps
  refine Post.bind (post_expect _ _ ts2) ?_
  intro _ ts3 _
  refine Post.ok ?_
  have : (mk (cur ts).loc).loc = (cur ts).loc := rfl
  simp [canon, inv_mk, this, hps.1]

theorem can_mapL {f : Nat} (ih : CanAt cfg f) : ∀ d l b ts,
    Post (fun ps _ => canonPairs cfg d l ps = true ∧ (b = false → pendB ts = false)) (mapLoop cfg (f+1) d l b ts) := by
  intro d l b ts
  rw [mapLoop]
  split
  · next hrb => exact Post.ok ⟨by simp [canonPairs], fun _ => pend_false_of_is hrb (Or.inr rfl)⟩
  · refine Post.bind (post_sep b ts) ?_
    intro _ ts1 hsep
    have hpend : b = false → pendB ts = false := fun hb => pend_false_of_is (hsep.2 hb) (Or.inl rfl)
    split
    · exact Post.ok ⟨by simp [canonPairs], hpend⟩
    · split
      · exact Post.err
      · refine Post.bind (Q1 := QX cfg d) ?_ ?_
        · split
          · refine Post.bind (post_next ts1) ?_
            intro _ ts2 _
            exact Post.ok (canonX_of_canon cfg (by simp [canon, inv_mk]) _)
          · split
            · exact ih.expr d 0 ts1
            · exact Post.err
        · intro key ts2 hkey
          refine Post.bind (post_expect _ _ ts2) ?_
          intro _ ts3 hcol
          have hck := canon_of_QX_is cfg hkey hcol (Or.inl rfl)
          refine Post.bind (ih.expr d 0 ts3) ?_
          intro v ts4 hv
          refine Post.bind (ih.mapL d l false ts4) ?_
          intro ps ts5 hps
          refine Post.ok ⟨?_, hpend⟩
          have hv' : canonX cfg (pendB ts4) d v = true := hv
          rw [hps.2 rfl] at hv'
          simp [canonPairs, hck, canon_of_canonX_false cfg hv', hps.1]

theorem can_post {f : Nat} (ih : CanAt cfg f) : ∀ d nd b ts, baseOK cfg d nd ts = true →
    Post (QX cfg d) (parsePostfix cfg (f+1) d nd b ts) := by
  intro d nd b ts hb
  rw [parsePostfix]
  split
  · next hk =>
    split
    · next hv =>
      have hbase := base_link cfg b hb hk
      refine Post.bind (post_next ts) ?_
      intro _ ts1 _
      refine Post.bind (post_next ts1) ?_
      intro _ ts2 _
      split
      · exact Post.err
      · split
        · refine Post.bind (ih.args d ts2) ?_
          intro args ts3 ha
          refine ih.post d _ _ ts3 (baseOK_of_canon cfg ts3 ?_)
          simp only [canon, inv_mk, Bool.true_and, Bool.and_eq_true]
          exact ⟨hbase, ha⟩
        · refine ih.post d _ _ ts2 (baseOK_of_canon cfg ts2 ?_)
          simp only [canon, inv_mk, Bool.true_and]
          exact hbase
    · next hv =>
      split
      · next hlb =>
        have hbase := base_index cfg hb hk hlb
        -- the optional upper bound
        have hto : ∀ (f' : Nat) (ts3 : List Token), (∀ ts, Post (QX cfg d) (parseExpression cfg f' d 0 ts)) →
            Post (fun (to : Option Node) ts4 => ∀ e, to = some e → canonX cfg (pendB ts4) d e = true)
              (if (cur ts3).is .bracket "]" = true then Res.ok none ts3
               else (parseExpression cfg f' d 0 ts3).bind fun e ts4 => .ok (some e) ts4) := by
          intro f' ts3 hE
          split
          · exact Post.ok (fun e he => by cases he)
          · refine Post.bind (hE ts3) ?_
            intro e ts4 he
            exact Post.ok (fun e' he' => by cases he'; exact he)
        refine Post.bind (post_next ts) ?_
        intro _ ts1 _
        split
        · refine Post.bind (post_next ts1) ?_
          intro _ ts2 _
          refine Post.bind (hto f ts2 (fun ts => ih.expr d 0 ts)) ?_
          intro to ts3 hto'
          refine Post.bind (post_expect _ _ ts3) ?_
          intro _ ts4 hrb
          refine ih.post d _ _ ts4 (baseOK_of_canon cfg ts4 ?_)
          have hcto : canonOpt cfg d to = true := by
            cases to with
            | none => rfl
            | some e => exact canon_of_QX_is cfg (hto' e rfl) hrb (Or.inr rfl)
          simp only [canon, inv_mk, Bool.true_and, Bool.and_eq_true]
          exact ⟨⟨hbase, rfl⟩, hcto⟩
        · refine Post.bind (ih.expr d 0 ts1) ?_
          intro fr ts2 hfr
          split
          · next hcol =>
            have hcfr := canon_of_QX_is cfg hfr hcol (Or.inl rfl)
            refine Post.bind (post_next ts2) ?_
            intro _ ts3 _
            refine Post.bind (hto f ts3 (fun ts => ih.expr d 0 ts)) ?_
            intro to ts4 hto'
            refine Post.bind (post_expect _ _ ts4) ?_
            intro _ ts5 hrb
            refine ih.post d _ _ ts5 (baseOK_of_canon cfg ts5 ?_)
            have hcto : canonOpt cfg d to = true := by
              cases to with
              | none => rfl
              | some e => exact canon_of_QX_is cfg (hto' e rfl) hrb (Or.inr rfl)
            simp only [canon, inv_mk, Bool.true_and, Bool.and_eq_true]
            exact ⟨⟨hbase, hcfr⟩, hcto⟩
          · refine Post.bind (post_expect _ _ ts2) ?_
            intro _ ts3 hrb
            have hcfr := canon_of_QX_is cfg hfr hrb (Or.inr rfl)
            refine ih.post d _ _ ts3 (baseOK_of_canon cfg ts3 ?_)
            simp only [canon, inv_mk, Bool.true_and, Bool.and_eq_true]
            exact ⟨hbase, hcfr⟩
      · refine Post.ok (base_stop cfg hb ?_)
        intro _
        simp only [Bool.or_eq_true, not_or, Bool.not_eq_true] at hv
        exact hv.2
  · next hk =>
    refine Post.ok (base_stop cfg hb ?_)
    intro hk'
    exact absurd hk' hk

/-- the invariant at every fuel -/
theorem canAt (hy : ImgHyp cfg) : ∀ f, CanAt cfg f := by
  intro f
  induction f with
  | zero =>
    constructor <;> intros <;> intro a ts' he
    · rw [parseExpression] at he; cases he
    · rw [exprLoop] at he; cases he
    · rw [parsePrimary] at he; cases he
    · rw [parseConditional] at he; cases he
    · rw [parsePrimaryExpression] at he; cases he
    · rw [parseIdentifierExpression] at he; cases he
    · rw [parseClosure] at he; cases he
    · rw [parseArray] at he; cases he
    · rw [arrayLoop] at he; cases he
    · rw [parseMap] at he; cases he
    · rw [mapLoop] at he; cases he
    · rw [parsePostfix] at he; cases he
    · rw [parseArguments] at he; cases he
    · rw [argsLoop] at he; cases he
  | succ n ih =>
    exact ⟨can_expr cfg ih, can_loop cfg ih, can_prim cfg ih, can_cond cfg ih, can_pexp cfg hy ih,
      can_ident cfg hy ih, can_clos cfg ih, can_arr cfg ih, can_arrL cfg ih, can_map cfg ih, can_mapL cfg ih,
      can_post cfg ih, can_args cfg ih, can_argsL cfg ih⟩

/-- no end-of-input token carries the value `?.` (the lexer's EOF token has the empty value) -/
def EofPlain (ts : List Token) : Prop := ∀ t ∈ ts, t.kind = .eof → t.value ≠ "?."

/-- **The image of the parser is canonical.** -/
theorem parseFuel_canonical (hy : ImgHyp cfg) (f : Nat) (ts : List Token) (hE : EofPlain ts) (t : Node)
    (h : parseFuel cfg f ts = .ok t) : canon cfg 0 t = true := by
  unfold parseFuel at h
  cases hr : parseExpression cfg f 0 0 ts with
  | ok n rest =>
    rw [hr] at h
    simp only at h
    split at h
    · next hk =>
      cases h
      have hx : canonX cfg (pendB rest) 0 t = true := (canAt cfg hy f).expr 0 0 ts t rest hr
      have hsuf : rest <:+ ts := (sufAt cfg f).expr 0 0 ts t rest hr
      have hp : pendB rest = false := by
        unfold pendB
        have hk' : (cur rest).kind = .eof := by simpa using hk
        cases rest with
        | nil => simp [cur, eofTok]
        | cons t0 tl =>
          have hmem : t0 ∈ ts := hsuf.subset (by simp)
          have := hE t0 hmem hk'
          simp [cur, this]
      rw [hp] at hx
      exact canon_of_canonX_false cfg hx
    · cases h
  | err e => rw [hr] at h; cases h
  | fuel => rw [hr] at h; cases h

end ExprModel.Parser
