import ExprModel.Proofs.RefineLoopDrv
import ExprModel.Proofs.RefineSemA4
/-
C01 stage B: the collecting builtins `filter` (kept elements on the stack, counted in the scope) and `map`
(one result per element on the stack); both end in `OpArray` with its allocation accounting.
-/
set_option linter.unusedVariables false
set_option linter.unusedSimpArgs false
namespace ExprModel.Refine
open ExprModel
open ExprModel.Spec
open ExprModel.Spec.SML

variable {c : Cfg} {P : LProg} {ctx : Ctx}

/-! ### `map` -/

def fbMap (sc : SCfg) (ctx : Ctx) (b : Node) (coll : Val) : Nat → List Val → SM (List Val ⊕ Val) :=
  fun i acc => do
    let r ← eval sc ((coll, (i : Int)) :: ctx) b
    pure (.inl (r :: acc))

theorem eval_bi_map (sc : SCfg) (m : Meta) (a b : Node) : eval sc ctx (.builtin m "map" [a, b]) = (do
    let coll ← eval sc ctx a
    let n ← SM.lift (lengthV coll)
    let r ← loopIdx (fbMap sc ctx b coll) n.toNat 0 ([] : List Val)
    epiOf (fun acc => do
      SM.allocAfter sc.budget n acc.length
      pure (.arr .iface acc.reverse)) r) := by
  have raw : eval sc ctx (.builtin m "map" [a, b]) = (do
      let coll ← eval sc ctx a
      let n ← SM.lift (lengthV coll)
      let r ← loopIdx (fbMap sc ctx b coll) n.toNat 0 ([] : List Val)
      match r with
      | .inl acc => do
        SM.allocAfter sc.budget n acc.length
        pure (.arr .iface acc.reverse)
      | .inr v => pure v) := rfl
  rw [raw]
  congr 1; funext coll; congr 1; funext n; congr 1; funext r; cases r <;> rfl

def postMap : Nat → List Val → Val → SM (List Val ⊕ Val) := fun _ acc r => pure (.inl (r :: acc))

theorem fbMap_post (sc : SCfg) (b : Node) (coll : Val) (i : Nat) (acc : List Val) :
    fbMap sc ctx b coll i acc = (eval sc ((coll, (i : Int)) :: ctx) b >>= postMap i acc) := rfl

theorem raisedAt_pure {α : Type} (l : Loc) (a : α) : raisedAt l (pure a : SM α) = pure a := rfl

theorem evalLoc_bi_map (sc : SCfg) (m : Meta) (a b : Node) : evalLoc sc ctx (.builtin m "map" [a, b]) = (do
    let coll ← evalLoc sc ctx a
    let n ← raisedAt m.loc (SM.lift (lengthV coll))
    let r ← loopIdxL (fbLoc sc ctx b m.loc postMap coll) n.toNat 0 ([] : List Val)
    raisedAt m.loc (epiOf (fun acc => do
      SM.allocAfter sc.budget n acc.length
      pure (.arr .iface acc.reverse)) r)) := by
  have raw : evalLoc sc ctx (.builtin m "map" [a, b]) = (do
      let coll ← evalLoc sc ctx a
      let n ← raisedAt m.loc (SM.lift (lengthV coll))
      let r ← loopIdxL (fbLoc sc ctx b m.loc postMap coll) n.toNat 0 ([] : List Val)
      raisedAt m.loc (match r with
        | .inl acc => do
          SM.allocAfter sc.budget n acc.length
          pure (.arr .iface acc.reverse)
        | .inr v => pure v)) := rfl
  rw [raw]
  congr 1; funext coll; congr 1; funext n; congr 1; funext r; congr 1; cases r <;> rfl

theorem fbMap_no_exit {sc : SCfg} {b : Node} {coll : Val} {i : Nat} {acc : List Val} {σ0 σ : SState} {v : Val}
    (h : fbMap sc ctx b coll i acc σ0 = (.ok (.inr v), σ)) : False := by
  unfold fbMap at h
  rcases SM.bind_cases h with ⟨e, _, he⟩ | ⟨x, σ1, _, hrest⟩
  · cases he
  · simp at hrest

theorem array_epi {l : Loc} {op : Op} {kk : Nat} {key : String} (hop : op = .load) (hk : P.consts[kk]? = some (.str key))
    (k : Nat) (st : List Val) (scs : List Scope) (σ : SState) (sc' : Scope) (acc : List Val) (r : R Val) (σ' : SState)
    (h : CodeAt P k [li l .load kk, li l .end_, li l .array]) (hlook : lookupKv key sc' = some (.int .int acc.length))
    (hev : ((do SM.allocAfter c.budget acc.length acc.length
                pure (.arr .iface acc.reverse)) : SM Val) σ = (r, σ')) (hbr : RBlame P l r) :
    Runs c P (vm k (acc ++ st) (sc' :: scs) σ c.budget)
      (outcome r (k + lsize [li l .load kk, li l .end_, li l .array]) st scs σ' c.budget) := by
  rw [alloc_tail] at hev
  obtain ⟨rfl, rfl⟩ := Prod.mk.inj hev
  refine Runs.load h hk ?_
  simp only [hlook, Option.getD_some]
  refine Runs.end_ h.tail3 ?_
  have := Runs.array (c := c) (st := st) (scs := scs) (σ := σ) (lim := c.budget) (vs := acc.reverse) h.tail3.tail1
    (by simpa only [List.length_reverse] using hbr)
  simp only [List.length_reverse, List.reverse_reverse] at this
  exact this.to_ip (by ip_arith)

theorem sim_bi_map {m : Meta} {a b : Node} {ca cb : List LInstr} {ci cs car c0 : Nat}
    (ha : Sim c P ctx a ca) (hb : ∀ ctx', Sim c P ctx' b cb) (hsmall : SmallColl c a) (hK : LoopK P.consts ci cs car c0) :
    Sim c P ctx (.builtin m "map" [a, b])
      (ca ++ [li m.loc .begin_] ++ emitLoop m.loc ci cs car c0 cb ++ [li m.loc .load cs, li m.loc .end_, li m.loc .array]) := by
  refine sim_loop m.loc (fbMap (specOf c) ctx b)
    (fun n acc => do
      SM.allocAfter (specOf c).budget n acc.length
      pure (.arr .iface acc.reverse)) ([] : List Val) (fun acc => acc)
    (fun _ j acc => acc.length = j) (fun _ => postMap) (fun coll i acc => fbMap_post _ b coll i acc) (eval_bi_map _ m a b) (evalLoc_bi_map _ m a b) ha hsmall hK rfl (fun _ _ _ _ _ _ h => h) ?_ ?_ ?_
    (fun k st scs σ sc' v h hex => by obtain ⟨_, _, _, _, h⟩ := hex; exact (fbMap_no_exit h).elim)
  · intro k st scs σ coll h
    refine ⟨[], rfl, ?_⟩
    as_runs
    exact Runs.begin_ h ((Reach.refl _).to_ip (by ip_arith))
  · intro coll N k0 st scs hle hN i acc σ res σ1 sc hiN hbase hex hfb hBL
    have hbody := loopCode_body hle
    unfold fbMap at hfb
    unfold BodyPost
    unfold fbLoc at hBL
    rcases SM.bind_cases hfb with ⟨e, hxe, rfl⟩ | ⟨x, σ2, hxv, hrest⟩
    · exact hb _ _ (acc ++ st) (sc :: scs) σ _ _ hbody (hbase.scopesOK ctx scs) hxe hBL.left
    · have r1 : Reach c P _ _ := hb _ _ (acc ++ st) (sc :: scs) σ _ _ hbody (hbase.scopesOK ctx scs) hxv hBL.left
      simp only [SM.pure_apply, Prod.mk.injEq] at hrest
      obtain ⟨rfl, rfl⟩ := hrest
      exact ⟨sc, hbase, by simp [hex], r1⟩
  · intro coll N k st scs σ sc' accF r σ' h hbase hex hev hbr
    subst hex
    exact array_epi rfl hK.size k st scs σ sc' accF r σ' h hbase.size hev hbr

/-! ### `filter` -/

def fbFilter (sc : SCfg) (ctx : Ctx) (b : Node) (coll : Val) : Nat → List Val → SM (List Val ⊕ Val) :=
  fun i acc => do
    if ← asBool (← eval sc ((coll, (i : Int)) :: ctx) b) then do
      let el ← SM.lift (fetchV coll (.int .int i) false)
      pure (.inl (el :: acc))
    else pure (.inl acc)

theorem eval_bi_filter (sc : SCfg) (m : Meta) (a b : Node) : eval sc ctx (.builtin m "filter" [a, b]) = (do
    let coll ← eval sc ctx a
    let n ← SM.lift (lengthV coll)
    let r ← loopIdx (fbFilter sc ctx b coll) n.toNat 0 ([] : List Val)
    epiOf (fun acc => do
      SM.allocAfter sc.budget acc.length acc.length
      pure (.arr .iface acc.reverse)) r) := by
  have raw : eval sc ctx (.builtin m "filter" [a, b]) = (do
      let coll ← eval sc ctx a
      let n ← SM.lift (lengthV coll)
      let r ← loopIdx (fbFilter sc ctx b coll) n.toNat 0 ([] : List Val)
      match r with
      | .inl acc => do
        SM.allocAfter sc.budget acc.length acc.length
        pure (.arr .iface acc.reverse)
      | .inr v => pure v) := rfl
  rw [raw]
  congr 1; funext coll; congr 1; funext n; congr 1; funext r; cases r <;> rfl

def postFilter (coll : Val) : Nat → List Val → Val → SM (List Val ⊕ Val) := fun i acc x => do
  if ← asBool x then do
    let el ← SM.lift (fetchV coll (.int .int i) false)
    pure (.inl (el :: acc))
  else pure (.inl acc)

theorem fbFilter_post (sc : SCfg) (b : Node) (coll : Val) (i : Nat) (acc : List Val) :
    fbFilter sc ctx b coll i acc = (eval sc ((coll, (i : Int)) :: ctx) b >>= postFilter coll i acc) := rfl

theorem evalLoc_bi_filter (sc : SCfg) (m : Meta) (a b : Node) : evalLoc sc ctx (.builtin m "filter" [a, b]) = (do
    let coll ← evalLoc sc ctx a
    let n ← raisedAt m.loc (SM.lift (lengthV coll))
    let r ← loopIdxL (fbLoc sc ctx b m.loc (postFilter coll) coll) n.toNat 0 ([] : List Val)
    raisedAt m.loc (epiOf (fun acc => do
      SM.allocAfter sc.budget acc.length acc.length
      pure (.arr .iface acc.reverse)) r)) := by
  have raw : evalLoc sc ctx (.builtin m "filter" [a, b]) = (do
      let coll ← evalLoc sc ctx a
      let n ← raisedAt m.loc (SM.lift (lengthV coll))
      let r ← loopIdxL (fbLoc sc ctx b m.loc (postFilter coll) coll) n.toNat 0 ([] : List Val)
      raisedAt m.loc (match r with
        | .inl acc => do
          SM.allocAfter sc.budget acc.length acc.length
          pure (.arr .iface acc.reverse)
        | .inr v => pure v)) := rfl
  rw [raw]
  congr 1; funext coll; congr 1; funext n; congr 1; funext r; congr 1; cases r <;> rfl

theorem fbFilter_no_exit {sc : SCfg} {b : Node} {coll : Val} {i : Nat} {acc : List Val} {σ0 σ : SState} {v : Val}
    (h : fbFilter sc ctx b coll i acc σ0 = (.ok (.inr v), σ)) : False := by
  unfold fbFilter at h
  rcases SM.bind_cases h with ⟨e, _, he⟩ | ⟨x, σ1, _, hrest⟩
  · cases he
  · rcases SM.bind_cases hrest with ⟨e, _, he⟩ | ⟨t, σ2, _, hrest2⟩
    · cases he
    · cases t
      · simp at hrest2
      · simp only [if_true] at hrest2
        rcases SM.bind_cases hrest2 with ⟨e, _, he⟩ | ⟨el, σ3, _, hrest3⟩
        · cases he
        · simp at hrest3

/-- the kept elements are counted in the loop's scope -/
def KeptIs (sc : Scope) (j : Nat) (acc : List Val) : Prop :=
  lookupKv "count" sc = some (.int .int acc.length) ∧ acc.length ≤ j

theorem sim_bi_filter {m : Meta} {a b : Node} {ca cb : List LInstr} {ci cs car c0 cc : Nat}
    (ha : Sim c P ctx a ca) (hb : ∀ ctx', Sim c P ctx' b cb) (hsmall : SmallColl c a) (hK : LoopK P.consts ci cs car c0)
    (hcc : P.consts[cc]? = some (.str "count")) :
    Sim c P ctx (.builtin m "filter" [a, b])
      (ca ++ [li m.loc .begin_, li m.loc .push c0, li m.loc .store cc] ++
        emitLoop m.loc ci cs car c0
          (cb ++ emitCond m.loc [li m.loc .inc cc, li m.loc .load car, li m.loc .load ci, li m.loc .index]) ++
        [li m.loc .load cc, li m.loc .end_, li m.loc .array]) := by
  refine sim_loop m.loc (fbFilter (specOf c) ctx b)
    (fun _ acc => do
      SM.allocAfter (specOf c).budget acc.length acc.length
      pure (.arr .iface acc.reverse)) ([] : List Val) (fun acc => acc)
    KeptIs postFilter (fun coll i acc => fbFilter_post _ b coll i acc) (eval_bi_filter _ m a b) (evalLoc_bi_filter _ m a b) ha hsmall hK rfl ?_ ?_ ?_ ?_
    (fun k st scs σ sc' v h hex => by obtain ⟨_, _, _, _, h⟩ := hex; exact (fbFilter_no_exit h).elim)
  · intro sc j acc key v hk h
    refine ⟨?_, h.2⟩
    rw [lookup_set_other (by rcases hk with rfl | rfl | rfl <;> decide)]
    exact h.1
  · intro k st scs σ coll h
    refine ⟨scopeSet "count" (.int .int 0) [], ⟨lookup_set_same _ _ _, Nat.le_refl _⟩, ?_⟩
    as_runs
    exact Runs.begin_ h (Runs.push h.tail1 hK.zero (Runs.store h.tail1.tail3 hcc ((Reach.refl _).to_ip (by ip_arith))))
  · intro coll N k0 st scs hle hN i acc σ res σ1 sc hiN hbase hex hfb hBL
    have hbody := loopCode_body hle
    have hcond : CodeAt P (k0 + 24 + lsize cb)
        ([li m.loc .jumpIfFalse (1 + lsize [li m.loc .inc cc, li m.loc .load car, li m.loc .load ci, li m.loc .index] + 3),
          li m.loc .pop] ++ [li m.loc .inc cc, li m.loc .load car, li m.loc .load ci, li m.loc .index] ++
          [li m.loc .jump 1, li m.loc .pop]) := hbody.right
    have hj := hcond.left.left
    have hx : CodeAt P (k0 + 24 + lsize cb + 4) [li m.loc .inc cc, li m.loc .load car, li m.loc .load ci, li m.loc .index] :=
      hcond.left.right.cast (by ip_arith)
    have hjmp : CodeAt P (k0 + 24 + lsize cb + 14) [li m.loc .jump 1, li m.loc .pop] := hcond.right.cast (by ip_arith)
    unfold fbFilter at hfb
    unfold BodyPost
    unfold fbLoc at hBL
    rcases SM.bind_cases hfb with ⟨e, hxe, rfl⟩ | ⟨x, σ2, hxv, hrest⟩
    · exact hb _ _ (acc ++ st) (sc :: scs) σ _ _ hbody.left (hbase.scopesOK ctx scs) hxe hBL.left
    · have r1 : Reach c P _ _ := hb _ _ (acc ++ st) (sc :: scs) σ _ _ hbody.left (hbase.scopesOK ctx scs) hxv hBL.left
      have hbr : RBlame P m.loc res := (hBL.right (evalLoc_of_ok hxv)).raised hrest
      by_cases hbv : ∃ t, x = .bool t
      · obtain ⟨t, rfl⟩ := hbv
        rw [asBool_bool, SM.bind_apply, SM.pure_apply] at hrest
        cases t
        · simp only [Bool.false_eq_true, if_false, SM.pure_apply] at hrest
          obtain ⟨rfl, rfl⟩ := Prod.mk.inj hrest
          refine ⟨sc, hbase, ⟨hex.1, by have := hex.2; omega⟩, r1.trans ?_⟩
          as_runs
          refine Runs.jumpIfFalse_false hj ?_
          exact Runs.pop (hjmp.tail3.cast (by ip_arith)) ((Reach.refl _).to_ip (by ip_arith))
        · simp only [if_true] at hrest
          have hw : wrap .int ((acc.length : Int) + 1) = (acc.length : Int) + 1 :=
            wrap_int_id (by omega) (by have := hex.2; omega)
          -- up to the element fetch
          have hsc' : Base (scopeSet "count" (.int .int ((acc.length : Int) + 1)) sc) coll N i :=
            ⟨by rw [lookup_set_other (by decide)]; exact hbase.array,
             by rw [lookup_set_other (by decide)]; exact hbase.size,
             by rw [lookup_set_other (by decide)]; exact hbase.idx⟩
          have hbf : RBlame P m.loc (fetchV coll (.int .int (i : Int)) false) := by
            intro e he
            rw [SM.bind_apply, SM.lift_apply, he] at hrest
            obtain ⟨rfl, rfl⟩ := Prod.mk.inj hrest
            exact hbr _ rfl
          have r2 : Runs c P (vm (k0 + 24 + lsize cb) (.bool true :: (acc ++ st)) (sc :: scs) σ2 c.budget)
              (outcome (fetchV coll (.int .int (i : Int)) false) (k0 + 24 + lsize cb + 14) (acc ++ st)
                (scopeSet "count" (.int .int ((acc.length : Int) + 1)) sc :: scs) σ2 c.budget) := by
            refine Runs.jumpIfFalse_true hj (Runs.pop hj.tail3 ?_)
            refine Runs.inc hx hcc hex.1 ?_
            rw [hw]
            refine Runs.load hx.tail3 hK.array ?_
            simp only [hsc'.array, Option.getD_some]
            refine Runs.load hx.tail3.tail3 hK.i ?_
            simp only [hsc'.idx, Option.getD_some]
            exact (Runs.index hx.tail3.tail3.tail3 hbf).to_ip (by omega)
          rcases SM.bind_cases hrest with ⟨e, hfe, rfl⟩ | ⟨el, σ3, hfv, hrest2⟩
          · rw [SM.lift_apply] at hfe
            obtain ⟨hfe1, rfl⟩ := Prod.mk.inj hfe
            rw [hfe1] at r2
            exact r1.trans_err r2
          · rw [SM.lift_apply] at hfv
            obtain ⟨hfv1, rfl⟩ := Prod.mk.inj hfv
            rw [hfv1] at r2
            simp only [SM.pure_apply, Prod.mk.injEq] at hrest2
            obtain ⟨rfl, rfl⟩ := hrest2
            refine ⟨_, hsc', ⟨?_, ?_⟩, r1.trans (Reach.trans r2 ?_)⟩
            · rw [lookup_set_same]; simp
            · simp; have := hex.2; omega
            · as_runs
              exact Runs.jump hjmp ((Reach.refl _).to_ip (by ip_arith))
      · have hnb : ∀ t, x ≠ .bool t := fun t h => hbv ⟨t, h⟩
        rw [asBool_other hnb, SM.bind_apply, SM.fail_apply] at hrest
        obtain ⟨rfl, rfl⟩ := Prod.mk.inj hrest
        exact r1.trans_err (Runs.jumpIf_err (.inr rfl) hj hnb (hbr _ rfl))
  · intro coll N k st scs σ sc' accF r σ' h hbase hex hev hbr
    exact array_epi rfl hcc k st scs σ sc' accF r σ' h hex.1 hev hbr

end ExprModel.Refine
