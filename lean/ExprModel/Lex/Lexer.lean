import ExprModel.Lex.Unescape
/-
The lexer of parser/lexer (lexer.go, state.go) as a total function over Unicode scalar values.

Representation.  The Go lexer keeps byte offsets `start`, `end` into `input`; the model keeps the two
slices themselves: `word` = the runes of `input[start:end]` (most recent first) inside `LState`, and
`rest` = the runes of `input[end:]` as a separate argument (so that loops are structural recursions on
it).  `width` is 0 or 1 (runes, not bytes).  `loc`, `prev`, `startLoc` are updated by exactly the
assignments of the Go code.  The two places that restore `(end, loc, prev)` (scanNumber, acceptWord)
restore `(word, rest, loc, prev)`.

Errors.  `l.error` records only the first error and lexing goes on; `Lex` then returns that first
error.  The model stops at the first error, with `l.loc` at that moment.

Control.  `return number` / `return dot` … are direct calls; one `root` step yields a `Step`.
-/
namespace ExprModel.Lex

def Loc.adv (l : Loc) (c : Char) : Loc :=
  if c = '\n' then ⟨l.line + 1, 0⟩ else ⟨l.line, l.col + 1⟩

structure LState where
  /-- runes of `input[start:end]`, last read first -/
  word : List Char := []
  width : Nat := 0
  startLoc : Loc := ⟨1, 0⟩
  prev : Loc := ⟨1, 0⟩
  loc : Loc := ⟨1, 0⟩
  deriving DecidableEq, Repr, Inhabited

namespace LState

/-- effect of a `next()` that reads the rune `c` -/
def adv (s : LState) (c : Char) : LState :=
  { s with word := c :: s.word, width := 1, prev := s.loc, loc := Loc.adv s.loc c }

/-- effect of a `next()` at the end of input -/
def atEof (s : LState) : LState := { s with width := 0 }

/-- `ignore()`, and the tail of `emitValue` / `emitEOF` -/
def ignore (s : LState) : LState := { s with word := [], startLoc := s.loc }

def text (s : LState) : List Char := s.word.reverse

end LState

/-- `next()` -/
def next (s : LState) : List Char → Option Char × LState × List Char
  | [] => (none, s.atEof, [])
  | c :: cs => (some c, s.adv c, cs)

/-- `backup()`: `l.end -= l.width; l.loc = l.prev` -/
def backup (s : LState) (rest : List Char) : LState × List Char :=
  match s.width, s.word with
  | _ + 1, c :: w => ({ s with word := w, loc := s.prev }, c :: rest)
  | _, _ => ({ s with loc := s.prev }, rest)

/-- `peek()` -/
def peek (s : LState) (rest : List Char) : Option Char × LState × List Char :=
  match next s rest with
  | (r, s1, r1) => let (s2, r2) := backup s1 r1; (r, s2, r2)

/-- `accept(valid)` -/
def accept (valid : List Char) (s : LState) (rest : List Char) : Bool × LState × List Char :=
  match next s rest with
  | (some c, s1, r1) =>
    if valid.contains c then (true, s1, r1) else let (s2, r2) := backup s1 r1; (false, s2, r2)
  | (none, s1, r1) => let (s2, r2) := backup s1 r1; (false, s2, r2)

/-- `for p(l.next()) {}; l.backup()` — `acceptRun` and the loop of `identifier` -/
def acceptRunP (p : Char → Bool) : LState → List Char → LState × List Char
  | s, [] => backup s.atEof []
  | s, c :: cs => if p c then acceptRunP p (s.adv c) cs else backup (s.adv c) cs

/-- `acceptRun(valid)` -/
def acceptRun (valid : List Char) (s : LState) (rest : List Char) : LState × List Char :=
  acceptRunP (fun c => valid.contains c) s rest

def mkTok (k : TokKind) (value : List Char) (loc : Loc) : Token :=
  { kind := k, value := String.ofList value, loc := loc }

inductive Step where
  /-- a token was emitted; go on at `root` -/
  | tok (t : Token) (s : LState) (rest : List Char)
  /-- white space ignored; go on at `root` -/
  | skip (s : LState) (rest : List Char)
  /-- `emitEOF`; the state function returned nil -/
  | eof (t : Token)
  | fail (e : LexErr)
  deriving Repr, Inhabited

/-- `emit(k)`; `return root` -/
def emit (k : TokKind) (s : LState) (rest : List Char) : Step :=
  .tok (mkTok k s.text s.startLoc) s.ignore rest

/-- `emitValue(k, value)`; `return root` -/
def emitValue (k : TokKind) (value : List Char) (s : LState) (rest : List Char) : Step :=
  .tok (mkTok k value s.startLoc) s.ignore rest

/-! ### string literals -/

inductive SMode where
  /-- at the loop head of `scanString`: the next rune read is compared with the quote -/
  | normal
  /-- in `scanEscape`, about to read the rune after the backslash -/
  | esc
  /-- in `scanDigits(ch, base, n+1)`, about to read `ch` -/
  | digits (base n : Nat)
  deriving DecidableEq, Repr

def SMode.ofDigits (base : Nat) : Nat → SMode
  | 0 => .normal
  | n + 1 => .digits base n

/-- `scanString(quote)` together with `scanEscape` and `scanDigits`, one rune per call.  On success the
closing quote has been read. -/
def scanString (T : LexTables) (quote : Char) : SMode → LState → List Char → Except LexErr (LState × List Char)
  | .normal, s, [] => .error (s.loc, "unterminated")
  | .normal, s, c :: cs =>
    if c = quote then .ok (s.adv c, cs)
    else if c = '\n' then .error ((s.adv c).loc, "unterminated")
    else if c = '\\' then scanString T quote .esc (s.adv c) cs
    else scanString T quote .normal (s.adv c) cs
  | .esc, s, [] => .error (s.loc, "escape")
  | .esc, s, c :: cs =>
    if T.escSimple.contains c || c == quote then scanString T quote .normal (s.adv c) cs
    else if T.escOct.contains c then scanString T quote (.digits 8 1) (s.adv c) cs
    else match lookup c T.escHex with
      | some n => scanString T quote (SMode.ofDigits 16 n) (s.adv c) cs
      | none => .error ((s.adv c).loc, "escape")
  | .digits _ _, s, [] => .error (s.loc, "escape")
  | .digits base n, s, c :: cs =>
    if digitVal c < base then scanString T quote (SMode.ofDigits base n) (s.adv c) cs
    else .error ((s.adv c).loc, "escape")

/-! ### numbers -/

/-- `scanNumber()`, part 1b: after a leading `0`, `x` / `o` / `b` choose the digit class -/
def numberPrefix (T : LexTables) (s : LState) (rest : List Char) : List Char × LState × List Char :=
  let (x, s1, r1) := accept T.hexMark s rest
  if x then (T.hexDigits, s1, r1) else
  let (o, s2, r2) := accept T.octMark s1 r1
  if o then (T.octDigits, s2, r2) else
  let (b, s3, r3) := accept T.binMark s2 r2
  if b then (T.binDigits, s3, r3) else (T.decDigits, s3, r3)

/-- `scanNumber()`, part 1: `digits := "0123456789_"; if l.accept("0") { … }` -/
def numberDigits (T : LexTables) (s : LState) (rest : List Char) : List Char × LState × List Char :=
  let (z, s, rest) := accept T.zero s rest
  if z then numberPrefix T s rest else (T.decDigits, s, rest)

/-- `scanNumber()`, part 2: `if l.accept(".") { if l.peek() == '.' { restore; return true }; l.acceptRun(digits) }`;
`none` = a range operator follows: `(end, loc, prev)` go back to where they were before the dot -/
def numberFraction (T : LexTables) (digits : List Char) (s : LState) (rest : List Char) :
    Option (LState × List Char) :=
  let (d, s1, r1) := accept T.dotC s rest
  if d then
    let (p, s2, r2) := peek s1 r1
    if p = some '.' then none else some (acceptRun digits s2 r2)
  else some (s1, r1)

/-- `scanNumber()`, part 3: `if l.accept("eE") { l.accept("+-"); l.acceptRun(digits) }` -/
def numberExponent (T : LexTables) (digits : List Char) (s : LState) (rest : List Char) : LState × List Char :=
  let (e, s1, r1) := accept T.expMark s rest
  if e then
    let (_, s2, r2) := accept T.signs s1 r1
    acceptRun digits s2 r2
  else (s1, r1)

/-- `scanNumber()` -/
def scanNumber (cc : CharClass) (T : LexTables) (s : LState) (rest : List Char) : Bool × LState × List Char :=
  let (digits, s0, r0) := numberDigits T s rest
  let (s1, r1) := acceptRun digits s0 r0
  match numberFraction T digits s1 r1 with
  | none =>
    -- `l.loc, l.prev, l.end = loc, prev, end`; `width` keeps the value of the last `next` (1)
    (true, { s1 with width := 1 }, r1)
  | some (s2, r2) =>
    let (s3, r3) := numberExponent T digits s2 r2
    -- `if IsAlphaNumeric(l.peek()) { l.next(); return false }`
    let (p, s4, r4) := peek s3 r3
    match p with
    | some c => if cc.isAlphaNumeric c then (false, (next s4 r4).2.1, (next s4 r4).2.2) else (true, s4, r4)
    | none => (true, s4, r4)

/-- state `number` -/
def numberState (cc : CharClass) (T : LexTables) (s : LState) (rest : List Char) : Step :=
  match scanNumber cc T s rest with
  | (false, s1, _) => .fail (s1.loc, "badnumber")
  | (true, s1, r1) => emit .number s1 r1

/-- state `dot` -/
def dotState (cc : CharClass) (T : LexTables) (s : LState) (rest : List Char) : Step :=
  let (_, s, rest) := next s rest
  let (d, s, rest) := accept T.dotDigits s rest
  if d then
    let (s, rest) := backup s rest
    numberState cc T s rest
  else
    let (_, s, rest) := accept T.dotC s rest
    emit .operator s rest

/-- state `nilsafe` -/
def nilsafeState (T : LexTables) (s : LState) (rest : List Char) : Step :=
  let (_, s, rest) := next s rest
  let (_, s, rest) := accept T.nilsafeSecond s rest
  emit .operator s rest

/-! ### identifiers and `not in` -/

/-- the space-skipping loop of `acceptWord`: `r := l.peek(); for ; r == ' '; r = l.peek() { l.next() }`
(`cc.wordBlank`: `r == ' '` or `IsSpace(r)`, whichever the source has) -/
def skipSpaces (cc : CharClass) : LState → List Char → LState × List Char
  | s, [] => (peek s []).2
  | s, c :: cs =>
    if cc.wordBlank c = true then skipSpaces cc ((peek s (c :: cs)).2.1.adv c) cs else (peek s (c :: cs)).2

/-- `for _, ch := range word { if l.next() != ch { … return false } }` -/
def matchWord : List Char → LState → List Char → Option (LState × List Char)
  | [], s, rest => some (s, rest)
  | _ :: _, _, [] => none
  | ch :: w, s, c :: cs => if c = ch then matchWord w (s.adv c) cs else none

/-- `acceptWord(word)`; on failure `(end, loc, prev)` are restored -/
def acceptWord (cc : CharClass) (word : List Char) (s : LState) (rest : List Char) : Bool × LState × List Char :=
  let restore (cur : LState) : Bool × LState × List Char :=
    (false, { cur with word := s.word, loc := s.loc, prev := s.prev }, rest)
  let (s1, r1) := skipSpaces cc s rest
  match matchWord word s1 r1 with
  | none =>
    -- the state at the failing `next()`: only `width` of it survives the restore
    restore s1
  | some (s2, r2) =>
    let (p, s3, r3) := peek s2 r2
    match p with
    -- `r != ' ' && r != eof` or `IsAlphaNumeric(r)`, whichever the source has
    | some c => if cc.wordEnd c = true then (true, s3, r3) else restore s3
    | none => (true, s3, r3)

/-- state `not` -/
def notState (cc : CharClass) (T : LexTables) (s : LState) (rest : List Char) : Step :=
  match acceptWord cc T.inWord.toList s rest with
  | (true, s1, r1) => emitValue .operator "not in".toList s1 r1
  | (false, s1, r1) => emitValue .operator "not".toList s1 r1

/-- state `identifier` -/
def identifierState (cc : CharClass) (T : LexTables) (s : LState) (rest : List Char) : Step :=
  let (s, rest) := acceptRunP cc.isAlphaNumeric s rest
  let w := String.ofList s.text
  if w = T.notWord then notState cc T s rest
  else if T.kwOps.contains w then emit .operator s rest
  else emit .identifier s rest

/-! ### root -/

/-- state `root` -/
def root (cc : CharClass) (T : LexTables) (s : LState) : List Char → Step
  | [] => .eof { kind := .eof, value := "", loc := s.prev }
  | c :: cs =>
    let s1 := s.adv c
    if cc.isSpace c then .skip s1.ignore cs
    else if c = '\'' ∨ c = '"' then
      match scanString T c .normal s1 cs with
      | .error e => .fail e
      | .ok (s2, r2) =>
        match unescape T s2.text with
        | .error m => .fail (s2.loc, m)
        | .ok str => emitValue .string str s2 r2
    else if '0' ≤ c ∧ c ≤ '9' then
      let (s2, r2) := backup s1 cs
      numberState cc T s2 r2
    else if c = '?' then
      let (p, s2, r2) := peek s1 cs
      if p = some '.' then nilsafeState T s2 r2 else emit .operator s2 r2
    else if T.bracketsOpen.contains c then emit .bracket s1 cs
    else if T.bracketsClose.contains c then emit .bracket s1 cs
    else if T.singleOps.contains c then emit .operator s1 cs
    else if T.dblFirst.contains c then
      let (_, s2, r2) := accept T.dblSecond s1 cs
      emit .operator s2 r2
    else if c = '.' then
      let (s2, r2) := backup s1 cs
      dotState cc T s2 r2
    else if cc.isAlphaNumeric c then
      let (s2, r2) := backup s1 cs
      identifierState cc T s2 r2
    else .fail (s1.loc, "unrecognized")

/-- `for state := root; state != nil; { state = state(l) }`; every step reads at least one rune or
stops, so `|input| + 1` steps suffice (`lexLoop_fuel`) -/
def lexLoop (cc : CharClass) (T : LexTables) : Nat → LState → List Char → Except LexErr (List Token)
  | 0, _, _ => .error (⟨0, 0⟩, "fuel")
  | f + 1, s, rest =>
    match root cc T s rest with
    | .tok t s1 r1 => (lexLoop cc T f s1 r1).map (t :: ·)
    | .skip s1 r1 => lexLoop cc T f s1 r1
    | .eof t => .ok [t]
    | .fail e => .error e

/-- `Lex` on the runes of the source -/
def lexChars (cc : CharClass) (T : LexTables) (input : List Char) : Except LexErr (List Token) :=
  lexLoop cc T (input.length + 1) {} input

/-- `lexer.Lex(file.NewSource(src))` -/
def lex (cc : CharClass) (T : LexTables) (src : String) : Except LexErr (List Token) :=
  lexChars cc T src.toList

end ExprModel.Lex
