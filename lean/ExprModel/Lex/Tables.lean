import ExprModel.Syntax.Token
/-
Parameters of the lexer model (C12).

* `CharClass`: the three `unicode` predicates the lexer consults (`unicode.IsLetter`, `unicode.IsDigit`,
  `unicode.IsSpace`).  They are Go library behaviour; the model takes them as a parameter.  Theorems
  quantify over every `CharClass` (some need `CharClass.AsciiExact`: agreement with the ASCII tables
  below on code points < 128).  The driver instantiates it with tables dumped from the Go toolchain's
  `unicode` package (`Gen/UnicodeTables.lean`).  The structure also carries `notInAnySpace`, the shape of
  lexer.go `acceptWord` that the translator found in the source (two shapes are recognised, anything else is
  refused): the model of `acceptWord` follows it (`wordBlank`, `wordEnd`), theorems hold for both values.
* `LexTables`: the class strings, keyword lists and escape tables that lexer.go / state.go / utils.go state
  literally.  The translator regenerates them (`Gen/LexTables.lean`); `Props/C12.lean` proves that the
  regenerated value is `LexTables.std`, the value every theorem is stated for.
-/
namespace ExprModel.Lex

structure CharClass where
  isLetter : Char → Bool
  isDigit : Char → Bool
  isSpace : Char → Bool
  /-- shape of lexer.go `acceptWord` (regenerated from the source, `Gen.acceptWordAnySpace`): `false` = it
  skips U+0020 only and wants U+0020 or the end of input after the word; `true` = it skips every `IsSpace`
  rune and wants anything but an `IsAlphaNumeric` rune after the word -/
  notInAnySpace : Bool := false

namespace CharClass
/-- utils.go `IsAlphabetic` -/
def isAlphabetic (cc : CharClass) (c : Char) : Bool := c == '_' || c == '$' || cc.isLetter c
/-- utils.go `IsAlphaNumeric` -/
def isAlphaNumeric (cc : CharClass) (c : Char) : Bool := cc.isAlphabetic c || cc.isDigit c

/-- the runes `acceptWord` skips before the word -/
def wordBlank (cc : CharClass) (c : Char) : Bool := if cc.notInAnySpace then cc.isSpace c else c == ' '
/-- the runes that may follow the word of `acceptWord` (the end of input always may) -/
def wordEnd (cc : CharClass) (c : Char) : Bool :=
  if cc.notInAnySpace then !cc.isAlphaNumeric c else c == ' '

def asciiLetter (c : Char) : Bool := ('a' ≤ c && c ≤ 'z') || ('A' ≤ c && c ≤ 'Z')
def asciiDigit (c : Char) : Bool := '0' ≤ c && c ≤ '9'
/-- `unicode.IsSpace` below U+0080: `\t \n \v \f \r` and space -/
def asciiSpace (c : Char) : Bool := (9 ≤ c.toNat && c.toNat ≤ 13) || c == ' '

/-- agreement with Go's `unicode` predicates on ASCII -/
structure AsciiExact (cc : CharClass) : Prop where
  letter : ∀ c : Char, c.toNat < 128 → cc.isLetter c = asciiLetter c
  digit : ∀ c : Char, c.toNat < 128 → cc.isDigit c = asciiDigit c
  space : ∀ c : Char, c.toNat < 128 → cc.isSpace c = asciiSpace c

/-- `(lo, hi, stride)` triples as in Go's `unicode.RangeTable` -/
def inRanges (rs : List (Nat × Nat × Nat)) (n : Nat) : Bool :=
  rs.any fun (lo, hi, stride) => lo ≤ n && n ≤ hi && (n - lo) % stride == 0

/-- a class that is the ASCII table below 128 and a range table above -/
def ofRanges (letter digit space : List (Nat × Nat × Nat)) : CharClass where
  isLetter c := if c.toNat < 128 then asciiLetter c else inRanges letter c.toNat
  isDigit c := if c.toNat < 128 then asciiDigit c else inRanges digit c.toNat
  isSpace c := if c.toNat < 128 then asciiSpace c else inRanges space c.toNat

theorem ofRanges_asciiExact (l d s) : (ofRanges l d s).AsciiExact :=
  ⟨fun c h => by simp [ofRanges, h], fun c h => by simp [ofRanges, h], fun c h => by simp [ofRanges, h]⟩

/-- the shape of `acceptWord` has no bearing on the rune classes -/
theorem asciiExact_with {cc : CharClass} (h : cc.AsciiExact) (b : Bool) :
    ({ cc with notInAnySpace := b } : CharClass).AsciiExact := ⟨h.letter, h.digit, h.space⟩

/-- ASCII only: every rune ≥ 128 is in no class (used in examples) -/
def ascii : CharClass := ofRanges [] [] []
end CharClass

/-- the literal tables of the lexer source -/
structure LexTables where
  bracketsOpen : List Char
  bracketsClose : List Char
  singleOps : List Char
  dblFirst : List Char
  dblSecond : List Char
  zero : List Char
  hexMark : List Char
  hexDigits : List Char
  octMark : List Char
  octDigits : List Char
  binMark : List Char
  binDigits : List Char
  decDigits : List Char
  dotC : List Char
  expMark : List Char
  signs : List Char
  dotDigits : List Char
  nilsafeSecond : List Char
  notWord : String
  inWord : String
  kwOps : List String
  /-- scanEscape: letters after a backslash that need nothing more (the quote is accepted besides) -/
  escSimple : List Char
  escOct : List Char
  /-- scanEscape: letter, number of hex digits -/
  escHex : List (Char × Nat)
  /-- unescapeChar: letter after the backslash, code point produced -/
  unescSimple : List (Char × Nat)
  unescHex : List (Char × Nat)
  unescOct : List Char
  deriving DecidableEq, Repr

def LexTables.std : LexTables where
  bracketsOpen := "([{".toList
  bracketsClose := ")]}".toList
  singleOps := "#,?:%+-/".toList
  dblFirst := "&|!=*<>".toList
  dblSecond := "&|=*".toList
  zero := "0".toList
  hexMark := "xX".toList
  hexDigits := "0123456789abcdefABCDEF_".toList
  octMark := "oO".toList
  octDigits := "01234567_".toList
  binMark := "bB".toList
  binDigits := "01_".toList
  decDigits := "0123456789_".toList
  dotC := ".".toList
  expMark := "eE".toList
  signs := "+-".toList
  dotDigits := "0123456789".toList
  nilsafeSecond := "?.".toList
  notWord := "not"
  inWord := "in"
  kwOps := ["in", "or", "and", "matches", "contains", "startsWith", "endsWith"]
  escSimple := ['a', 'b', 'f', 'n', 'r', 't', 'v', '\\']
  escOct := "01234567".toList
  escHex := [('x', 2), ('u', 4), ('U', 8)]
  unescSimple := [('a', 7), ('b', 8), ('f', 12), ('n', 10), ('r', 13), ('t', 9), ('v', 11), ('\\', 92),
    ('\'', 39), ('"', 34), ('`', 96), ('?', 63)]
  unescHex := [('x', 2), ('X', 2), ('u', 4), ('U', 8)]
  unescOct := "0123".toList

abbrev LexErr := Loc × String

/-- `Except` has no `DecidableEq` in core; needed to state closed examples by `decide` -/
instance instDecidableEqExcept {ε α} [DecidableEq ε] [DecidableEq α] : DecidableEq (Except ε α)
  | .ok a, .ok b => if h : a = b then isTrue (h ▸ rfl) else isFalse (fun e => h (Except.ok.inj e))
  | .error a, .error b => if h : a = b then isTrue (h ▸ rfl) else isFalse (fun e => h (Except.error.inj e))
  | .ok _, .error _ => isFalse (fun e => nomatch e)
  | .error _, .ok _ => isFalse (fun e => nomatch e)

end ExprModel.Lex
