import ExprModel.Lex.Tables
/-
`unescape` / `unescapeChar` of parser/lexer/utils.go over Unicode scalar values.

The Go code works on the UTF-8 bytes of `l.word()`.  The word is valid UTF-8 (file.Source round-trips the
input through `[]rune`), hex digits / escape letters / quotes are ASCII, so "the next n bytes are hex digits"
and "the next n runes are hex digits" coincide, and a byte ≥ 0x80 where an ASCII letter is required is an
error in both readings.  One behaviour is outside `List Char`: a `\U` escape whose 32-bit value has the top
bit set wraps to a negative `rune`, passes the `v > utf8.MaxRune` test and is appended as the single raw byte
`byte(v)`; for `byte(v) ≥ 0x80` the Go string is no longer UTF-8.  The model returns the error class
`rawbyte` there (the harness skips the comparison of such inputs and counts them).
-/
namespace ExprModel.Lex

/-- lexer.go `digitVal` (`lower(ch) = ch | 0x20`); 16 = "larger than any legal digit" -/
def digitVal (c : Char) : Nat :=
  if '0' ≤ c ∧ c ≤ '9' then c.toNat - 48
  else
    let l := c.toNat ||| 0x20
    if 97 ≤ l ∧ l ≤ 102 then l - 97 + 10 else 16

/-- utils.go `unhex` -/
def unhex (c : Char) : Option Nat :=
  if '0' ≤ c ∧ c ≤ '9' then some (c.toNat - 48)
  else if 'a' ≤ c ∧ c ≤ 'f' then some (c.toNat - 97 + 10)
  else if 'A' ≤ c ∧ c ≤ 'F' then some (c.toNat - 65 + 10)
  else none

/-- `strings.NewReplacer("\r\n", "\n", "\r", "\n")` as a one-flag scan: `afterCR` = the previous rune was a
carriage return (already replaced by a line feed), so a line feed now is dropped -/
def normalizeFrom : Bool → List Char → List Char
  | _, [] => []
  | afterCR, c :: cs =>
    if c = '\r' then '\n' :: normalizeFrom true cs
    else if c = '\n' ∧ afterCR then normalizeFrom false cs
    else c :: normalizeFrom false cs

def normalizeNewlines (s : List Char) : List Char := normalizeFrom false s

/-- `v = v<<4 | x` over the digits; `none` if one is not a hex digit -/
def hexValue : Nat → List Char → Option Nat
  | acc, [] => some acc
  | acc, d :: ds => match unhex d with
    | some x => hexValue (acc * 16 + x) ds
    | none => none

def octValue : Nat → List Char → Option Nat
  | acc, [] => some acc
  | acc, d :: ds => if '0' ≤ d ∧ d ≤ '7' then octValue (acc * 8 + (d.toNat - 48)) ds else none

/-- what `unescape` appends for a rune value produced by a numeric escape (`multibyte = true`);
`v` is the 32-bit pattern of the Go `rune`.  `utf8.EncodeRune` turns surrogates into U+FFFD. -/
def runeOut (v : Nat) : Except String Char :=
  if v < 0x80000000 then
    if 0x10FFFF < v then .error "unescape"
    else if v.isValidChar then .ok (Char.ofNat v) else .ok (Char.ofNat 0xFFFD)
  else if v % 256 < 128 then .ok (Char.ofNat (v % 256))
  else .error "rawbyte"

def lookup {β} (c : Char) : List (Char × β) → Option β
  | [] => none
  | (k, v) :: rest => if k = c then some v else lookup c rest

/-- utils.go `unescapeChar` fused with the append in `unescape`: the character produced and the tail -/
def unescapeChar (T : LexTables) : List Char → Except String (Char × List Char)
  | [] => .error "unescape"                     -- not reached: the loop stops on the empty string
  | c :: s =>
    if c ≠ '\\' then .ok (c, s)
    else match s with
      | [] => .error "unescape"                  -- backslash is the last character
      | e :: s =>
        match lookup e T.unescSimple with
        | some v => .ok (Char.ofNat v, s)
        | none =>
          match lookup e T.unescHex with
          | some n =>
            if s.length < n then .error "unescape"
            else match hexValue 0 (s.take n) with
              | none => .error "unescape"
              | some v => (runeOut (v % 4294967296)).map fun ch => (ch, s.drop n)
          | none =>
            if T.unescOct.contains e then
              if s.length < 2 then .error "unescape"
              else match octValue (e.toNat - 48) (s.take 2) with
                | none => .error "unescape"
                | some v => (runeOut v).map fun ch => (ch, s.drop 2)
            else .error "unescape"

/-- the loop of `unescape`; the fuel is the length of the text (every step consumes a character) -/
def unescapeLoop (T : LexTables) : Nat → List Char → Except String (List Char)
  | _, [] => .ok []
  | 0, _ :: _ => .error "fuel"
  | f + 1, s@(_ :: _) =>
    match unescapeChar T s with
    | .error e => .error e
    | .ok (c, rest) => (unescapeLoop T f rest).map (c :: ·)

/-- utils.go `unescape` applied to the raw text of a literal, quotes included -/
def unescape (T : LexTables) (word : List Char) : Except String (List Char) :=
  let v := normalizeNewlines word
  if v.length < 2 then .error "unescape"
  else match v.head?, v.getLast? with
    | some a, some b =>
      if a ≠ b ∨ (a ≠ '"' ∧ a ≠ '\'') then .error "unescape"
      else unescapeLoop T v.length (v.drop 1).dropLast
    | _, _ => .error "unescape"

end ExprModel.Lex
