import ExprModel.Syntax.Ast
import ExprModel.VM.Step
/-
Shared parts of the optimizer model (optimizer/*.go): the visitor state, the deviation flags, and
the bottom-up traversal every pass is run through.

Every pass of optimizer.Optimize is an `Exit`-only visitor: `ast.Walk` rewrites the children first
(in ast/visitor.go's child order) and then calls `Exit` on the node itself, which may replace it
(`ast.Patch`) and record `applied` / `err` in the visitor.  `err` is *overwritten* by later nodes:
the walk does not stop at the first failing node.
-/
namespace ExprModel
namespace Opt

/-- places where the optimizer deviated from property C02 at the pinned snapshot, as switches.
    `true` = the repair is in place (what /repo does since the `fix:` commits f3d7630, 072d9f0, 9249c3a,
    69d5a9a, d5aa4cc and 426e727); `false` = the code as it was (kept for the witnesses). -/
structure Flags where
  /-- (#3) ast.Walk descends into `SliceNode.Node` (as is: only From/To are walked) -/
  walkSliceNode : Bool := false
  /-- (#8) in_array: the string-set rewrite requires `Left.Type().Kind() == reflect.String` -/
  inArrayStrGuard : Bool := false
  /-- (#9) in_range: the rewrite requires a left operand of kind int, int64 or an unsigned kind (`rangeKd`) -/
  inRangeKindGuard : Bool := false
  /-- (#9) in_range: the rewrite requires a left operand that can be evaluated twice
      (identifier, `#`, integer literal, member chains of those) -/
  inRangeSimpleLeft : Bool := false
  /-- (#10) fold: arithmetic is folded only when both literals still have the annotation `int` (or none) -/
  foldPlainOnly : Bool := false
  /-- (#11) const_expr: an integer literal is passed with its annotated kind, not as `int` -/
  constExprConvert : Bool := false
  /-- const_range: emptiness is decided by `max < min`; a size `max-min+1` that does not fit an `int` (it wraps
      below 1) leaves the range to the run time instead of folding it to an empty constant -/
  constRangeNoOverflow : Bool := false
  deriving Repr, DecidableEq, Inhabited

/-- the code as it is now: every repair in place -/
def Flags.asIs : Flags :=
  { walkSliceNode := true, inArrayStrGuard := true, inRangeKindGuard := true, inRangeSimpleLeft := true,
    foldPlainOnly := true, constExprConvert := true, constRangeNoOverflow := true }
/-- the code as it was before the `fix:` commits -/
def Flags.asWas : Flags := {}
abbrev Flags.repaired : Flags := Flags.asIs

/-- the visitor's fields -/
structure St where
  applied : Bool := false
  err : Option Loc := none
  deriving Repr, DecidableEq, Inhabited

/-- `Exit(node *Node)`: the node after the call and the visitor after the call -/
abbrev Rule := Node → St → Node × St

inductive Pass where
  | inArray | fold | constExpr | inRange | constRange
  deriving DecidableEq, Repr, Inhabited

/-- a filter on rewrite sites (used by the theorems to speak about "every rewrite that fired");
    the code corresponds to the filter that lets everything through -/
abbrev Guard := Pass → Node → Bool

def Guard.all : Guard := fun _ _ => true

def guarded (g : Guard) (p : Pass) (r : Rule) : Rule := fun n st => if g p n then r n st else (n, st)

/-- `ast.Patch(node, newNode)`: type and location of the replaced node are copied onto the new one -/
def patch (old new : Node) : Node := new.withMeta old.getMeta

mutual
/-- `ast.Walk(node, v)` for a visitor with an empty `Enter` -/
def walk (ws : Bool) (rule : Rule) : Node → St → Node × St
  | .nil m, st => rule (.nil m) st
  | .ident m a b, st => rule (.ident m a b) st
  | .int m v, st => rule (.int m v) st
  | .float m v, st => rule (.float m v) st
  | .bool m v, st => rule (.bool m v) st
  | .str m v, st => rule (.str m v) st
  | .const m v, st => rule (.const m v) st
  | .unary m op x, st =>
    let r := walk ws rule x st
    rule (.unary m op r.1) r.2
  | .binary m op l r, st =>
    let a := walk ws rule l st
    let b := walk ws rule r a.2
    rule (.binary m op a.1 b.1) b.2
  | .matches m h l r, st =>
    let a := walk ws rule l st
    let b := walk ws rule r a.2
    rule (.matches m h a.1 b.1) b.2
  | .prop m x name ns, st =>
    let r := walk ws rule x st
    rule (.prop m r.1 name ns) r.2
  | .index m x i, st =>
    let a := walk ws rule x st
    let b := walk ws rule i a.2
    rule (.index m a.1 b.1) b.2
  | .slice m x f t, st =>
    -- as is, `n.Node` is not walked
    let a := if ws then walk ws rule x st else (x, st)
    let b := walkOpt ws rule f a.2
    let c := walkOpt ws rule t b.2
    rule (.slice m a.1 b.1 c.1) c.2
  | .method m x name args ns, st =>
    let a := walk ws rule x st
    let b := walkList ws rule args a.2
    rule (.method m a.1 name b.1 ns) b.2
  | .func m name args fast, st =>
    let b := walkList ws rule args st
    rule (.func m name b.1 fast) b.2
  | .builtin m name args, st =>
    let b := walkList ws rule args st
    rule (.builtin m name b.1) b.2
  | .closure m x, st =>
    let r := walk ws rule x st
    rule (.closure m r.1) r.2
  | .pointer m, st => rule (.pointer m) st
  | .cond m c a b, st =>
    let x := walk ws rule c st
    let y := walk ws rule a x.2
    let z := walk ws rule b y.2
    rule (.cond m x.1 y.1 z.1) z.2
  | .array m xs, st =>
    let b := walkList ws rule xs st
    rule (.array m b.1) b.2
  | .map m ps, st =>
    let b := walkList ws rule ps st
    rule (.map m b.1) b.2
  | .pair m k v, st =>
    let a := walk ws rule k st
    let b := walk ws rule v a.2
    rule (.pair m a.1 b.1) b.2
def walkList (ws : Bool) (rule : Rule) : List Node → St → List Node × St
  | [], st => ([], st)
  | n :: ns, st =>
    let a := walk ws rule n st
    let b := walkList ws rule ns a.2
    (a.1 :: b.1, b.2)
def walkOpt (ws : Bool) (rule : Rule) : Option Node → St → Option Node × St
  | none, st => (none, st)
  | some n, st =>
    let a := walk ws rule n st
    (some a.1, a.2)
end

/-- `for limit := L; limit >= 0; limit-- { v := new; Walk; if v.err != nil return; if !v.applied break }`
    with `walks = L + 1` -/
def repeatPass (ws : Bool) (rule : Rule) : Nat → Node → Except Loc Node
  | 0, n => .ok n
  | k + 1, n =>
    let r := walk ws rule n {}
    match r.2.err with
    | some l => .error l
    | none => if r.2.applied then repeatPass ws rule k r.1 else .ok r.1

/-- all elements are `IntegerNode`s: their values -/
def allInts : List Node → Option (List Int)
  | [] => some []
  | .int _ v :: rest => (allInts rest).map (v :: ·)
  | _ :: _ => none

/-- all elements are `StringNode`s: their values -/
def allStrs : List Node → Option (List String)
  | [] => some []
  | .str _ s :: rest => (allStrs rest).map (s :: ·)
  | _ :: _ => none

/-- the type annotation is absent or of kind `int` -/
def plainKd : RKind → Bool
  | .invalid => true
  | .num .int => true
  | _ => false

end Opt
end ExprModel
