import ExprModel.Opt.Basic
/-
optimizer/fold.go: constant folding of integer arithmetic, string concatenation and literal arrays.

`patchWithType(new, leafType)` = `ast.Patch` (location and type of the replaced node) followed by
`SetType(leafType)`: the new literal keeps the location of the replaced node and the type annotation
of the (left) operand literal.  Values are Go `int`s: wrap-around at 64 bits, truncated division.
-/
namespace ExprModel
namespace Opt

/-- the result node of `patchWithType`: location of the replaced node, annotation of the leaf -/
def patchWithType (old : Node) (leafKd : RKind) (new : Node) : Node :=
  new.withMeta { loc := old.loc, kd := leafKd }

def applied (st : St) : St := { st with applied := true }

/-- `(*fold).Exit` -/
def foldRule (fl : Flags) (w : World) : Rule := fun n st =>
  match n with
  | .unary _ op (.int mi i) =>
    if fl.foldPlainOnly && !plainKd mi.kd then (n, st)
    else if op == "-" then (patchWithType n mi.kd (.int {} (wrap .int (-i))), applied st)
    else if op == "+" then (patchWithType n mi.kd (.int {} i), applied st)
    else (n, st)
  | .binary _ op (.int ma a) (.int mb b) =>
    if op == "+" || op == "-" || op == "*" || op == "/" then
      if fl.foldPlainOnly && !(plainKd ma.kd && plainKd mb.kd) then (n, st)
      else if op == "+" then (patchWithType n ma.kd (.int {} (wrap .int (a + b))), applied st)
      else if op == "-" then (patchWithType n ma.kd (.int {} (wrap .int (a - b))), applied st)
      else if op == "*" then (patchWithType n ma.kd (.int {} (wrap .int (a * b))), applied st)
      else if b == 0 then (n, { st with err := some n.loc })
      else (patchWithType n ma.kd (.int {} (wrap .int (Int.tdiv a b))), applied st)
    else if op == "%" then
      if b == 0 then (n, { st with err := some n.loc })
      else (patch n (.int {} (wrap .int (Int.tmod a b))), applied st)
    else if op == "**" then
      (patch n (.float {} (w.pow (Float.ofInt a) (Float.ofInt b)).toBits), applied st)
    else (n, st)
  | .binary _ op (.str _ a) (.str _ b) =>
    if op == "+" then (patch n (.str {} (a ++ b)), applied st) else (n, st)
  | .array _ xs =>
    if xs.isEmpty then (n, st)
    else match allInts xs with
      | some vs => (patch n (.const {} (.arr (.num .int) (vs.map (Val.int .int)))), applied st)
      | none => match allStrs xs with
        | some ss => (patch n (.const {} (.arr .str (ss.map Val.str))), applied st)
        | none => (n, st)
  | _ => (n, st)

end Opt
end ExprModel
