import ExprModel.Opt.Basic
/-
optimizer/const_range.go: a range with literal bounds becomes a `[]int` constant; empty when
`max < min`, left alone when it has more than 1e6 elements.
-/
namespace ExprModel
namespace Opt

/-- the literal `1e6` of const_range.go (pinned against the source by `C02.const_range_limit_pinned`) -/
def constRangeMax : Int := 1000000

def rangeVals (lo : Int) (size : Nat) : List Val :=
  (List.range size).map fun (i : Nat) => Val.int .int (wrap .int (lo + (i : Int)))

/-- `(*constRange).Exit` -/
def constRangeRule (fl : Flags) : Rule := fun n st =>
  match n with
  | .binary _ op (.int _ lo) (.int _ hi) =>
    if op == ".." then
      let size := wrap .int (hi - lo + 1)
      if fl.constRangeNoOverflow then
        if hi < lo then (patch n (.const {} (.arr (.num .int) [])), st)
        else if size < 1 || size > constRangeMax then (n, st)
        else (patch n (.const {} (.arr (.num .int) (rangeVals lo size.toNat))), st)
      else
        -- as written: `size := max - min + 1` in Go's int; a size that wraps below 1 yields the empty constant
        if size < 1 then (patch n (.const {} (.arr (.num .int) [])), st)
        else if size > constRangeMax then (n, st)
        else (patch n (.const {} (.arr (.num .int) (rangeVals lo size.toNat))), st)
    else (n, st)
  | _ => (n, st)

end Opt
end ExprModel
