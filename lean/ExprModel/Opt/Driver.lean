import ExprModel.Opt.Fold
import ExprModel.Opt.InArray
import ExprModel.Opt.InRange
import ExprModel.Opt.ConstRange
import ExprModel.Opt.ConstExpr
/-
optimizer.Optimize: in_array once; fold while it applies (limit 1000, i.e. at most 1001 walks);
const_expr likewise (limit 100) when functions are registered; in_range once; const_range once.
-/
namespace ExprModel
namespace Opt

/-- walks allowed by `for limit := 1000; limit >= 0; limit--` (pinned by `C02.fold_limit_pinned`) -/
def foldWalks : Nat := 1001
/-- walks allowed by `for limit := 100; limit >= 0; limit--` -/
def constExprWalks : Nat := 101

/-- the order of the passes (pinned by `C02.pass_order_pinned`) -/
def passOrder : List Pass := [.inArray, .fold, .constExpr, .inRange, .constRange]

def optimizeWith (g : Guard) (fl : Flags) (fns : ConstFns) (w : World) (n : Node) : Except Loc Node := do
  let ws := fl.walkSliceNode
  let n1 := (walk ws (guarded g .inArray (inArrayRule fl)) n {}).1
  let n2 ← repeatPass ws (guarded g .fold (foldRule fl w)) foldWalks n1
  let n3 ← if fns.isEmpty then pure n2
           else repeatPass ws (guarded g .constExpr (constExprRule fl fns w)) constExprWalks n2
  let n4 := (walk ws (guarded g .inRange (inRangeRule fl)) n3 {}).1
  let n5 := (walk ws (guarded g .constRange (constRangeRule fl)) n4 {}).1
  pure n5

/-- `optimizer.Optimize(&node, config)`: the new tree, or the location of the compile error -/
def optimize (fl : Flags) (fns : ConstFns) (w : World) (n : Node) : Except Loc Node :=
  optimizeWith Guard.all fl fns w n

end Opt
end ExprModel
