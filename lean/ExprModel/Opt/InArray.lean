import ExprModel.Opt.Basic
/-
optimizer/in_array.go: `x in [literals]` becomes a lookup in a constant `map[int]struct{}` /
`map[string]struct{}`.  The integer rewrite asks for `Left.Type().Kind() == reflect.Int`; the string
rewrite (reached through `goto string`) does not look at the left operand's type at all.
After the integer rewrite the code falls through to the `string:` label with the *old* array, whose
first element is an `IntegerNode`, so it returns there.
-/
namespace ExprModel
namespace Opt

def dedupInts : List Int → List Int
  | [] => []
  | x :: xs => if xs.contains x then dedupInts xs else x :: dedupInts xs

def dedupStrs : List String → List String
  | [] => []
  | x :: xs => if xs.contains x then dedupStrs xs else x :: dedupStrs xs

/-- `map[int]struct{}` built from the literals (key order is not observable; duplicates collapse) -/
def intSet (vs : List Int) : Val := .set (.num .int) ((dedupInts vs).map (Val.int .int))
def strSet (ss : List String) : Val := .set .str ((dedupStrs ss).map Val.str)

/-- `(*inArray).Exit` -/
def inArrayRule (fl : Flags) : Rule := fun n st =>
  match n with
  | .binary _ op l (.array _ xs) =>
    if (op == "in" || op == "not in") && !xs.isEmpty then
      let intCase : Option Node :=
        if l.kd == .num .int then
          (allInts xs).map fun vs => patch n (.binary {} op l (.const {} (intSet vs)))
        else none
      match intCase with
      | some n' => (n', st)
      | none =>
        if fl.inArrayStrGuard && l.kd != .string then (n, st)
        else match allStrs xs with
          | some ss => (patch n (.binary {} op l (.const {} (strSet ss))), st)
          | none => (n, st)
    else (n, st)
  | _ => (n, st)

end Opt
end ExprModel
