import ExprModel.VM.Runtime
/-
Observational equality of results (property C02): numbers equal in kind and value, sequences compared
element by element (the element type of the Go slice is not observed: `[]int{1,2}` ≈ `[]interface{}{1,2}`),
maps key by key; everything else as `reflect.DeepEqual`.
-/
namespace ExprModel
namespace Opt

mutual
def obsEqB : Val → Val → Bool
  | .arr _ xs, .arr _ ys => obsEqListB xs ys
  | .map xs, .map ys => obsEqKvsB xs ys
  | .tmap z n xs, .tmap z' n' ys => Val.deepEq z z' && n == n' && obsEqKvsB xs ys
  | .f64 a, .f64 b => a == b || (a.isNaN && b.isNaN)
  | .f32 a, .f32 b => a == b || (a.isNaN && b.isNaN)
  | a, b => Val.deepEq a b
def obsEqListB : List Val → List Val → Bool
  | [], [] => true
  | x :: xs, y :: ys => obsEqB x y && obsEqListB xs ys
  | _, _ => false
def obsEqKvsB : List (String × Val) → List (String × Val) → Bool
  | [], [] => true
  | (k, x) :: xs, (l, y) :: ys => k == l && obsEqB x y && obsEqKvsB xs ys
  | _, _ => false
end

end Opt
end ExprModel
