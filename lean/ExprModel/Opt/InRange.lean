import ExprModel.Opt.Basic
/-
optimizer/in_range.go: `x in a..b` with literal bounds becomes `x >= a and x <= b`
(`not (…)` for `not in`).  The two comparison nodes are fresh (no type, location 0:0), the bounds are
the old literal nodes, the left operand node is used twice, the outer node(s) get type and location
of the replaced node through `ast.Patch`.
-/
namespace ExprModel
namespace Opt

/-- operands that the repaired rewrite may duplicate: no calls, no allocation -/
def simpleLeft : Node → Bool
  | .ident .. => true
  | .pointer _ => true
  | .int .. => true
  | .prop _ x _ _ => simpleLeft x
  | _ => false

/-- integer kinds for which `x in a..b` and `x >= a and x <= b` agree for all literal bounds:
    the kinds whose comparison with an `int` literal is exact or converts the *operand* to `int`
    (`int8`, `int16`, `int32` rank above `int` in the promotion rule, so the bounds would be narrowed) -/
def rangeKd : RKind → Bool
  | .num .int => true
  | .num .int64 => true
  | .num .uint => true
  | .num .uint8 => true
  | .num .uint16 => true
  | .num .uint32 => true
  | .num .uint64 => true
  | _ => false

/-- `(*inRange).Exit` -/
def inRangeRule (fl : Flags) : Rule := fun n st =>
  match n with
  | .binary _ op l (.binary _ rop (.int mf a) (.int mt b)) =>
    if (op == "in" || op == "not in") && rop == ".." then
      if fl.inRangeKindGuard && !rangeKd l.kd then (n, st)
      else if fl.inRangeSimpleLeft && !simpleLeft l then (n, st)
      else
        let conj := patch n (.binary {} "and" (.binary {} ">=" l (.int mf a)) (.binary {} "<=" l (.int mt b)))
        if op == "not in" then (patch conj (.unary {} "not" conj), st) else (conj, st)
    else (n, st)
  | _ => (n, st)

end Opt
end ExprModel
