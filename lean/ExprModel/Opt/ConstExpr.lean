import ExprModel.Opt.Basic
/-
optimizer/const_expr.go: a call of a function registered with `expr.ConstExpr` whose arguments are
all literals / constants is evaluated at compile time.  Arguments are passed with the Go type of the
literal node's `Value` field: an `IntegerNode` is passed as `int` whatever type the checker attached.
A panic inside (including reflect.Call's own argument check) becomes a compile error at the node.
-/
namespace ExprModel
namespace Opt

/-- `param` for one argument node; `none` = "Const expr optimization not applicable" -/
def constArg (fl : Flags) : Node → Option Val
  | .nil _ => some .nil
  | .int m v => some (if fl.constExprConvert then intConst m.kd v else .int .int v)
  | .float _ bits => some (.f64 (Float.ofBits bits))
  | .bool _ b => some (.bool b)
  | .str _ s => some (.str s)
  | .const _ v => some v
  | _ => none

def constArgs (fl : Flags) : List Node → Option (List Val)
  | [] => some []
  | a :: rest => match constArg fl a, constArgs fl rest with
    | some v, some vs => some (v :: vs)
    | _, _ => none

/-- `config.ConstExprFns`: expression-level name → behaviour id of the environment function -/
abbrev ConstFns := List (String × String)

/-- `(*constExpr).Exit` -/
def constExprRule (fl : Flags) (fns : ConstFns) (w : World) : Rule := fun n st =>
  match n with
  | .func _ name args _ =>
    match fns.lookup name with
    | none => (n, st)
    | some id =>
      match constArgs fl args with
      | none => (n, st)
      | some vs =>
        match w.call id vs with
        | .ok v => (patch n (.const {} v), { st with applied := true })
        | .error _ => (n, { st with err := some n.loc })
  | _ => (n, st)

end Opt
end ExprModel
