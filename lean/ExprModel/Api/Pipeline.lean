import ExprModel.Lex.Lexer
import ExprModel.Syntax.Parser
import ExprModel.Code.Compile
import ExprModel.VM.Step
/-
Model of `expr.Eval(input, env)` (expr.go): `parser.Parse` (lexer, then parser), `compiler.Compile(tree, nil)`
(no type information, no optimiser, no result directive), `vm.Run` — all the model stages in a row.
-/
namespace ExprModel.Api
open ExprModel ExprModel.Lex

/-- everything the front end consults outside the source text: the `unicode` classes, the lexer's and the
    parser's tables (regenerated from the source), `strconv.ParseFloat` and `regexp.Compile` as oracles -/
structure Front where
  cc : CharClass
  tables : LexTables
  pcfg : Parser.Cfg

/-- the program value handed to the VM -/
def progOfCompiled (cp : Compiled) : Prog := { code := cp.bytes.toArray, consts := cp.consts }

inductive EvalOut where
  | lexError (e : LexErr)
  | parseError (e : Parser.Err)
  | compileError (e : CompErr)
  | ran (res : R Val) (final : VM)

/-- `expr.Eval` -/
def evalSource (F : Front) (c : Cfg) (fuel : Nat) (src : String) : EvalOut :=
  match lex F.cc F.tables src with
  | .error e => .lexError e
  | .ok ts =>
    match Parser.parse F.pcfg ts with
    | .error e => .parseError e
    | .ok n =>
      match compileProgram {} n with
      | .error e => .compileError e
      | .ok cp =>
        let out := run c (progOfCompiled cp) fuel
        .ran out.1 out.2

end ExprModel.Api
