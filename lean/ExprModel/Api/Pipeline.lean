import ExprModel.Lex.Lexer
import ExprModel.Syntax.Parser
import ExprModel.Code.Compile
import ExprModel.VM.Step
import ExprModel.Types.Checker
import ExprModel.Walk.Patch
import ExprModel.Opt.Driver
/-
Model of `expr.Eval(input, env)` (expr.go): `parser.Parse` (lexer, then parser), `compiler.Compile(tree, nil)`
(no type information, no optimiser, no result directive), `vm.Run` — all the model stages in a row.
-/
namespace ExprModel.Api
open ExprModel ExprModel.Lex

/-- everything the front end consults outside the source text: the `unicode` classes, the lexer's and the
    parser's tables (regenerated from the source), `strconv.ParseFloat` and `regexp.Compile` as oracles -/
structure Front where
  cc : CharClass
  tables : LexTables
  pcfg : Parser.Cfg
  /-- the compiler rejects jump offsets beyond 16 bits (regenerated fact `Gen.jumpGuard`; fix ba2f082) -/
  jumpGuard : Bool := true

/-- the configuration `expr.Eval` compiles with: no types, no result directive -/
def Front.compCfg (F : Front) : CompCfg := { jumpGuard := F.jumpGuard }

/-- the program value handed to the VM -/
def progOfCompiled (cp : Compiled) : Prog := { code := cp.bytes.toArray, consts := cp.consts }

inductive EvalOut where
  | lexError (e : LexErr)
  | parseError (e : Parser.Err)
  | compileError (e : CompErr)
  | ran (res : R Val) (final : VM)

/-- `expr.Eval` -/
def evalSource (F : Front) (c : Cfg) (fuel : Nat) (src : String) : EvalOut :=
  match lex F.cc F.tables src with
  | .error e => .lexError e
  | .ok ts =>
    match Parser.parse F.pcfg ts with
    | .error e => .parseError e
    | .ok n =>
      match compileProgram F.compCfg n with
      | .error e => .compileError e
      | .ok cp =>
        let out := run c (progOfCompiled cp) fuel
        .ran out.1 out.2

/-! ### `expr.Compile(input, Env(env), …)` followed by `expr.Run`: the typed pipeline -/

/-- what the options of `expr.Compile` leave in `conf.Config`, as far as the stages consult it -/
structure TypedCfg where
  /-- `Types`, `Strict`, `DefaultType`, `Expect` (and the variant of the checker model) -/
  check : CheckCfg
  /-- `MapEnv`: the environment is a `map[string]interface{}` -/
  mapEnv : Bool
  /-- `Optimize` (default on) -/
  optimize : Bool := true
  optFlags : Opt.Flags := Opt.Flags.asIs
  /-- `ConstExprFns` as (name, behaviour id) -/
  constFns : Opt.ConstFns := []
  /-- `Operators` with, for `Config.Check`, the shapes of the environment's functions, and, for
      `PatchOperators`, the candidate signatures and the (opaque) type key of an annotated node -/
  operators : List (String × List String) := []
  fnTags : List (String × FnTag) := []
  opTable : OpTable := []
  tyOf : Node → String := fun _ => nilTyKey
  walkTbl : WalkTable := refSlots
  /-- the compiler rejects jump offsets beyond 16 bits (regenerated fact `Gen.jumpGuard`) -/
  jumpGuard : Bool := true

/-- the operand of the result directive the compiler appends (`AsInt64` / `AsFloat64`; `AsBool` only checks) -/
def castOf : Expect → Option Nat
  | .int64 => some 0
  | .float64 => some 1
  | _ => none

def TypedCfg.compCfg (T : TypedCfg) : CompCfg :=
  { mapEnv := T.mapEnv, cast := castOf T.check.expect, jumpGuard := T.jumpGuard }

inductive CompileOut where
  | configError (r : CheckRes)
  | lexError (e : LexErr)
  | parseError (e : Parser.Err)
  | checkError (loc : Option Loc) (c : CheckErrClass)
  | checkPanic (msg : String)
  | patchPanic
  | optimizeError (loc : Loc)
  | compileError (e : CompErr)
  | ok (cp : Compiled) (checked final : Node)

/-- the stages between the parser and the compiler, on a parsed tree: `Check`, `PatchOperators`, `Check` again
    (no visitors: an error of the first check is final), `Optimize` when on.
    `checked` is the tree after the second check, `final` the tree handed to the compiler. -/
def middle (T : TypedCfg) (w : World) (n : Node) : CompileOut :=
  match check T.check n with
  | .error loc c _ => .checkError loc c
  | .panic msg => .checkPanic msg
  | .ok n1 _ =>
    match patchOperators T.walkTbl T.opTable T.tyOf n1 with
    | none => .patchPanic
    | some n2 =>
      match check T.check n2 with
      | .error loc c _ => .checkError loc c
      | .panic msg => .checkPanic msg
      | .ok n3 _ =>
        let opt : Except Loc Node := if T.optimize then Opt.optimize T.optFlags T.constFns w n3 else .ok n3
        match opt with
        | .error loc => .optimizeError loc
        | .ok n4 =>
          match compileProgram T.compCfg n4 with
          | .error e => .compileError e
          | .ok cp => .ok cp n3 n4

/-- `expr.Compile` -/
def compileSource (F : Front) (T : TypedCfg) (w : World) (src : String) : CompileOut :=
  match configCheck T.fnTags T.operators with
  | .ok =>
    match lex F.cc F.tables src with
    | .error e => .lexError e
    | .ok ts =>
      match Parser.parse F.pcfg ts with
      | .error e => .parseError e
      | .ok n => middle T w n
  | r => .configError r

inductive RunOut where
  | notCompiled (o : CompileOut)
  | ran (cp : Compiled) (res : R Val) (final : VM)

/-- `expr.Compile` then `expr.Run` -/
def runSource (F : Front) (T : TypedCfg) (c : Cfg) (fuel : Nat) (src : String) : RunOut :=
  match compileSource F T c.world src with
  | .ok cp _ _ => let out := run c (progOfCompiled cp) fuel; .ran cp out.1 out.2
  | o => .notCompiled o

end ExprModel.Api
