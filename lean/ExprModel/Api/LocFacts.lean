/-
Record types for the location facts regenerated from /repo by translator/locsites.go
(`Gen/SetLocation.lean`), and the reading of a parser constructor site as "which token's location
does the new node get".  Core only.
-/
namespace ExprModel.LocFacts

/-- One `&XNode{…}` composite literal in parser/parser.go.
    `locArg`  : the argument of the `SetLocation` call that directly follows ("" = none follows);
    `tokDef`  : the lexically reaching definition of the token variable ("param" for a parameter);
    `defPrev` : the statement just before that definition ("<entry>" = it is the first statement);
    `otherDefs`: every other assignment to that variable in the function (loop-carried definitions);
    `guards`  : the enclosing conditions, outermost first. -/
structure NodeSite where
  fn : String
  node : String
  target : String
  locArg : String
  tokDef : String
  defPrev : String
  otherDefs : List String
  guards : List String
  deriving DecidableEq, Repr

/-- a call passing a token to a parse function that locates a node by its parameter -/
structure TokenPass where
  caller : String
  callee : String
  args : String
  guards : List String
  deriving DecidableEq, Repr

/-- a node constructed outside the parser (optimizer passes, operator patcher) -/
structure CreatedNode where
  file : String
  fn : String
  node : String
  /-- `patch-arg:<f>` (passed directly to Patch / a patch closure), `patch-var:<f>` (assigned, then
      passed), `field:<Field> of <Parent>` (nested inside another literal: never located) -/
  how : String
  deriving DecidableEq, Repr

/-- an error construction site -/
structure ErrSite where
  file : String
  fn : String
  kind : String      -- file.Error | fmt.Errorf | errors.New
  loc : String       -- text of the Location field ("" = no location)
  deriving DecidableEq, Repr

/-- which token a node is located at -/
inductive TokRole where
  | binaryOp      -- the binary operator token (loop variable guarded by `binaryOperators[token.Value]`)
  | unaryOp       -- the unary operator token
  | pointerTok    -- `#` (or the `.` of `.field` inside a closure)
  | questionOp    -- the `?` of a conditional (captured at the head of the loop body, before `p.next()`)
  | ownToken      -- the literal's own token (captured at function entry, consumed by `p.next()`)
  | nameToken     -- identifier / function / builtin name token (passed as parameter from the Identifier case)
  | memberName    -- the name after `.` / `?.`
  | indexBracket  -- the `[` of a postfix index / slice
  | openBracket   -- the `[` / `{` opening an array, map, closure (and map pairs and bare map keys)
  | none          -- no SetLocation call
  | unknown
  deriving DecidableEq, Repr

def isPrefixL : List Char → List Char → Bool
  | [], _ => true
  | _ :: _, [] => false
  | a :: as, b :: bs => a == b && isPrefixL as bs

def hasSubL (sub : List Char) : List Char → Bool
  | [] => sub.isEmpty
  | c :: cs => isPrefixL sub (c :: cs) || hasSubL sub cs

/-- `sub` occurs in `s` (structural, so that `decide` can evaluate it) -/
def hasSub (s sub : String) : Bool := hasSubL sub.toList s.toList

/-- reading of the raw facts of one site -/
def roleOf (s : NodeSite) : TokRole :=
  if s.locArg == "" then .none
  else if s.locArg != "token.Location" then .unknown
  else if s.fn == "parseExpression" then
    (if s.guards.any (hasSub · "binaryOperators[token.Value]") && s.tokDef == "token := p.current"
        && s.otherDefs == ["token = p.current"] then .binaryOp else .unknown)
  else if s.fn == "parsePrimary" then
    (if s.tokDef == "token := p.current" && s.defPrev == "<entry>" && s.otherDefs == [] then
      (if s.guards.any (hasSub · "unaryOperators[token.Value]") then .unaryOp
       else if s.guards.any (hasSub · "token.Is(Operator, \"#\") || token.Is(Operator, \".\")") then .pointerTok
       else .unknown)
     else .unknown)
  else if s.fn == "parseConditionalExpression" then
    (if s.tokDef == "token := p.current" && s.defPrev == "<block start>" && s.otherDefs == []
        && s.guards == ["p.current.Is(Operator, \"?\") && p.err == nil"] then .questionOp else .unknown)
  else if s.fn == "parsePrimaryExpression" then
    (if s.tokDef == "token := p.current" && s.otherDefs == [] && s.guards.head? == some "switch token.Kind"
     then .ownToken else .unknown)
  else if s.fn == "parseIdentifierExpression" then
    (if s.tokDef == "param" && s.otherDefs == [] then .nameToken else .unknown)
  else if s.fn == "parseClosure" then
    (if s.tokDef == "token := p.current" && s.defPrev == "<entry>" && s.otherDefs == [] then .openBracket else .unknown)
  else if s.fn == "parseArrayExpression" || s.fn == "parseMapExpression" then
    (if s.tokDef == "param" && s.otherDefs == [] then .openBracket else .unknown)
  else if s.fn == "parsePostfixExpression" then
    (if s.guards.any (· == "token.Value == \".\" || token.Value == \"?.\"") then
      (if s.tokDef == "token = p.current" && s.defPrev == "p.next()" then .memberName else .unknown)
     else if s.guards.any (· == "else: token.Value == \"[\"") then
      (if s.tokDef == "token := p.current" && s.defPrev == "<entry>" then .indexBracket else .unknown)
     else .unknown)
  else .unknown

end ExprModel.LocFacts
