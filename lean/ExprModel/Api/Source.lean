import ExprModel.Base.Val
/-
Model of /repo/file: `Source` (source.go), `Location` (location.go), `Error.Bind` / `format` (error.go).

A source is its rune slice (`[]rune(contents)`), here `List Char`.  Every slice expression and every
index expression of the Go code is modelled with an explicit bounds check whose failure is the
distinct outcome `panic`; `Props/C13.lean` proves `panic` unreachable (used by C04 as well).

Go detail kept: `updateOffsets` stores, for line i (0-based), the rune offset *just after* that
line's newline (cumulative rune count + 1), also for the last line (which has no newline).
`lineOffsets` are `int32` in Go: sources of 2^31 runes or more are outside the model.
-/
namespace ExprModel.Src

/-- result of a Go operation that may panic (index / slice out of range) -/
inductive Out (α : Type) where
  | ok (a : α)
  | panic
  deriving DecidableEq, Repr

def Out.map {α β : Type} (f : α → β) : Out α → Out β
  | .ok a => .ok (f a)
  | .panic => .panic

/-- `strings.Split(s, "\n")` over runes: n newlines give n+1 pieces; `""` gives `[""]`. -/
def splitLines : List Char → List (List Char)
  | [] => [[]]
  | c :: cs =>
    if c = '\n' then [] :: splitLines cs
    else match splitLines cs with
      | [] => [[c]]
      | l :: ls => (c :: l) :: ls

/-- the loop of `updateOffsets`: `offset = offset + RuneCount(line) + 1; offsets[i] = offset` -/
def lineOffsetsFrom (acc : Nat) : List (List Char) → List Nat
  | [] => []
  | l :: ls => (acc + l.length + 1) :: lineOffsetsFrom (acc + l.length + 1) ls

def lineOffsets (src : List Char) : List Nat := lineOffsetsFrom 0 (splitLines src)

/-- Go index expression `xs[i]` -/
def idx (xs : List Nat) (i : Int) : Out Nat :=
  if 0 ≤ i ∧ i < xs.length then .ok (xs.getD i.toNat 0) else .panic

/-- Go slice expression `xs[lo:hi]` -/
def slice (xs : List Char) (lo hi : Int) : Out (List Char) :=
  if 0 ≤ lo ∧ lo ≤ hi ∧ hi ≤ xs.length then .ok ((xs.drop lo.toNat).take (hi - lo).toNat) else .panic

/-- `findLineOffset`: `(offset, found)`; `(-1, false)` when the line does not exist -/
def findLineOffset (offs : List Nat) (line : Int) : Out (Int × Bool) :=
  if line = 1 then .ok (0, true)
  else if line > 1 ∧ line ≤ offs.length then
    match idx offs (line - 2) with
    | .ok o => .ok (o, true)
    | .panic => .panic
  else .ok (-1, false)

/-- `Source.Snippet(line)` -/
def snippet (src : List Char) (line : Int) : Out (List Char × Bool) :=
  match findLineOffset (lineOffsets src) line with
  | .panic => .panic
  | .ok (start, found) =>
    if !found || src.length == 0 then .ok ([], false)
    else match findLineOffset (lineOffsets src) (line + 1) with
      | .panic => .panic
      | .ok (e, true) => (slice src start (e - 1)).map (·, true)
      | .ok (_, false) => (slice src start src.length).map (·, true)

/-! ### Reference notions (independent of `splitLines`/offsets): the n-th line, positions -/

/-- text before the first newline -/
def firstLine : List Char → List Char
  | [] => []
  | c :: cs => if c = '\n' then [] else c :: firstLine cs

/-- text after the first newline, if there is one -/
def afterFirstLine : List Char → Option (List Char)
  | [] => none
  | c :: cs => if c = '\n' then some cs else afterFirstLine cs

/-- the n-th line (0-based): the text between the n-th and the (n+1)-th newline -/
def nthLine : List Char → Nat → Option (List Char)
  | s, 0 => some (firstLine s)
  | s, n + 1 => match afterFirstLine s with
    | none => none
    | some r => nthLine r n

def numLines (src : List Char) : Nat := (splitLines src).length

/-- The lexer's bookkeeping (`next`): after consuming a rune, `'\n'` ⇒ `(line+1, 0)`, otherwise
    `(line, col+1)`.  `posOfAux src k line col` consumes `k` runes. -/
def posOfAux : List Char → Nat → Nat → Nat → Nat × Nat
  | _, 0, l, c => (l, c)
  | [], _ + 1, l, c => (l, c)
  | ch :: cs, k + 1, l, c => if ch = '\n' then posOfAux cs k (l + 1) 0 else posOfAux cs k l (c + 1)

/-- location of rune offset `k`: the lexer starts at `{Line: 1, Column: 0}` -/
def posOf (src : List Char) (k : Nat) : Loc :=
  let p := posOfAux src k 1 0
  { line := p.1, col := p.2 }

/-- A location lies inside the source: its line exists and its column is within that line
    (the position just after the last rune of a line — where its newline or the end of input
    sits — included). -/
def InSource (src : List Char) (loc : Loc) : Prop :=
  1 ≤ loc.line ∧ ∃ l, nthLine src (loc.line - 1) = some l ∧ loc.col ≤ l.length

instance (src : List Char) (loc : Loc) : Decidable (InSource src loc) := by
  unfold InSource
  cases h : nthLine src (loc.line - 1) with
  | none => exact isFalse (by intro ⟨_, l, hl, _⟩; cases hl)
  | some l =>
    by_cases h1 : 1 ≤ loc.line
    · by_cases h2 : loc.col ≤ l.length
      · exact isTrue ⟨h1, l, rfl, h2⟩
      · exact isFalse (by intro ⟨_, l', hl, hc⟩; cases hl; exact h2 hc)
    · exact isFalse (by intro ⟨h, _⟩; exact h1 h)

/-! ### `Error.Bind` and `format` -/

/-- `utf8.DecodeRune` reports a size > 1 exactly for runes ≥ U+0080 -/
def isMulti (c : Char) : Bool := c.toNat ≥ 128

/-- `strings.Replace(snippet, "\t", " ", -1)` -/
def tabsToSpaces (l : List Char) : List Char := l.map fun c => if c = '\t' then ' ' else c

/-- The indicator loop of `Bind` over the remaining runes of the line and the remaining column
    count: one `.` per single-byte rune up to the column, then `^`; `none` = `goto noind` (a
    multi-byte rune met at or before the column).  An exhausted line ends the loop early
    (`len(bytes) > 0` fails) and `DecodeRune` of nothing has size 0, so the caret is still drawn. -/
def indicator : List Char → Nat → Option (List Char)
  | [], _ => some ['^']
  | c :: _, 0 => if isMulti c then none else some ['^']
  | c :: cs, n + 1 => if isMulti c then none else (indicator cs n).map ('.' :: ·)

structure FileError where
  line : Int
  col : Int
  msg : List Char
  snippet : List Char := []
  deriving DecidableEq, Repr

def gutter : List Char := ['\n', ' ', '|', ' ']

/-- `(*Error).Bind(source)`; the snippet stays as it was when the line is not found -/
def bind (src : List Char) (e : FileError) : Out FileError :=
  match snippet src e.line with
  | .panic => .panic
  | .ok (_, false) => .ok e
  | .ok (s, true) =>
    let s' := tabsToSpaces s
    match indicator s' e.col.toNat with
    | some ind => .ok { e with snippet := gutter ++ s' ++ gutter ++ ind }
    | none => .ok { e with snippet := gutter ++ s' }

/-- `Location.Empty()` -/
def locEmpty (e : FileError) : Bool := e.col == 0 && e.line == 0

/-- `format()`: `"%s (%d:%d)%s"` with the column shown 1-based -/
def format (e : FileError) : List Char :=
  if locEmpty e then e.msg
  else e.msg ++ " (".toList ++ (toString e.line).toList ++ [':'] ++ (toString (e.col + 1)).toList ++ [')'] ++ e.snippet

end ExprModel.Src
