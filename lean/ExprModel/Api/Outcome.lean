/-
Three-valued outcomes for C04: a Go call either returns a value, returns an error, or lets a panic escape.
A stage is a function with a flag saying whether its Go body installs `defer func(){ recover() … }()`;
a guarded stage turns a panic raised inside it into an error.  Core only.
-/
namespace ExprModel.Api

inductive Outcome (α : Type) where
  | ok (a : α)
  | error (msg : String)
  | panic (msg : String)
  deriving Repr, DecidableEq

namespace Outcome

def isPanic {α : Type} : Outcome α → Bool
  | .panic _ => true
  | _ => false

def isOk {α : Type} : Outcome α → Bool
  | .ok _ => true
  | _ => false

def bind {α β : Type} (o : Outcome α) (f : α → Outcome β) : Outcome β :=
  match o with
  | .ok a => f a
  | .error m => .error m
  | .panic m => .panic m

/-- what `defer func() { if r := recover(); r != nil { err = … } }()` does to the outcome of the body -/
def recovered {α : Type} : Outcome α → Outcome α
  | .panic m => .error m
  | o => o

end Outcome

/-- a pipeline stage over one state type (the tree / config / program being threaded through) -/
structure Stage (σ : Type) where
  name : String
  guarded : Bool
  run : σ → Outcome σ

def Stage.exec {σ : Type} (s : Stage σ) (a : σ) : Outcome σ :=
  if s.guarded then (s.run a).recovered else s.run a

/-- run the stages in order; an error or an escaping panic stops the pipeline (Go: `if err != nil { return nil, err }`) -/
def runPipeline {σ : Type} : List (Stage σ) → σ → Outcome σ
  | [], a => .ok a
  | s :: rest, a => (s.exec a).bind (runPipeline rest)

/-- the Go pair `(value, error)` an outcome is returned as: exactly one side is nil -/
def Outcome.goPair {α : Type} : Outcome α → Option (Option α × Option String)
  | .ok a => some (some a, none)
  | .error m => some (none, some m)
  | .panic _ => none            -- nothing is returned: the panic unwinds the caller

end ExprModel.Api
