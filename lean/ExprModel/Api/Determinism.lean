/-
Models of the places on the Compile path where Go's unspecified map-iteration order could leak into the
result (C09), and of the compiler's constant pool.  Core only.

Go maps are modelled as finite functions `Key → Option Val`; a `range` over a map is a fold over *some*
enumeration of its entries — a list with pairwise distinct keys, in an order Go does not specify.  A loop
is order-insensitive when the fold gives the same result for every permutation of that list.
-/
namespace ExprModel.Determinism

/-- a Go map as a finite function -/
abbrev GoMap (K V : Type) := K → Option V

def GoMap.empty {K V : Type} : GoMap K V := fun _ => none

def GoMap.set {K V : Type} [DecidableEq K] (m : GoMap K V) (k : K) (v : V) : GoMap K V :=
  fun k' => if k' = k then some v else m k'

/-- A loop body of the shape `m[k] = g(m[k], v)` — it reads and writes only the entry of the key it is
    visiting.  The map loop of conf.CreateTypesTable has this shape. -/
def keyedStep {K V W : Type} [DecidableEq K] (g : Option V → W → V) (m : GoMap K V) (e : K × W) : GoMap K V :=
  m.set e.1 (g (m e.1) e.2)

def keyedLoop {K V W : Type} [DecidableEq K] (g : Option V → W → V) (m : GoMap K V) (entries : List (K × W)) : GoMap K V :=
  entries.foldl (keyedStep g) m

/-! ### conf.CreateTypesTable, `case reflect.Map`: `for _, key := range v.MapKeys() { types[key.String()] = Tag{…} }` -/

structure Tag where
  ty : String        -- rendering of the reflect.Type
  method : Bool
  ambiguous : Bool
  deriving DecidableEq, Repr

def typesFromMapStep : Option Tag → Tag → Tag := fun _ t => t

/-- the table built from the entries of an environment map, visited in the order `entries` -/
def typesFromMap (entries : List (String × Tag)) : GoMap String Tag :=
  keyedLoop typesFromMapStep GoMap.empty entries

/-! ### conf.(*Config).Check: two loops that return the first error they meet -/

inductive CheckError where
  | missingFn (fn op : String)        -- "function %s for %s operator does not exist in environment"
  | badSignature (fn op : String)     -- "function %s for %s operator does not have a correct signature"
  | notAFunction (name : String)      -- "const expression %q must be a function"
  | deferred (msg : String)           -- c.err recorded by an option (ConstExpr without environment)
  deriving DecidableEq, Repr

/-- what Check looks at for one function name: is it in the table with kind Func, and is its arity right -/
structure FnFacts where
  isFunc : String → Bool
  goodSignature : String → Bool

def checkFn (f : FnFacts) (op fn : String) : Option CheckError :=
  if !f.isFunc fn then some (.missingFn fn op)
  else if !f.goodSignature fn then some (.badSignature fn op)
  else none

def checkOperatorEntry (f : FnFacts) (e : String × List String) : Option CheckError :=
  e.2.findSome? (checkFn f e.1)

/-- first loop: `for op, fns := range c.Operators { for _, fn := range fns { … return error } }` -/
def checkOperators (f : FnFacts) (ops : List (String × List String)) : Option CheckError :=
  ops.findSome? (checkOperatorEntry f)

/-- second loop: `for name, fn := range c.ConstExprFns { if fn.Kind() != reflect.Func { return error } }` -/
def checkConstExprs (fns : List (String × Bool)) : Option CheckError :=
  fns.findSome? (fun e => if e.2 then none else some (.notAFunction e.1))

/-- the whole of Config.Check for given enumeration orders of the two maps -/
def configCheck (f : FnFacts) (ops : List (String × List String)) (fns : List (String × Bool))
    (deferred : Option String) : Option CheckError :=
  match checkOperators f ops with
  | some e => some e
  | none =>
    match checkConstExprs fns with
    | some e => some e
    | none => deferred.map .deferred

/-! ### compiler.makeConstant: the constant pool (`constants` slice + `index` map) -/

structure Pool (V : Type) where
  constants : List V
  index : GoMap V Nat

def Pool.empty {V : Type} : Pool V := { constants := [], index := GoMap.empty }

/-- `makeConstant`: a hashable value already in the index is reused; anything else is appended (slices and
    maps are not hashable; a value unequal to itself — NaN — behaves as not hashable because the lookup misses).
    Returns the new pool and the operand that is emitted. -/
def Pool.make {V : Type} [DecidableEq V] (hashable : V → Bool) (p : Pool V) (v : V) : Pool V × Nat :=
  match (if hashable v then p.index v else none) with
  | some i => (p, i)
  | none =>
    let i := p.constants.length
    ({ constants := p.constants ++ [v], index := if hashable v then p.index.set v i else p.index }, i)

/-- the pool after a whole emission sequence (the values the compiler passes to makeConstant, in AST order) -/
def Pool.run {V : Type} [DecidableEq V] (hashable : V → Bool) (p : Pool V) (vs : List V) : Pool V :=
  vs.foldl (fun p v => (p.make hashable v).1) p

/-- specification: walk the emission sequence, keep a value unless it is hashable and already kept -/
def specPool {V : Type} [DecidableEq V] (hashable : V → Bool) (acc : List V) : List V → List V
  | [] => acc
  | v :: vs => if hashable v && acc.contains v then specPool hashable acc vs else specPool hashable (acc ++ [v]) vs

end ExprModel.Determinism
