import ExprModel.Base.Val
/-
The location bookkeeping of compiler.emit / compiler.compile, abstracted from what is compiled:
a node's `compile` is a script of steps, each either an `emit` (one opcode byte plus operand bytes)
or the compilation of a child.  `Gen.Loc.emitBody` / `compilePrologue` (C13 `emit_records_top_node`)
pin the Go statements this mirrors:

    c.nodes = append(c.nodes, node); defer pop            -- compile
    c.bytecode = append(c.bytecode, op); current := len(c.bytecode); …append(b...)
    loc = c.nodes[len(c.nodes)-1].Location() (zero value when the stack is empty)
    c.locations[current-1] = loc                          -- emit
-/
namespace ExprModel.LocMap

mutual
inductive Script where
  | node (loc : Loc) (steps : List Step)
inductive Step where
  | emit (operandBytes : Nat)
  | sub (s : Script)
end

structure St where
  pc : Nat                      -- len(c.bytecode)
  nodes : List Loc              -- c.nodes, top first (only the locations matter)
  locs : List (Nat × Loc)       -- c.locations as the list of writes, oldest first
  deriving Repr

def emit (st : St) (operandBytes : Nat) : St :=
  { st with pc := st.pc + 1 + operandBytes, locs := st.locs ++ [(st.pc, st.nodes.head?.getD {})] }

mutual
def compile : Script → St → St
  | .node loc steps, st =>
    let st' := runSteps steps { st with nodes := loc :: st.nodes }
    { st' with nodes := st'.nodes.tail }
def runSteps : List Step → St → St
  | [], st => st
  | s :: ss, st => runSteps ss (runStep s st)
def runStep : Step → St → St
  | .emit k, st => emit st k
  | .sub s, st => compile s st
end

/-! Reference: every opcode emitted by a node's own steps is keyed by its offset and carries that
    node's location; children contribute their own. -/
mutual
def expScript : Script → Nat → List (Nat × Loc) × Nat
  | .node loc steps, pc => expSteps loc steps pc
def expSteps : Loc → List Step → Nat → List (Nat × Loc) × Nat
  | _, [], pc => ([], pc)
  | loc, s :: ss, pc =>
    let r1 := expStep loc s pc
    let r2 := expSteps loc ss r1.2
    (r1.1 ++ r2.1, r2.2)
def expStep : Loc → Step → Nat → List (Nat × Loc) × Nat
  | loc, .emit k, pc => ([(pc, loc)], pc + 1 + k)
  | _, .sub s, pc => expScript s pc
end

/-- what the VM's recover handler reports for a failure at opcode offset `pp`:
    `program.Locations[vm.pp]` (the zero Location for a missing key); a Go map keeps the last write -/
def report (locs : List (Nat × Loc)) (pp : Nat) : Loc :=
  match locs.reverse.lookup pp with
  | some l => l
  | none => {}

end ExprModel.LocMap
