-- Root of the library: importing every property module makes `lake build` re-check everything.
import ExprModel.Props.C01
import ExprModel.Props.C03
import ExprModel.Props.C04
import ExprModel.Props.C05
import ExprModel.Props.C06
import ExprModel.Props.C07
import ExprModel.Props.C08
import ExprModel.Props.C09
import ExprModel.Props.C10
import ExprModel.Props.C11
import ExprModel.Props.C12
import ExprModel.Props.C13
import ExprModel.Props.C14
import ExprModel.Props.C15
import ExprModel.Props.C16
import ExprModel.Props.C17
import ExprModel.Props.C18
