-- Root of the library: importing every property module makes `lake build` re-check everything.
import ExprModel.Props.C14
import ExprModel.Props.C05
