import ExprModel.Drv.Arith
import ExprModel.Drv.Code
import ExprModel.Drv.Determinism
import ExprModel.Drv.Lex
import ExprModel.Drv.Opt
import ExprModel.Drv.Parse
import ExprModel.Drv.Pipeline
import ExprModel.Drv.Source
import ExprModel.Drv.Spec
import ExprModel.Drv.SrcDefects
import ExprModel.Drv.Types
import ExprModel.Drv.Walk
import ExprModel.Drv.Wf
/-
The model driver: one request per line on stdin (an S-expression `(tag arg…)`), one response per line
on stdout.  Core-only (no Mathlib, no proof modules), so it links as a `lean_exe` and keeps building
when a proof breaks.  Each `ExprModel/Drv/*.lean` exports a handler table; add yours to `handlers`.
-/
open ExprModel

def handlers : List (String × (List Sexp → Sexp)) :=
  Drv.arithHandlers ++
  Drv.parseHandlers ++
  Drv.codeHandlers ++
  Drv.specHandlers ++
  Drv.wfHandlers ++
  Drv.sourceHandlers ++
  Drv.lexHandlers ++
  Drv.walkHandlers ++
  Drv.typesHandlers ++
  Drv.srcDefectsHandlers ++
  Drv.determinismHandlers ++
  Drv.optHandlers ++
  Drv.pipelineHandlers

def dispatch (req : Sexp) : Sexp :=
  match req with
  | .list (.atom tag :: rest) =>
    match handlers.find? (fun h => h.1 == tag) with
    | some (_, f) => f (.atom tag :: rest)
    | none => .list [.atom "unknown-stage", .atom tag]
  | _ => .list [.atom "bad-request"]

partial def loop (stdin : IO.FS.Stream) (stdout : IO.FS.Stream) : IO Unit := do
  let line ← stdin.getLine
  if line.isEmpty then return ()
  let resp := match Sexp.parse line with
    | some req => dispatch req
    | none => .list [.atom "parse-error"]
  stdout.putStrLn resp.toStr
  loop stdin stdout

def main : IO Unit := do
  let stdin ← IO.getStdin
  let stdout ← IO.getStdout
  loop stdin stdout
  stdout.flush
