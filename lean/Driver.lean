import ExprModel.Drv.Arith
/-
The model driver: one request per line on stdin (an S-expression), one response per line on stdout.
Core-only (no Mathlib), so it links as a `lean_exe`.
-/
open ExprModel

def dispatch (req : Sexp) : Sexp :=
  match req with
  | .list (.atom tag :: rest) =>
    if tag == "arith" || tag == "neg" || tag == "combined" || tag == "toint" then Drv.handleArith (.atom tag :: rest)
    else .list [.atom "unknown-stage", .atom tag]
  | _ => .list [.atom "bad-request"]

partial def loop (stdin : IO.FS.Stream) (stdout : IO.FS.Stream) : IO Unit := do
  let line ← stdin.getLine
  if line.isEmpty then return ()
  let resp := match Sexp.parse line with
    | some req => dispatch req
    | none => .list [.atom "parse-error"]
  stdout.putStrLn resp.toStr
  loop stdin stdout

def main : IO Unit := do
  let stdin ← IO.getStdin
  let stdout ← IO.getStdout
  loop stdin stdout
  stdout.flush
