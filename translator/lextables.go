package main

// Gen/LexTables.lean: the literal tables of parser/lexer (class strings, keyword operators, escape letters) and
// the if / else-if chain that classifies a Number token in parser/parser.go.
// Gen/UnicodeTables.lean: the range tables of the Go toolchain's `unicode` package behind
// unicode.IsLetter / IsDigit / IsSpace (library behaviour, used by the model driver only).
//
// Each lexer function is flattened to its sequence of "events" (calls, case clauses, assignments, in
// source order); the sequence must match a template exactly, the literals sit in the template's holes.
// Anything else is refused, so a change of the control skeleton cannot slip through as a table change.

import (
	"fmt"
	"go/ast"
	"go/token"
	"regexp"
	"strconv"
	"strings"
	"unicode"
)

func init() {
	register("LexTables", genLexTables)
	register("UnicodeTables", genUnicodeTables)
}

func events(fd *ast.FuncDecl) []string {
	var out []string
	ast.Inspect(fd.Body, func(n ast.Node) bool {
		switch v := n.(type) {
		case *ast.CallExpr:
			out = append(out, "call "+exprStr(v))
		case *ast.CaseClause:
			if v.List == nil {
				out = append(out, "default")
			} else {
				parts := make([]string, len(v.List))
				for i, e := range v.List {
					parts[i] = exprStr(e)
				}
				out = append(out, "case "+strings.Join(parts, ", "))
			}
		case *ast.AssignStmt:
			out = append(out, "assign "+exprStr(v))
		case *ast.ReturnStmt:
			out = append(out, "return")
		case *ast.FuncLit:
			refuse(v.Pos(), "function literal inside a lexer function")
		}
		return true
	})
	return out
}

const strHole = `("(?:[^"\\]|\\.)*")`

// matchEvents matches the event list against the template (each entry a regular expression for the whole
// event, Go string literals captured by strHole) and returns the unquoted captures in order.
func matchEvents(fd *ast.FuncDecl, tmpl []string) []string {
	ev := events(fd)
	var caps []string
	for i, t := range tmpl {
		if i >= len(ev) {
			refuse(fd.Pos(), "%s: %d events, template expects %d (missing %q)", fd.Name.Name, len(ev), len(tmpl), t)
		}
		re := regexp.MustCompile("^(?:" + t + ")$")
		m := re.FindStringSubmatch(ev[i])
		if m == nil {
			refuse(fd.Pos(), "%s: event %d is %q, template expects %q", fd.Name.Name, i, ev[i], t)
		}
		for _, c := range m[1:] {
			u, err := strconv.Unquote(c)
			if err != nil {
				refuse(fd.Pos(), "%s: cannot unquote %s", fd.Name.Name, c)
			}
			caps = append(caps, u)
		}
	}
	if len(ev) != len(tmpl) {
		refuse(fd.Pos(), "%s: %d events, template expects %d (extra %q)", fd.Name.Name, len(ev), len(tmpl), ev[len(tmpl)])
	}
	return caps
}

func q(s string) string { return regexp.QuoteMeta(s) }

func leanChars(s string) string {
	parts := []string{}
	for _, r := range s {
		parts = append(parts, fmt.Sprintf("Char.ofNat %d", r))
	}
	return "[" + strings.Join(parts, ", ") + "]"
}

// charLits parses "'a', 'b', '\\\\'" (the text of a case list) into runes; non-literals are returned in rest.
func charLits(pos token.Pos, list string) (runes []rune, rest []string) {
	for _, p := range strings.Split(list, ", ") {
		if strings.HasPrefix(p, "'") {
			r, _, tail, err := strconv.UnquoteChar(p[1:], '\'')
			if err != nil || tail != "'" {
				refuse(pos, "cannot read rune literal %s", p)
			}
			runes = append(runes, r)
		} else {
			rest = append(rest, p)
		}
	}
	return
}

func genLexTables() string {
	st := parseFile("parser/lexer/state.go")
	lx := parseFile("parser/lexer/lexer.go")
	ut := parseFile("parser/lexer/utils.go")
	var b strings.Builder
	b.WriteString("import ExprModel.Lex.Number\nnamespace ExprModel.Gen\nopen ExprModel.Lex\n\n")

	// --- state.go: root
	root := matchEvents(funcDecl(st, "", "root"), []string{
		q("assign r := l.next()"), q("call l.next()"),
		q("case r == eof"), q("call l.emitEOF()"), "return",
		q("case IsSpace(r)"), q("call IsSpace(r)"), q("call l.ignore()"), "return",
		q(`case r == '\'' || r == '"'`), q("call l.scanString(r)"),
		q("assign str, err := unescape(l.word())"), q("call unescape(l.word())"), q("call l.word()"),
		q(`call l.error("%v", err)`), q("call l.emitValue(String, str)"),
		q("case '0' <= r && r <= '9'"), q("call l.backup()"), "return",
		q("case r == '?'"), q("call l.peek()"), "return", q("call l.emit(Operator)"),
		"case strings\\.ContainsRune\\(" + strHole + ", r\\)", "call strings\\.ContainsRune\\(\"[^\"]*\", r\\)", q("call l.emit(Bracket)"),
		"case strings\\.ContainsRune\\(" + strHole + ", r\\)", "call strings\\.ContainsRune\\(\"[^\"]*\", r\\)", q("call l.emit(Bracket)"),
		"case strings\\.ContainsRune\\(" + strHole + ", r\\)", "call strings\\.ContainsRune\\(\"[^\"]*\", r\\)", q("call l.emit(Operator)"),
		"case strings\\.ContainsRune\\(" + strHole + ", r\\)", "call strings\\.ContainsRune\\(\"[^\"]*\", r\\)",
		"call l\\.accept\\(" + strHole + "\\)", q("call l.emit(Operator)"),
		q("case r == '.'"), q("call l.backup()"), "return",
		q("case IsAlphaNumeric(r)"), q("call IsAlphaNumeric(r)"), q("call l.backup()"), "return",
		"default", "return", q(`call l.error("unrecognized character: %#U", r)`),
		"return",
	})
	// --- state.go: scanNumber
	sn := matchEvents(funcDecl(st, "*lexer", "scanNumber"), []string{
		"assign digits := " + strHole,
		"call l\\.accept\\(" + strHole + "\\)",
		"call l\\.accept\\(" + strHole + "\\)", "assign digits = " + strHole,
		"call l\\.accept\\(" + strHole + "\\)", "assign digits = " + strHole,
		"call l\\.accept\\(" + strHole + "\\)", "assign digits = " + strHole,
		q("call l.acceptRun(digits)"),
		q("assign loc, prev, end := l.loc, l.prev, l.end"),
		"call l\\.accept\\(" + strHole + "\\)",
		q("call l.peek()"), q("assign l.loc, l.prev, l.end = loc, prev, end"), "return",
		q("call l.acceptRun(digits)"),
		"call l\\.accept\\(" + strHole + "\\)", "call l\\.accept\\(" + strHole + "\\)", q("call l.acceptRun(digits)"),
		q("call IsAlphaNumeric(l.peek())"), q("call l.peek()"), q("call l.next()"), "return", "return",
	})
	matchEvents(funcDecl(st, "", "number"), []string{
		q("call l.scanNumber()"), "return", `call l\.error\("bad number syntax: %q", l\.word\(\)\)`, q("call l.word()"),
		q("call l.emit(Number)"), "return",
	})
	dot := matchEvents(funcDecl(st, "", "dot"), []string{
		q("call l.next()"), "call l\\.accept\\(" + strHole + "\\)", q("call l.backup()"), "return",
		"call l\\.accept\\(" + strHole + "\\)", q("call l.emit(Operator)"), "return",
	})
	ns := matchEvents(funcDecl(st, "", "nilsafe"), []string{
		q("call l.next()"), "call l\\.accept\\(" + strHole + "\\)", q("call l.emit(Operator)"), "return",
	})
	id := funcDecl(st, "", "identifier")
	idEv := events(id)
	// identifier: the keyword case list has variable length; find it and check the rest literally
	var notWord string
	var kw []string
	{
		want := []string{q("assign r := l.next()"), q("call l.next()"), q("case IsAlphaNumeric(r)"), q("call IsAlphaNumeric(r)"),
			"default", q("call l.backup()"), q("call l.word()"), "case " + strHole, "return", "case (.*)", q("call l.emit(Operator)"),
			"default", q("call l.emit(Identifier)"), "return"}
		if len(idEv) != len(want) {
			refuse(id.Pos(), "identifier: %d events, expected %d: %q", len(idEv), len(want), idEv)
		}
		for i, t := range want {
			m := regexp.MustCompile("^(?:" + t + ")$").FindStringSubmatch(idEv[i])
			if m == nil {
				refuse(id.Pos(), "identifier: event %d is %q, expected %q", i, idEv[i], t)
			}
			if i == 7 {
				notWord, _ = strconv.Unquote(m[1])
			}
			if i == 9 {
				for _, p := range strings.Split(m[1], ", ") {
					u, err := strconv.Unquote(p)
					if err != nil {
						refuse(id.Pos(), "identifier: keyword case entry %s is not a string literal", p)
					}
					kw = append(kw, u)
				}
			}
		}
	}
	notEv := matchEvents(funcDecl(st, "", "not"), []string{
		"call l\\.acceptWord\\(" + strHole + "\\)", q("case true"), "call l\\.emitValue\\(Operator, " + strHole + "\\)",
		q("case false"), "call l\\.emitValue\\(Operator, " + strHole + "\\)", "return",
	})
	if notEv[1] != notWord+" "+notEv[0] || notEv[2] != notWord {
		refuse(st.Pos(), "not: emitted values %q / %q do not match the words %q, %q", notEv[1], notEv[2], notWord, notEv[0])
	}

	// --- lexer.go: scanEscape
	se := funcDecl(lx, "*lexer", "scanEscape")
	seEv := events(se)
	var escSimple, escOct []rune
	type hx struct {
		r rune
		n int
	}
	var escHex []hx
	{
		i := 0
		expect := func(t string) []string {
			if i >= len(seEv) {
				refuse(se.Pos(), "scanEscape: events end before %q", t)
			}
			m := regexp.MustCompile("^(?:" + t + ")$").FindStringSubmatch(seEv[i])
			if m == nil {
				refuse(se.Pos(), "scanEscape: event %d is %q, expected %q", i, seEv[i], t)
			}
			i++
			return m
		}
		expect(q("assign ch := l.next()"))
		expect(q("call l.next()"))
		m := expect("case (.*)")
		var rest []string
		escSimple, rest = charLits(se.Pos(), m[1])
		if len(rest) != 1 || rest[0] != "quote" {
			refuse(se.Pos(), "scanEscape: first case must list rune literals and `quote`, got %q", m[1])
		}
		expect(q("assign ch = l.next()"))
		expect(q("call l.next()"))
		m = expect("case (.*)")
		escOct, rest = charLits(se.Pos(), m[1])
		if len(rest) != 0 {
			refuse(se.Pos(), "scanEscape: octal case: %q", m[1])
		}
		expect(q("assign ch = l.scanDigits(ch, 8, 3)"))
		expect(q("call l.scanDigits(ch, 8, 3)"))
		for i < len(seEv) && strings.HasPrefix(seEv[i], "case ") {
			m = expect("case (.*)")
			rs, rest := charLits(se.Pos(), m[1])
			if len(rs) != 1 || len(rest) != 0 {
				refuse(se.Pos(), "scanEscape: hex case %q", m[1])
			}
			m = expect(`assign ch = l\.scanDigits\(l\.next\(\), 16, (\d+)\)`)
			n, _ := strconv.Atoi(m[1])
			expect(`call l\.scanDigits\(l\.next\(\), 16, \d+\)`)
			expect(q("call l.next()"))
			escHex = append(escHex, hx{rs[0], n})
		}
		expect("default")
		expect(q(`call l.error("invalid char escape")`))
		expect("return")
		if i != len(seEv) {
			refuse(se.Pos(), "scanEscape: extra event %q", seEv[i])
		}
	}
	// --- utils.go: unescapeChar — the three switch groups
	uc := funcDecl(ut, "", "unescapeChar")
	var unescSimple []hx // r → value
	var unescHex []hx
	var unescOct []rune
	{
		var sw *ast.SwitchStmt
		ast.Inspect(uc.Body, func(n ast.Node) bool {
			if s, ok := n.(*ast.SwitchStmt); ok && s.Tag != nil && exprStr(s.Tag) == "c" && sw == nil && s.Init == nil {
				// the first `switch c {` directly in the function body (the inner `switch c` sets n)
				sw = s
				return false
			}
			return true
		})
		if sw == nil {
			refuse(uc.Pos(), "unescapeChar: `switch c` not found")
		}
		sawDefault := false
		for _, st := range sw.Body.List {
			cc := st.(*ast.CaseClause)
			if cc.List == nil {
				sawDefault = true
				if len(cc.Body) != 1 || !strings.HasPrefix(exprStr(cc.Body[0]), "err = fmt.Errorf(") {
					refuse(cc.Pos(), "unescapeChar: default case is not a plain error")
				}
				continue
			}
			parts := make([]string, len(cc.List))
			for i, e := range cc.List {
				parts[i] = exprStr(e)
			}
			rs, rest := charLits(cc.Pos(), strings.Join(parts, ", "))
			if len(rest) != 0 {
				refuse(cc.Pos(), "unescapeChar: case %q", parts)
			}
			if len(cc.Body) == 1 {
				as, ok := cc.Body[0].(*ast.AssignStmt)
				if !ok || len(rs) != 1 || exprStr(as.Lhs[0]) != "value" || as.Tok != token.ASSIGN {
					refuse(cc.Pos(), "unescapeChar: simple case shape")
				}
				vs, _ := charLits(cc.Pos(), exprStr(as.Rhs[0]))
				if len(vs) != 1 {
					refuse(cc.Pos(), "unescapeChar: value is not a rune literal")
				}
				unescSimple = append(unescSimple, hx{rs[0], int(vs[0])})
				continue
			}
			body := make([]string, len(cc.Body))
			for i, s := range cc.Body {
				body[i] = strings.Join(strings.Fields(exprStr(s)), " ")
			}
			text := strings.Join(body, " ; ")
			if strings.HasPrefix(text, "n := 0 ; switch c {") {
				// hex group: inner switch gives the digit counts
				inner := cc.Body[1].(*ast.SwitchStmt)
				counts := map[rune]int{}
				for _, ist := range inner.Body.List {
					ic := ist.(*ast.CaseClause)
					ps := make([]string, len(ic.List))
					for i, e := range ic.List {
						ps[i] = exprStr(e)
					}
					irs, irest := charLits(ic.Pos(), strings.Join(ps, ", "))
					if len(irest) != 0 || len(ic.Body) != 1 {
						refuse(ic.Pos(), "unescapeChar: inner hex case")
					}
					m := regexp.MustCompile(`^n = (\d+)$`).FindStringSubmatch(exprStr(ic.Body[0]))
					if m == nil {
						refuse(ic.Pos(), "unescapeChar: inner hex case body %q", exprStr(ic.Body[0]))
					}
					n, _ := strconv.Atoi(m[1])
					for _, r := range irs {
						counts[r] = n
					}
				}
				for _, r := range rs {
					n, ok := counts[r]
					if !ok {
						refuse(cc.Pos(), "unescapeChar: no digit count for %q", r)
					}
					unescHex = append(unescHex, hx{r, n})
				}
				wantTail := `var v rune ; if len(s) < n { err = fmt.Errorf("unable to unescape string") return } ; for j := 0; j < n; j++ { x, ok := unhex(s[j]) if !ok { err = fmt.Errorf("unable to unescape string") return } v = v<<4 | x } ; s = s[n:] ; if v > utf8.MaxRune { err = fmt.Errorf("unable to unescape string") return } ; value = v ; multibyte = true`
				if strings.Join(body[2:], " ; ") != wantTail {
					refuse(cc.Pos(), "unescapeChar: hex group body changed:\n%s", strings.Join(body[2:], " ; "))
				}
				continue
			}
			wantOct := `if len(s) < 2 { err = fmt.Errorf("unable to unescape octal sequence in string") return } ; v := rune(c - '0') ; for j := 0; j < 2; j++ { x := s[j] if x < '0' || x > '7' { err = fmt.Errorf("unable to unescape octal sequence in string") return } v = v*8 + rune(x-'0') } ; if v > utf8.MaxRune { err = fmt.Errorf("unable to unescape string") return } ; value = v ; s = s[2:] ; multibyte = true`
			if text == wantOct {
				unescOct = append(unescOct, rs...)
				continue
			}
			refuse(cc.Pos(), "unescapeChar: unrecognised case body:\n%s", text)
		}
		if !sawDefault {
			refuse(uc.Pos(), "unescapeChar: no default case")
		}
	}

	hxList := func(xs []hx) string {
		ps := make([]string, len(xs))
		for i, x := range xs {
			ps[i] = fmt.Sprintf("(Char.ofNat %d, %d)", x.r, x.n)
		}
		return "[" + strings.Join(ps, ", ") + "]"
	}
	fmt.Fprintf(&b, "def lexTables : LexTables where\n")
	fields := []struct{ name, val string }{
		{"bracketsOpen", leanChars(root[0])}, {"bracketsClose", leanChars(root[1])}, {"singleOps", leanChars(root[2])},
		{"dblFirst", leanChars(root[3])}, {"dblSecond", leanChars(root[4])},
		{"zero", leanChars(sn[1])}, {"hexMark", leanChars(sn[2])}, {"hexDigits", leanChars(sn[3])},
		{"octMark", leanChars(sn[4])}, {"octDigits", leanChars(sn[5])}, {"binMark", leanChars(sn[6])}, {"binDigits", leanChars(sn[7])},
		{"decDigits", leanChars(sn[0])}, {"dotC", leanChars(sn[8])}, {"expMark", leanChars(sn[9])}, {"signs", leanChars(sn[10])},
		{"dotDigits", leanChars(dot[0])}, {"nilsafeSecond", leanChars(ns[0])},
		{"notWord", leanStr(notWord)}, {"inWord", leanStr(notEv[0])}, {"kwOps", leanStrList(kw)},
		{"escSimple", leanChars(string(escSimple))}, {"escOct", leanChars(string(escOct))}, {"escHex", hxList(escHex)},
		{"unescSimple", hxList(unescSimple)}, {"unescHex", hxList(unescHex)}, {"unescOct", leanChars(string(unescOct))},
	}
	if dot[1] != sn[8] {
		refuse(st.Pos(), "dot: second accept %q differs from scanNumber's dot class %q", dot[1], sn[8])
	}
	for _, f := range fields {
		fmt.Fprintf(&b, "  %s := %s\n", f.name, f.val)
	}

	// --- parser.go: case Number
	b.WriteString("\n" + genNumCfg() + "\nend ExprModel.Gen\n")
	return b.String()
}

func genNumCfg() string {
	pf := parseFile("parser/parser.go")
	fd := funcDecl(pf, "*parser", "parsePrimaryExpression")
	var clause *ast.CaseClause
	ast.Inspect(fd.Body, func(n ast.Node) bool {
		if cc, ok := n.(*ast.CaseClause); ok && len(cc.List) == 1 && exprStr(cc.List[0]) == "Number" {
			clause = cc
			return false
		}
		return true
	})
	if clause == nil {
		refuse(fd.Pos(), "parsePrimaryExpression: `case Number:` not found")
	}
	if len(clause.Body) < 3 || exprStr(clause.Body[0]) != "p.next()" {
		refuse(clause.Pos(), "case Number: unexpected shape")
	}
	strip := exprStr(clause.Body[1])
	if strip != `value := strings.Replace(token.Value, "_", "", -1)` && strip != `value := strings.ReplaceAll(token.Value, "_", "")` {
		refuse(clause.Body[1].Pos(), "case Number: expected the `_` stripping assignment, got %s", strip)
	}
	ifs, ok := clause.Body[2].(*ast.IfStmt)
	if !ok || len(clause.Body) != 3 {
		refuse(clause.Body[2].Pos(), "case Number: expected a single if / else-if chain after the assignment")
	}
	branchOf := func(blk *ast.BlockStmt) string {
		res := ""
		ast.Inspect(blk, func(n ast.Node) bool {
			c, ok := n.(*ast.CallExpr)
			if !ok || res != "" {
				return true
			}
			s := exprStr(c)
			if s == "strconv.ParseFloat(value, 64)" {
				res = ".float"
			} else if m := regexp.MustCompile(`^strconv\.ParseInt\(value, (\d+), 64\)$`).FindStringSubmatch(s); m != nil {
				res = "(.int " + m[1] + ")"
			} else if strings.HasPrefix(s, "strconv.") {
				refuse(c.Pos(), "case Number: unrecognised conversion %s", s)
			}
			return true
		})
		if res == "" {
			refuse(blk.Pos(), "case Number: branch without a strconv conversion of `value`")
		}
		// the node built from the result
		txt := exprStr(blk)
		if res == ".float" && !strings.Contains(txt, "&FloatNode{Value: number}") {
			refuse(blk.Pos(), "case Number: float branch does not build FloatNode{Value: number}")
		}
		if res != ".float" && !strings.Contains(txt, "&IntegerNode{Value: int(number)}") {
			refuse(blk.Pos(), "case Number: integer branch does not build IntegerNode{Value: int(number)}")
		}
		return res
	}
	var atoms func(e ast.Expr) []string
	atoms = func(e ast.Expr) []string {
		switch v := e.(type) {
		case *ast.ParenExpr:
			return atoms(v.X)
		case *ast.BinaryExpr:
			if v.Op == token.LOR {
				return append(atoms(v.X), atoms(v.Y)...)
			}
		case *ast.CallExpr:
			s := exprStr(v)
			m := regexp.MustCompile(`^strings\.(ContainsAny|Contains|HasPrefix|ContainsRune)\(value, (.*)\)$`).FindStringSubmatch(s)
			if m != nil {
				var lit string
				if m[1] == "ContainsRune" {
					rs, rest := charLits(v.Pos(), m[2])
					if len(rs) != 1 || len(rest) != 0 {
						refuse(v.Pos(), "case Number: ContainsRune argument %s", m[2])
					}
					lit = string(rs)
				} else {
					u, err := strconv.Unquote(m[2])
					if err != nil {
						refuse(v.Pos(), "case Number: test argument %s is not a string literal", m[2])
					}
					lit = u
				}
				switch m[1] {
				case "ContainsAny", "ContainsRune":
					return []string{".containsAny " + leanChars(lit)}
				case "Contains":
					if len([]rune(lit)) != 1 {
						refuse(v.Pos(), "case Number: strings.Contains with a needle longer than one character")
					}
					return []string{".containsAny " + leanChars(lit)}
				case "HasPrefix":
					return []string{".hasPrefix " + leanChars(lit)}
				}
			}
		}
		refuse(e.Pos(), "case Number: unrecognised test %s", exprStr(e))
		return nil
	}
	var tests []string
	dflt := ""
	for cur := ifs; ; {
		if cur.Init != nil {
			refuse(cur.Pos(), "case Number: if with init statement")
		}
		tests = append(tests, "(["+strings.Join(atoms(cur.Cond), ", ")+"], "+branchOf(cur.Body)+")")
		switch e := cur.Else.(type) {
		case *ast.IfStmt:
			cur = e
			continue
		case *ast.BlockStmt:
			dflt = branchOf(e)
		default:
			refuse(cur.Pos(), "case Number: chain without a final else")
		}
		break
	}
	return "def numCfg : NumCfg :=\n  { tests := [" + strings.Join(tests, ",\n      ") + "],\n    dflt := " + strings.Trim(dflt, "()") + " }\n"
}

func rangeTable(name string, t *unicode.RangeTable) string {
	var ps []string
	for _, r := range t.R16 {
		ps = append(ps, fmt.Sprintf("(%d, %d, %d)", r.Lo, r.Hi, r.Stride))
	}
	for _, r := range t.R32 {
		ps = append(ps, fmt.Sprintf("(%d, %d, %d)", r.Lo, r.Hi, r.Stride))
	}
	var b strings.Builder
	fmt.Fprintf(&b, "def %s : List (Nat × Nat × Nat) := [\n", name)
	for i := 0; i < len(ps); i += 8 {
		j := i + 8
		if j > len(ps) {
			j = len(ps)
		}
		b.WriteString("  " + strings.Join(ps[i:j], ", "))
		if j < len(ps) {
			b.WriteString(",")
		}
		b.WriteString("\n")
	}
	b.WriteString("]\n")
	return b.String()
}

func genUnicodeTables() string {
	// utils.go must still delegate to the unicode package
	ut := parseFile("parser/lexer/utils.go")
	for _, w := range []struct{ fn, body string }{
		{"IsSpace", "{\n\treturn unicode.IsSpace(r)\n}"},
		{"IsAlphaNumeric", "{\n\treturn IsAlphabetic(r) || unicode.IsDigit(r)\n}"},
		{"IsAlphabetic", "{\n\treturn r == '_' || r == '$' || unicode.IsLetter(r)\n}"},
	} {
		fd := funcDecl(ut, "", w.fn)
		if got := exprStr(fd.Body); got != w.body {
			refuse(fd.Pos(), "%s changed: %s", w.fn, got)
		}
	}
	var b strings.Builder
	b.WriteString("import ExprModel.Lex.Tables\nnamespace ExprModel.Gen\n")
	fmt.Fprintf(&b, "/-- Unicode %s, from the Go toolchain the translator was built with -/\ndef unicodeVersion : String := %s\n", unicode.Version, leanStr(unicode.Version))
	b.WriteString(rangeTable("unicodeLetter", unicode.Letter))
	b.WriteString(rangeTable("unicodeDigit", unicode.Digit))
	b.WriteString(rangeTable("unicodeSpace", unicode.White_Space))
	fmt.Fprintf(&b, "/-- lexer.go acceptWord: does it skip every IsSpace rune and end the word at any rune that is not\n    IsAlphaNumeric (true), or skip U+0020 only and want U+0020 or the end of input after the word (false)? -/\ndef acceptWordAnySpace : Bool := %v\n", acceptWordAnySpace())
	b.WriteString("/-- unicode.IsLetter / IsDigit / IsSpace: ASCII by the fixed tables, range tables above;\n    `notInAnySpace`: the shape of acceptWord -/\n")
	b.WriteString("def goCharClass : ExprModel.Lex.CharClass :=\n  { ExprModel.Lex.CharClass.ofRanges unicodeLetter unicodeDigit unicodeSpace with notInAnySpace := acceptWordAnySpace }\n")
	b.WriteString("end ExprModel.Gen\n")
	return b.String()
}

// acceptWordAnySpace recognises the two shapes of (*lexer).acceptWord the Lean model covers
// (ExprModel.Lex.acceptWord with CharClass.notInAnySpace false / true) and refuses anything else.
func acceptWordAnySpace() bool {
	lx := parseFile("parser/lexer/lexer.go")
	fd := funcDecl(lx, "*lexer", "acceptWord")
	if got := exprStr(fd.Type); got != "func(word string) bool" {
		refuse(fd.Pos(), "acceptWord: signature %s", got)
	}
	restore := "l.end, l.loc, l.prev = pos, loc, prev\n\treturn false\n}"
	shape := func(skip, end string) []string {
		return []string{
			"pos, loc, prev := l.end, l.loc, l.prev",
			"r := l.peek()",
			"for ; " + skip + "; r = l.peek() {\n\tl.next()\n}",
			"for _, ch := range word {\n\tif l.next() != ch {\n\t\tl.end, l.loc, l.prev = pos, loc, prev\n\t\treturn false\n\t}\n}",
			"if r = l.peek(); " + end + " {\n\t" + restore,
			"return true",
		}
	}
	var got []string
	for _, st := range fd.Body.List {
		got = append(got, exprStr(st))
	}
	same := func(want []string) bool {
		if len(got) != len(want) {
			return false
		}
		for i := range got {
			if got[i] != want[i] {
				return false
			}
		}
		return true
	}
	switch {
	case same(shape("r == ' '", "r != ' ' && r != eof")):
		return false
	case same(shape("IsSpace(r)", "IsAlphaNumeric(r)")):
		return true
	}
	refuse(fd.Pos(), "acceptWord: unrecognised shape %q", got)
	return false
}
