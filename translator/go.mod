module veriftranslator

go 1.21
