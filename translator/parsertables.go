package main

import (
	"fmt"
	"go/ast"
	"go/token"
	"sort"
	"strconv"
	"strings"
)

// Gen/ParserTables.lean: the three composite literals of parser/parser.go that fix precedence,
// associativity and builtin arity (C11), sorted by key.  Also pins the shapes that give the positional
// literals their meaning: the field order of `operator`/`builtin` and the iota constants left/right.

func structFields(f *ast.File, name string) []string {
	for _, d := range f.Decls {
		gd, ok := d.(*ast.GenDecl)
		if !ok || gd.Tok != token.TYPE {
			continue
		}
		for _, s := range gd.Specs {
			ts := s.(*ast.TypeSpec)
			if ts.Name.Name != name {
				continue
			}
			st, ok := ts.Type.(*ast.StructType)
			if !ok {
				refuse(ts.Pos(), "type %s is not a struct", name)
			}
			var out []string
			for _, fl := range st.Fields.List {
				if len(fl.Names) == 0 {
					refuse(fl.Pos(), "type %s: embedded field", name)
				}
				for _, n := range fl.Names {
					out = append(out, n.Name+":"+exprStr(fl.Type))
				}
			}
			return out
		}
	}
	refuse(f.Pos(), "type %s not found in parser/parser.go", name)
	return nil
}

func mapLiteral(f *ast.File, name, elemType string) (keys []string, vals map[string][]ast.Expr) {
	vals = map[string][]ast.Expr{}
	for _, d := range f.Decls {
		gd, ok := d.(*ast.GenDecl)
		if !ok || gd.Tok != token.VAR {
			continue
		}
		for _, s := range gd.Specs {
			vs := s.(*ast.ValueSpec)
			for i, n := range vs.Names {
				if n.Name != name {
					continue
				}
				if len(vs.Values) != len(vs.Names) {
					refuse(vs.Pos(), "%s: declaration without a literal value", name)
				}
				cl, ok := vs.Values[i].(*ast.CompositeLit)
				if !ok {
					refuse(vs.Pos(), "%s is not a composite literal", name)
				}
				if got := exprStr(cl.Type); got != "map[string]"+elemType {
					refuse(cl.Pos(), "%s has type %s, expected map[string]%s", name, got, elemType)
				}
				for _, e := range cl.Elts {
					kv, ok := e.(*ast.KeyValueExpr)
					if !ok {
						refuse(e.Pos(), "%s: element is not key: value", name)
					}
					kl, ok := kv.Key.(*ast.BasicLit)
					if !ok || kl.Kind != token.STRING {
						refuse(kv.Key.Pos(), "%s: key is not a string literal", name)
					}
					k, err := strconv.Unquote(kl.Value)
					if err != nil {
						refuse(kl.Pos(), "%s: key %s: %v", name, kl.Value, err)
					}
					if _, dup := vals[k]; dup {
						refuse(kl.Pos(), "%s: duplicate key %q", name, k)
					}
					vl, ok := kv.Value.(*ast.CompositeLit)
					if !ok || (vl.Type != nil && exprStr(vl.Type) != elemType) {
						refuse(kv.Value.Pos(), "%s[%q]: value is not a %s literal", name, k, elemType)
					}
					for _, x := range vl.Elts {
						if _, isKV := x.(*ast.KeyValueExpr); isKV {
							refuse(x.Pos(), "%s[%q]: keyed struct literal (positional expected)", name, k)
						}
					}
					keys = append(keys, k)
					vals[k] = vl.Elts
				}
				sort.Strings(keys)
				return keys, vals
			}
		}
	}
	refuse(f.Pos(), "variable %s not found in parser/parser.go", name)
	return nil, nil
}

func natLit(e ast.Expr, what string) string {
	bl, ok := e.(*ast.BasicLit)
	if !ok || bl.Kind != token.INT {
		refuse(e.Pos(), "%s: not an integer literal: %s", what, exprStr(e))
	}
	n, err := strconv.ParseUint(bl.Value, 10, 31)
	if err != nil {
		refuse(e.Pos(), "%s: %v", what, err)
	}
	return strconv.FormatUint(n, 10)
}

func genParserTables() string {
	f := parseFile("parser/parser.go")
	if got := strings.Join(structFields(f, "operator"), ","); got != "precedence:int,associativity:associativity" {
		refuse(f.Pos(), "type operator has fields %s", got)
	}
	if got := strings.Join(structFields(f, "builtin"), ","); got != "arity:int" {
		refuse(f.Pos(), "type builtin has fields %s", got)
	}
	// const ( left associativity = iota + 1; right )
	okConst := false
	for _, d := range f.Decls {
		gd, ok := d.(*ast.GenDecl)
		if !ok || gd.Tok != token.CONST || len(gd.Specs) != 2 {
			continue
		}
		a, b := gd.Specs[0].(*ast.ValueSpec), gd.Specs[1].(*ast.ValueSpec)
		if len(a.Names) == 1 && a.Names[0].Name == "left" && len(b.Names) == 1 && b.Names[0].Name == "right" &&
			a.Type != nil && exprStr(a.Type) == "associativity" && len(a.Values) == 1 && exprStr(a.Values[0]) == "iota + 1" &&
			b.Type == nil && len(b.Values) == 0 {
			okConst = true
		}
	}
	if !okConst {
		refuse(f.Pos(), "constants left/right of type associativity not found in the expected shape")
	}
	var sb strings.Builder
	sb.WriteString("import ExprModel.Syntax.Parser\nnamespace ExprModel.Gen\nopen ExprModel.Parser\n\n")
	ops := func(name string) {
		keys, vals := mapLiteral(f, name, "operator")
		rows := []string{}
		for _, k := range keys {
			el := vals[k]
			if len(el) != 2 {
				refuse(f.Pos(), "%s[%q]: %d fields, expected 2", name, k, len(el))
			}
			id, ok := el[1].(*ast.Ident)
			if !ok || (id.Name != "left" && id.Name != "right") {
				refuse(el[1].Pos(), "%s[%q]: associativity is not left/right: %s", name, k, exprStr(el[1]))
			}
			rows = append(rows, fmt.Sprintf("(%s, %s, .%s)", leanStr(k), natLit(el[0], name+"["+k+"]"), id.Name))
		}
		fmt.Fprintf(&sb, "def %s : List (String × Nat × Assoc) :=\n  [%s]\n\n", name, strings.Join(rows, ",\n   "))
	}
	ops("unaryOperators")
	ops("binaryOperators")
	keys, vals := mapLiteral(f, "builtins", "builtin")
	rows := []string{}
	for _, k := range keys {
		el := vals[k]
		if len(el) != 1 {
			refuse(f.Pos(), "builtins[%q]: %d fields, expected 1", k, len(el))
		}
		rows = append(rows, fmt.Sprintf("(%s, %s)", leanStr(k), natLit(el[0], "builtins["+k+"]")))
	}
	fmt.Fprintf(&sb, "def builtins : List (String × Nat) :=\n  [%s]\n\n", strings.Join(rows, ",\n   "))
	sb.WriteString("def parserTables : Tables := { unary := unaryOperators, binary := binaryOperators, builtins := builtins }\n")
	sb.WriteString("\nend ExprModel.Gen\n")
	return sb.String()
}

func init() { register("ParserTables", genParserTables) }
