package main

// Gen/SetLocation.lean: where nodes get their source location and which location every error site uses
// (property C13).
//   * every `&XNode{…}` literal of parser/parser.go with the `SetLocation` call that follows it (or none),
//     the reaching definition of the token variable and the enclosing conditions;
//   * nodes constructed by optimizer passes and the operator patcher, and how they reach ast.Patch;
//   * every error construction site of the library packages with its Location expression;
//   * the location bookkeeping of compiler.emit / compiler.compile and of the VM loop / recover.

import (
	"fmt"
	"go/ast"
	"go/token"
	"os"
	"path/filepath"
	"sort"
	"strings"
)

func stmtText(n ast.Node) string {
	if n == nil {
		return ""
	}
	return strings.Join(strings.Fields(exprStr(n)), " ")
}

type locCtx struct {
	parent *locCtx
	list   []ast.Stmt
	idx    int
	guard  string // condition guarding `list` ("" for a plain block)
}

func (c *locCtx) guards() []string {
	var out []string
	for x := c; x != nil; x = x.parent {
		if x.guard != "" {
			out = append([]string{x.guard}, out...)
		}
	}
	return out
}

type nodeSite struct {
	fn, node, target, locArg, tokDef, defPrev string
	otherDefs, guards                      []string
}

// nodeLit recognises `&XNode{…}` / `&pkg.XNode{…}`
func nodeLit(e ast.Expr) (string, *ast.CompositeLit, bool) {
	u, ok := e.(*ast.UnaryExpr)
	if !ok || u.Op != token.AND {
		return "", nil, false
	}
	cl, ok := u.X.(*ast.CompositeLit)
	if !ok {
		return "", nil, false
	}
	name := ""
	switch t := cl.Type.(type) {
	case *ast.Ident:
		name = t.Name
	case *ast.SelectorExpr:
		name = t.Sel.Name
	}
	if !strings.HasSuffix(name, "Node") {
		return "", nil, false
	}
	return name, cl, true
}

func assignsTo(st ast.Stmt, v string) bool {
	as, ok := st.(*ast.AssignStmt)
	if !ok {
		return false
	}
	for _, l := range as.Lhs {
		if id, ok := l.(*ast.Ident); ok && id.Name == v {
			return true
		}
	}
	return false
}

type parserScan struct {
	fd        *ast.FuncDecl
	sites     []nodeSite
	passes    []string
	setLocs   int // SetLocation calls matched to a constructor
	callNames map[string]bool
}

func (ps *parserScan) allAssignments(v string) []ast.Stmt {
	var out []ast.Stmt
	ast.Inspect(ps.fd.Body, func(n ast.Node) bool {
		if st, ok := n.(ast.Stmt); ok && assignsTo(st, v) {
			out = append(out, st)
		}
		return true
	})
	return out
}

func (ps *parserScan) reaching(ctx *locCtx, idx int, v string) (ast.Stmt, string) {
	list, i := ctx.list, idx-1
	for x := ctx; ; {
		for ; i >= 0; i-- {
			if assignsTo(list[i], v) {
				prev := "<entry>"
				if i > 0 {
					prev = stmtText(list[i-1])
				} else if x.parent != nil {
					prev = "<block start>"
				}
				return list[i], prev
			}
		}
		if x.parent == nil {
			return nil, ""
		}
		list, i = x.parent.list, x.idx-1
		x = x.parent
	}
}

func (ps *parserScan) site(ctx *locCtx, i int, as *ast.AssignStmt, node string) {
	if len(as.Lhs) != 1 || len(as.Rhs) != 1 {
		refuse(as.Pos(), "node constructor in a multi-assignment")
	}
	target, ok := as.Lhs[0].(*ast.Ident)
	if !ok {
		refuse(as.Pos(), "node constructor assigned to %s", exprStr(as.Lhs[0]))
	}
	s := nodeSite{fn: ps.fd.Name.Name, node: node, target: target.Name, guards: ctx.guards()}
	if i+1 < len(ctx.list) {
		if es, ok := ctx.list[i+1].(*ast.ExprStmt); ok {
			if call, ok := es.X.(*ast.CallExpr); ok {
				if sel, ok := call.Fun.(*ast.SelectorExpr); ok && sel.Sel.Name == "SetLocation" {
					if exprStr(sel.X) != target.Name || len(call.Args) != 1 {
						refuse(call.Pos(), "SetLocation after the constructor of %s is applied to %s", target.Name, exprStr(sel.X))
					}
					s.locArg = exprStr(call.Args[0])
					ps.setLocs++
				}
			}
		}
	}
	if s.locArg != "" {
		sel, ok := mustCall(as, s.locArg)
		if !ok {
			refuse(as.Pos(), "SetLocation argument %s is not <token>.Location", s.locArg)
		}
		v := sel
		def, prev := ps.reaching(ctx, i, v)
		if def == nil {
			isParam := false
			for _, f := range ps.fd.Type.Params.List {
				for _, n := range f.Names {
					if n.Name == v {
						isParam = true
					}
				}
			}
			if !isParam {
				refuse(as.Pos(), "no definition of %s reaches the SetLocation call", v)
			}
			s.tokDef, s.defPrev = "param", ""
		} else {
			s.tokDef, s.defPrev = stmtText(def), prev
		}
		for _, o := range ps.allAssignments(v) {
			if o != def {
				s.otherDefs = append(s.otherDefs, stmtText(o))
			}
		}
	}
	ps.sites = append(ps.sites, s)
}

// mustCall: "<ident>.Location" → ident
func mustCall(_ ast.Node, arg string) (string, bool) {
	if !strings.HasSuffix(arg, ".Location") {
		return "", false
	}
	v := strings.TrimSuffix(arg, ".Location")
	if v == "" || strings.ContainsAny(v, ".()[] ") {
		return "", false
	}
	return v, true
}

func (ps *parserScan) stmts(list []ast.Stmt, parent *locCtx, pidx int, guard string) {
	ctx := &locCtx{parent: parent, list: list, idx: pidx, guard: guard}
	for i, st := range list {
		ps.stmt(ctx, i, st)
	}
}

func (ps *parserScan) noNodeLit(n ast.Node) {
	if n == nil {
		return
	}
	ast.Inspect(n, func(x ast.Node) bool {
		if e, ok := x.(ast.Expr); ok {
			if name, _, ok := nodeLit(e); ok {
				refuse(e.Pos(), "%s constructed in a position the extractor does not follow", name)
			}
		}
		return true
	})
}

func (ps *parserScan) stmt(ctx *locCtx, i int, st ast.Stmt) {
	sub := func(list []ast.Stmt, guard string) {
		ps.stmts(list, ctx, i, guard)
	}
	switch s := st.(type) {
	case *ast.AssignStmt:
		if len(s.Rhs) == 1 {
			if node, _, ok := nodeLit(s.Rhs[0]); ok {
				ps.site(ctx, i, s, node)
				return
			}
		}
		ps.noNodeLit(s)
	case *ast.ExprStmt:
		ps.noNodeLit(s)
		if call, ok := s.X.(*ast.CallExpr); ok {
			if sel, ok := call.Fun.(*ast.SelectorExpr); ok && sel.Sel.Name == "SetLocation" {
				// must directly follow its constructor (matched in site)
				if i == 0 {
					refuse(call.Pos(), "SetLocation call that does not follow a node constructor")
				}
				prev, ok := ctx.list[i-1].(*ast.AssignStmt)
				if !ok || len(prev.Rhs) != 1 {
					refuse(call.Pos(), "SetLocation call that does not follow a node constructor")
				}
				if _, _, ok := nodeLit(prev.Rhs[0]); !ok {
					refuse(call.Pos(), "SetLocation call that does not follow a node constructor")
				}
			}
		}
	case *ast.IfStmt:
		ps.noNodeLit(s.Init)
		ps.noNodeLit(s.Cond)
		cond := stmtText(s.Cond)
		if s.Init != nil {
			cond = stmtText(s.Init) + "; " + cond
		}
		sub(s.Body.List, cond)
		switch e := s.Else.(type) {
		case nil:
		case *ast.BlockStmt:
			sub(e.List, "else")
		case *ast.IfStmt:
			// else-if: guard is "else: <cond>"
			c2 := stmtText(e.Cond)
			if e.Init != nil {
				c2 = stmtText(e.Init) + "; " + c2
			}
			ps.elseIf(ctx, i, e, c2)
		default:
			refuse(s.Pos(), "else shape")
		}
	case *ast.ForStmt:
		ps.noNodeLit(s.Init)
		ps.noNodeLit(s.Cond)
		ps.noNodeLit(s.Post)
		g := stmtText(s.Cond)
		if g == "" {
			g = "for"
		}
		sub(s.Body.List, g)
	case *ast.RangeStmt:
		ps.noNodeLit(s.X)
		sub(s.Body.List, "range "+stmtText(s.X))
	case *ast.SwitchStmt:
		ps.noNodeLit(s.Init)
		ps.noNodeLit(s.Tag)
		// a pure guard holder: the reaching-definition search continues in ctx.list before index i
		swc := &locCtx{parent: ctx, list: nil, idx: i, guard: "switch " + stmtText(s.Tag)}
		for _, cc := range s.Body.List {
			c := cc.(*ast.CaseClause)
			g := "default"
			if c.List != nil {
				var xs []string
				for _, e := range c.List {
					xs = append(xs, stmtText(e))
				}
				g = "case " + strings.Join(xs, ", ")
			}
			ps.stmts(c.Body, swc, 0, g)
		}
	case *ast.BlockStmt:
		sub(s.List, "")
	case *ast.LabeledStmt:
		ps.stmt(ctx, i, s.Stmt)
	case *ast.ReturnStmt, *ast.DeclStmt, *ast.BranchStmt, *ast.IncDecStmt, *ast.EmptyStmt, *ast.GoStmt, *ast.DeferStmt:
		ps.noNodeLit(s)
	default:
		refuse(st.Pos(), "statement kind %T not handled by the location extractor", st)
	}
}

func (ps *parserScan) elseIf(ctx *locCtx, i int, e *ast.IfStmt, cond string) {
	ps.noNodeLit(e.Init)
	ps.noNodeLit(e.Cond)
	ps.stmts(e.Body.List, ctx, i, "else: "+cond)
	switch e2 := e.Else.(type) {
	case nil:
	case *ast.BlockStmt:
		ps.stmts(e2.List, ctx, i, "else")
	case *ast.IfStmt:
		c2 := stmtText(e2.Cond)
		if e2.Init != nil {
			c2 = stmtText(e2.Init) + "; " + c2
		}
		ps.elseIf(ctx, i, e2, c2)
	default:
		refuse(e.Pos(), "else shape")
	}
}

func leanNodeSite(s nodeSite) string {
	return fmt.Sprintf("{ fn := %s, node := %s, target := %s, locArg := %s,\n    tokDef := %s, defPrev := %s, otherDefs := %s,\n    guards := %s }",
		leanStr(s.fn), leanStr(s.node), leanStr(s.target), leanStr(s.locArg), leanStr(s.tokDef), leanStr(s.defPrev),
		leanStrList(s.otherDefs), leanStrList(s.guards))
}

// ---------------------------------------------------------------------------------------------

func goFiles(dir string) []string {
	ents, err := os.ReadDir(filepath.Join(repo, dir))
	if err != nil {
		refuse(token.NoPos, "cannot read %s: %v", dir, err)
	}
	var out []string
	for _, e := range ents {
		n := e.Name()
		if e.IsDir() || !strings.HasSuffix(n, ".go") || strings.HasSuffix(n, "_test.go") {
			continue
		}
		out = append(out, filepath.ToSlash(filepath.Join(dir, n)))
	}
	sort.Strings(out)
	return out
}

func enclosingFuncs(f *ast.File) []*ast.FuncDecl {
	var out []*ast.FuncDecl
	for _, d := range f.Decls {
		if fd, ok := d.(*ast.FuncDecl); ok && fd.Body != nil {
			out = append(out, fd)
		}
	}
	return out
}

func funcLabel(fd *ast.FuncDecl) string {
	if fd.Recv != nil && len(fd.Recv.List) == 1 {
		return "(" + exprStr(fd.Recv.List[0].Type) + ")." + fd.Name.Name
	}
	return fd.Name.Name
}

// createdNodes: node literals in the optimizer passes and the operator patcher, with the way they reach Patch
func createdNodes(rel string) []string {
	f := parseFile(rel)
	var rows []string
	for _, fd := range enclosingFuncs(f) {
		var stack []ast.Node
		ast.Inspect(fd.Body, func(n ast.Node) bool {
			if n == nil {
				stack = stack[:len(stack)-1]
				return true
			}
			stack = append(stack, n)
			e, ok := n.(ast.Expr)
			if !ok {
				return true
			}
			name, _, ok := nodeLit(e)
			if !ok {
				return true
			}
			how := ""
			parent := stack[len(stack)-2]
			switch p := parent.(type) {
			case *ast.CallExpr:
				fn := exprStr(p.Fun)
				if fn == "Patch" || fn == "ast.Patch" || fn == "patch" || fn == "patchWithType" {
					how = "patch-arg:" + fn
				}
			case *ast.KeyValueExpr:
				// field of an enclosing node literal
				for j := len(stack) - 3; j >= 0; j-- {
					if cl, ok := stack[j].(*ast.CompositeLit); ok {
						how = "field:" + exprStr(p.Key) + " of " + strings.TrimPrefix(exprStr(cl.Type), "ast.")
						break
					}
				}
			case *ast.AssignStmt:
				if len(p.Lhs) == 1 {
					v := exprStr(p.Lhs[0])
					ast.Inspect(fd.Body, func(m ast.Node) bool {
						if call, ok := m.(*ast.CallExpr); ok && call.Pos() > p.End() {
							fn := exprStr(call.Fun)
							if fn == v+".SetLocation" && len(call.Args) == 1 && how == "" {
								how = "setloc:" + exprStr(call.Args[0])
							}
							if fn == "Patch" || fn == "ast.Patch" || fn == "patch" || fn == "patchWithType" {
								for _, a := range call.Args {
									if exprStr(a) == v {
										how = "patch-var:" + fn
									}
								}
							}
						}
						return true
					})
				}
			}
			if how == "" {
				refuse(e.Pos(), "%s constructed in a way the extractor does not classify", name)
			}
			rows = append(rows, fmt.Sprintf("{ file := %s, fn := %s, node := %s, how := %s }", leanStr(rel), leanStr(funcLabel(fd)), leanStr(name), leanStr(how)))
			return true
		})
	}
	return rows
}

func bodyTexts(b *ast.BlockStmt) []string {
	var out []string
	for _, st := range b.List {
		out = append(out, stmtText(st))
	}
	return out
}

// closureBody returns the statements of `name := func(...) {...}` inside fd
func closureBody(fd *ast.FuncDecl, name string) []string {
	var out []string
	found := false
	ast.Inspect(fd.Body, func(n ast.Node) bool {
		as, ok := n.(*ast.AssignStmt)
		if !ok || len(as.Lhs) != 1 || len(as.Rhs) != 1 || exprStr(as.Lhs[0]) != name {
			return true
		}
		if fl, ok := as.Rhs[0].(*ast.FuncLit); ok {
			out = bodyTexts(fl.Body)
			found = true
		}
		return true
	})
	if !found {
		refuse(fd.Pos(), "closure %s not found in %s", name, fd.Name.Name)
	}
	return out
}

func genSetLocation() string {
	var sb strings.Builder
	sb.WriteString("import ExprModel.Api.LocFacts\nnamespace ExprModel.Gen.Loc\nopen ExprModel.LocFacts\n\n")

	// ---- parser/parser.go
	pf := parseFile("parser/parser.go")
	var sites []nodeSite
	var passes []string
	totalSetLoc := 0
	matched := 0
	ast.Inspect(pf, func(n ast.Node) bool {
		if call, ok := n.(*ast.CallExpr); ok {
			if sel, ok := call.Fun.(*ast.SelectorExpr); ok && sel.Sel.Name == "SetLocation" {
				totalSetLoc++
			}
		}
		return true
	})
	paramLocated := map[string]bool{}
	for _, fd := range enclosingFuncs(pf) {
		ps := &parserScan{fd: fd}
		ps.stmts(fd.Body.List, nil, 0, "")
		sites = append(sites, ps.sites...)
		matched += ps.setLocs
		for _, s := range ps.sites {
			if s.tokDef == "param" {
				paramLocated[s.fn] = true
			}
		}
	}
	if matched != totalSetLoc {
		refuse(pf.Pos(), "parser.go: %d SetLocation calls, %d matched to a node constructor", totalSetLoc, matched)
	}
	// calls passing a token to the functions that locate nodes by a parameter
	for _, fd := range enclosingFuncs(pf) {
		ps := &parserScan{fd: fd}
		var rec func(n ast.Node, guards []string)
		rec = func(n ast.Node, guards []string) {
			switch s := n.(type) {
			case nil:
				return
			case *ast.BlockStmt:
				for _, st := range s.List {
					rec(st, guards)
				}
				return
			case *ast.IfStmt:
				cond := stmtText(s.Cond)
				if s.Init != nil {
					cond = stmtText(s.Init) + "; " + cond
				}
				rec(s.Body, append(append([]string{}, guards...), cond))
				if s.Else != nil {
					rec(s.Else, append(append([]string{}, guards...), "else"))
				}
				return
			case *ast.ForStmt:
				rec(s.Body, append(append([]string{}, guards...), stmtText(s.Cond)))
				return
			case *ast.SwitchStmt:
				g := append(append([]string{}, guards...), "switch "+stmtText(s.Tag))
				for _, cc := range s.Body.List {
					c := cc.(*ast.CaseClause)
					cg := "default"
					if c.List != nil {
						var xs []string
						for _, e := range c.List {
							xs = append(xs, stmtText(e))
						}
						cg = "case " + strings.Join(xs, ", ")
					}
					for _, st := range c.Body {
						rec(st, append(append([]string{}, g...), cg))
					}
				}
				return
			case *ast.LabeledStmt:
				rec(s.Stmt, guards)
				return
			}
			ast.Inspect(n, func(m ast.Node) bool {
				if call, ok := m.(*ast.CallExpr); ok {
					if sel, ok := call.Fun.(*ast.SelectorExpr); ok && exprStr(sel.X) == "p" && paramLocated[sel.Sel.Name] {
						var args []string
						for _, a := range call.Args {
							args = append(args, exprStr(a))
						}
						passes = append(passes, fmt.Sprintf("{ caller := %s, callee := %s, args := %s, guards := %s }",
							leanStr(ps.fd.Name.Name), leanStr(sel.Sel.Name), leanStr(strings.Join(args, ", ")), leanStrList(guards)))
					}
				}
				return true
			})
		}
		rec(fd.Body, nil)
	}
	var rows []string
	for _, s := range sites {
		rows = append(rows, leanNodeSite(s))
	}
	fmt.Fprintf(&sb, "/-- every `&XNode{…}` of parser/parser.go, in source order -/\ndef parserSites : List NodeSite := [\n  %s]\n\n", strings.Join(rows, ",\n  "))
	fmt.Fprintf(&sb, "def parserSetLocationCalls : Nat := %d\n\n", totalSetLoc)
	fmt.Fprintf(&sb, "def tokenPasses : List TokenPass := [\n  %s]\n\n", strings.Join(passes, ",\n  "))
	// the first statement of the functions that locate by `token` captured at entry / parameter
	var firsts []string
	for _, fd := range enclosingFuncs(pf) {
		if len(fd.Body.List) > 0 {
			firsts = append(firsts, fmt.Sprintf("(%s, %s)", leanStr(fd.Name.Name), leanStr(stmtText(fd.Body.List[0]))))
		}
	}
	fmt.Fprintf(&sb, "/-- first statement of every function of parser.go -/\ndef parserFirstStmt : List (String × String) := [\n  %s]\n\n", strings.Join(firsts, ",\n  "))

	// ---- ast.Patch
	af := parseFile("ast/node.go")
	fmt.Fprintf(&sb, "def astPatchBody : List String := %s\n", leanStrList(bodyTexts(funcDecl(af, "", "Patch").Body)))
	fmt.Fprintf(&sb, "def baseSetLocationBody : List String := %s\n", leanStrList(bodyTexts(funcDecl(af, "*base", "SetLocation").Body)))
	fmt.Fprintf(&sb, "def baseLocationBody : List String := %s\n\n", leanStrList(bodyTexts(funcDecl(af, "*base", "Location").Body)))

	// ---- nodes created by optimizer passes and the operator patcher
	var created []string
	for _, rel := range append(goFiles("optimizer"), "compiler/patcher.go") {
		created = append(created, createdNodes(rel)...)
	}
	fmt.Fprintf(&sb, "def createdNodes : List CreatedNode := [\n  %s]\n\n", strings.Join(created, ",\n  "))
	ff := parseFile("optimizer/fold.go")
	foldExit := funcDecl(ff, "*fold", "Exit")
	fmt.Fprintf(&sb, "def foldPatchBody : List String := %s\n", leanStrList(closureBody(foldExit, "patch")))
	fmt.Fprintf(&sb, "def foldPatchWithTypeBody : List String := %s\n", leanStrList(closureBody(foldExit, "patchWithType")))
	cf := parseFile("optimizer/const_expr.go")
	fmt.Fprintf(&sb, "def constExprPatchBody : List String := %s\n\n", leanStrList(closureBody(funcDecl(cf, "*constExpr", "Exit"), "patch")))

	// ---- error construction sites
	var errs []string
	pkgs := []string{".", "ast", "checker", "compiler", "conf", "file", "optimizer", "parser", "parser/lexer", "vm"}
	for _, dir := range pkgs {
		for _, rel := range goFiles(dir) {
			f := parseFile(rel)
			for _, fd := range enclosingFuncs(f) {
				ast.Inspect(fd.Body, func(n ast.Node) bool {
					switch x := n.(type) {
					case *ast.CompositeLit:
						if exprStr(x.Type) == "file.Error" || (dir == "file" && exprStr(x.Type) == "Error") {
							loc := ""
							for _, el := range x.Elts {
								kv, ok := el.(*ast.KeyValueExpr)
								if !ok {
									refuse(el.Pos(), "file.Error literal without field names")
								}
								if exprStr(kv.Key) == "Location" {
									loc = stmtText(kv.Value)
								}
							}
							errs = append(errs, fmt.Sprintf("{ file := %s, fn := %s, kind := \"file.Error\", loc := %s }", leanStr(rel), leanStr(funcLabel(fd)), leanStr(loc)))
						}
					case *ast.CallExpr:
						fn := exprStr(x.Fun)
						if fn == "fmt.Errorf" || fn == "errors.New" {
							errs = append(errs, fmt.Sprintf("{ file := %s, fn := %s, kind := %s, loc := \"\" }", leanStr(rel), leanStr(funcLabel(fd)), leanStr(fn)))
						}
					}
					return true
				})
			}
		}
	}
	fmt.Fprintf(&sb, "/-- every `file.Error{…}` literal and every `fmt.Errorf` / `errors.New` call of the library packages -/\ndef errSites : List ErrSite := [\n  %s]\n\n", strings.Join(errs, ",\n  "))

	// first argument of every v.error call of the checker; counts of p.error / l.error calls
	chk := parseFile("checker/checker.go")
	var vargs []string
	for _, fd := range enclosingFuncs(chk) {
		ast.Inspect(fd.Body, func(n ast.Node) bool {
			if call, ok := n.(*ast.CallExpr); ok && exprStr(call.Fun) == "v.error" {
				if len(call.Args) < 2 {
					refuse(call.Pos(), "v.error call shape")
				}
				vargs = append(vargs, fmt.Sprintf("(%s, %s)", leanStr(fd.Name.Name), leanStr(exprStr(call.Args[0]))))
			}
			return true
		})
	}
	fmt.Fprintf(&sb, "/-- (checker method, node whose location the error gets) for every `v.error(node, …)` call -/\ndef checkerErrorArgs : List (String × String) := [\n  %s]\n\n", strings.Join(vargs, ",\n  "))
	countCalls := func(rel, fn string) int {
		f := parseFile(rel)
		n := 0
		ast.Inspect(f, func(x ast.Node) bool {
			if call, ok := x.(*ast.CallExpr); ok && exprStr(call.Fun) == fn {
				n++
			}
			return true
		})
		return n
	}
	fmt.Fprintf(&sb, "def parserErrorCalls : Nat := %d\n", countCalls("parser/parser.go", "p.error"))
	fmt.Fprintf(&sb, "def lexerErrorCalls : Nat := %d\n", countCalls("parser/lexer/lexer.go", "l.error")+countCalls("parser/lexer/state.go", "l.error"))
	// how root uses the error of unescape, and the tail of checker.Check
	sf := parseFile("parser/lexer/state.go")
	rootFd := funcDecl(sf, "", "root")
	wrapped := false
	ast.Inspect(rootFd.Body, func(n ast.Node) bool {
		if ifs, ok := n.(*ast.IfStmt); ok && stmtText(ifs.Cond) == "err != nil" && len(ifs.Body.List) == 1 &&
			stmtText(ifs.Body.List[0]) == `l.error("%v", err)` {
			wrapped = true
		}
		return true
	})
	fmt.Fprintf(&sb, "/-- `root` turns the error of `unescape` into a located `l.error(\"%%v\", err)` -/\ndef unescapeErrorWrapped : Bool := %v\n", wrapped)
	checkFd := funcDecl(chk, "", "Check")
	fmt.Fprintf(&sb, "/-- statements of checker.Check after `t := v.visit(tree.Node)` -/\ndef checkTail : List String := %s\n\n", leanStrList(afterStmt(checkFd, "t := v.visit(tree.Node)")))
	// Lex / Parse / expr.Compile bind sites
	lf := parseFile("parser/lexer/lexer.go")
	fmt.Fprintf(&sb, "def lexReturns : List String := %s\n", leanStrList(returnsOf(funcDecl(lf, "", "Lex"))))
	fmt.Fprintf(&sb, "def parseReturns : List String := %s\n", leanStrList(returnsOf(funcDecl(pf, "", "Parse"))))
	fmt.Fprintf(&sb, "def lexerNextBody : List String := %s\n", leanStrList(bodyTexts(funcDecl(lf, "*lexer", "next").Body)))
	fmt.Fprintf(&sb, "def lexerBackupBody : List String := %s\n\n", leanStrList(bodyTexts(funcDecl(lf, "*lexer", "backup").Body)))

	// ---- compiler: emit / compile / Compile
	cpf := parseFile("compiler/compiler.go")
	fmt.Fprintf(&sb, "def emitBody : List String := %s\n", leanStrList(bodyTexts(funcDecl(cpf, "*compiler", "emit").Body)))
	compileFd := funcDecl(cpf, "*compiler", "compile")
	if len(compileFd.Body.List) < 2 {
		refuse(compileFd.Pos(), "compile: body shape")
	}
	fmt.Fprintf(&sb, "def compilePrologue : List String := %s\n", leanStrList([]string{stmtText(compileFd.Body.List[0]), stmtText(compileFd.Body.List[1])}))
	var locWrites, nodeWrites []string
	for _, rel := range goFiles("compiler") {
		f := parseFile(rel)
		for _, fd := range enclosingFuncs(f) {
			ast.Inspect(fd.Body, func(n ast.Node) bool {
				if as, ok := n.(*ast.AssignStmt); ok {
					for _, l := range as.Lhs {
						t := exprStr(l)
						if strings.HasPrefix(t, "c.locations") {
							locWrites = append(locWrites, fd.Name.Name+": "+stmtText(as))
						}
						if strings.HasPrefix(t, "c.nodes") {
							nodeWrites = append(nodeWrites, fd.Name.Name+": "+stmtText(as))
						}
					}
				}
				return true
			})
		}
	}
	fmt.Fprintf(&sb, "def locationsWrites : List String := %s\n", leanStrList(locWrites))
	fmt.Fprintf(&sb, "def nodesWrites : List String := %s\n", leanStrList(nodeWrites))
	compileTop := funcDecl(cpf, "", "Compile")
	var progFields []string
	ast.Inspect(compileTop.Body, func(n ast.Node) bool {
		if cl, ok := n.(*ast.CompositeLit); ok && exprStr(cl.Type) == "Program" {
			for _, el := range cl.Elts {
				progFields = append(progFields, stmtText(el))
			}
		}
		return true
	})
	fmt.Fprintf(&sb, "def programLiteral : List String := %s\n\n", leanStrList(progFields))

	// ---- vm: loop head, recover, writes to vm.pp
	vf := parseFile("vm/vm.go")
	runFd := funcDecl(vf, "*VM", "Run")
	var loop *ast.ForStmt
	for _, st := range runFd.Body.List {
		if fs, ok := st.(*ast.ForStmt); ok && stmtText(fs.Cond) == "vm.ip < len(vm.bytecode)" {
			loop = fs
		}
	}
	if loop == nil {
		refuse(runFd.Pos(), "VM.Run: dispatch loop not found")
	}
	var head []string
	for _, st := range loop.Body.List {
		if _, ok := st.(*ast.SwitchStmt); ok {
			break
		}
		head = append(head, stmtText(st))
	}
	fmt.Fprintf(&sb, "def vmLoopHead : List String := %s\n", leanStrList(head))
	var ppWrites []string
	for _, rel := range goFiles("vm") {
		f := parseFile(rel)
		for _, fd := range enclosingFuncs(f) {
			ast.Inspect(fd.Body, func(n ast.Node) bool {
				switch s := n.(type) {
				case *ast.AssignStmt:
					for _, l := range s.Lhs {
						if exprStr(l) == "vm.pp" {
							ppWrites = append(ppWrites, fd.Name.Name+": "+stmtText(s))
						}
					}
				case *ast.IncDecStmt:
					if exprStr(s.X) == "vm.pp" {
						ppWrites = append(ppWrites, fd.Name.Name+": "+stmtText(s))
					}
				}
				return true
			})
		}
	}
	fmt.Fprintf(&sb, "def vmPpWrites : List String := %s\n", leanStrList(ppWrites))
	if len(runFd.Body.List) == 0 {
		refuse(runFd.Pos(), "VM.Run: empty body")
	}
	fmt.Fprintf(&sb, "def vmRunDefer : String := %s\n", leanStr(stmtText(runFd.Body.List[0])))
	sb.WriteString("\nend ExprModel.Gen.Loc\n")
	return sb.String()
}

func afterStmt(fd *ast.FuncDecl, text string) []string {
	var out []string
	seen := false
	for _, st := range fd.Body.List {
		if seen {
			out = append(out, stmtText(st))
		}
		if stmtText(st) == text {
			seen = true
		}
	}
	if !seen {
		refuse(fd.Pos(), "%s: statement `%s` not found", fd.Name.Name, text)
	}
	return out
}

func returnsOf(fd *ast.FuncDecl) []string {
	var out []string
	ast.Inspect(fd.Body, func(n ast.Node) bool {
		if _, ok := n.(*ast.FuncLit); ok {
			return false
		}
		if r, ok := n.(*ast.ReturnStmt); ok {
			out = append(out, stmtText(r))
		}
		return true
	})
	return out
}

func init() { register("SetLocation", genSetLocation) }
