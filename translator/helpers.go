package main

import (
	"fmt"
	"go/ast"
	"go/token"
	"strings"
)

// Gen/Helpers.lean: the arms of the generated binary helpers in vm/helpers.go, the unary numeric
// helpers of vm/runtime.go, and checker.typeWeight.

var numKinds = map[string]string{
	"uint": ".uint", "uint8": ".uint8", "uint16": ".uint16", "uint32": ".uint32", "uint64": ".uint64",
	"int": ".int", "int8": ".int8", "int16": ".int16", "int32": ".int32", "int64": ".int64",
	"float32": ".float32", "float64": ".float64",
}

var goOps = map[token.Token]string{
	token.EQL: ".eq", token.LSS: ".lt", token.GTR: ".gt", token.LEQ: ".le", token.GEQ: ".ge",
	token.ADD: ".add", token.SUB: ".sub", token.MUL: ".mul", token.QUO: ".div", token.REM: ".mod",
}

func armType(e ast.Expr) string {
	id, ok := e.(*ast.Ident)
	if !ok {
		refuse(e.Pos(), "type-switch case is not a plain type name: %s", exprStr(e))
	}
	if id.Name == "string" {
		return "none"
	}
	k, ok := numKinds[id.Name]
	if !ok {
		refuse(e.Pos(), "unexpected type %s in helper type switch", id.Name)
	}
	return "(some " + k + ")"
}

// operand recognises `x`, `y` or `T(x)`, `T(y)`; returns the variable and the conversion ("none" or "(some .T)")
func operand(e ast.Expr) (string, string) {
	switch v := e.(type) {
	case *ast.Ident:
		return v.Name, "none"
	case *ast.CallExpr:
		if len(v.Args) == 1 {
			if id, ok := v.Fun.(*ast.Ident); ok {
				if k, ok := numKinds[id.Name]; ok {
					if a, ok := v.Args[0].(*ast.Ident); ok {
						return a.Name, "(some " + k + ")"
					}
				}
			}
		}
	}
	refuse(e.Pos(), "operand shape not recognised: %s", exprStr(e))
	return "", ""
}

func typeSwitchParts(s *ast.TypeSwitchStmt) (bound string, subject string) {
	as, ok := s.Assign.(*ast.AssignStmt)
	if !ok || len(as.Lhs) != 1 || len(as.Rhs) != 1 {
		refuse(s.Pos(), "type switch without binding")
	}
	ta, ok := as.Rhs[0].(*ast.TypeAssertExpr)
	if !ok || ta.Type != nil {
		refuse(s.Pos(), "not a .(type) switch")
	}
	return as.Lhs[0].(*ast.Ident).Name, exprStr(ta.X)
}

func genHelpers() string {
	f := parseFile("vm/helpers.go")
	helperNames := []string{"equal", "less", "more", "lessOrEqual", "moreOrEqual", "add", "subtract", "multiply", "divide", "modulo"}
	var sb strings.Builder
	sb.WriteString("import ExprModel.Num.Arith\nnamespace ExprModel.Gen\nopen ExprModel\n\n")
	declared := map[string]bool{}
	for _, d := range f.Decls {
		if fd, ok := d.(*ast.FuncDecl); ok {
			declared[fd.Name.Name] = true
		}
	}
	for _, h := range helperNames {
		if !declared[h] {
			refuse(f.Pos(), "helper %s missing from vm/helpers.go", h)
		}
	}
	for name := range declared {
		found := false
		for _, h := range helperNames {
			if h == name {
				found = true
			}
		}
		if !found {
			refuse(f.Pos(), "unexpected function %s in vm/helpers.go", name)
		}
	}
	total := 0
	for _, h := range helperNames {
		fd := funcDecl(f, "", h)
		if len(fd.Type.Params.List) != 1 || len(fd.Type.Params.List[0].Names) != 2 ||
			fd.Type.Params.List[0].Names[0].Name != "a" || fd.Type.Params.List[0].Names[1].Name != "b" {
			refuse(fd.Pos(), "helper %s: parameters are not (a, b interface{})", h)
		}
		if len(fd.Body.List) < 2 {
			refuse(fd.Pos(), "helper %s: body shape", h)
		}
		outer, ok := fd.Body.List[0].(*ast.TypeSwitchStmt)
		if !ok {
			refuse(fd.Pos(), "helper %s: first statement is not a type switch", h)
		}
		xv, subj := typeSwitchParts(outer)
		if subj != "a" || xv != "x" {
			refuse(outer.Pos(), "helper %s: outer switch is not `x := a.(type)`", h)
		}
		// the fall-through after the switch
		tail := []string{}
		for _, st := range fd.Body.List[1:] {
			tail = append(tail, strings.Join(strings.Fields(exprStr(st)), " "))
		}
		var arms []string
		for _, cc := range outer.Body.List {
			oc := cc.(*ast.CaseClause)
			if len(oc.List) != 1 {
				refuse(oc.Pos(), "helper %s: case with %d types", h, len(oc.List))
			}
			ka := armType(oc.List[0])
			if len(oc.Body) != 1 {
				refuse(oc.Pos(), "helper %s: outer case body has %d statements", h, len(oc.Body))
			}
			inner, ok := oc.Body[0].(*ast.TypeSwitchStmt)
			if !ok {
				refuse(oc.Pos(), "helper %s: outer case body is not a type switch", h)
			}
			yv, subj := typeSwitchParts(inner)
			if subj != "b" || yv != "y" {
				refuse(inner.Pos(), "helper %s: inner switch is not `y := b.(type)`", h)
			}
			for _, ic := range inner.Body.List {
				icc := ic.(*ast.CaseClause)
				if len(icc.List) != 1 || len(icc.Body) != 1 {
					refuse(icc.Pos(), "helper %s: inner case shape", h)
				}
				kb := armType(icc.List[0])
				ret, ok := icc.Body[0].(*ast.ReturnStmt)
				if !ok || len(ret.Results) != 1 {
					refuse(icc.Pos(), "helper %s: inner case is not a single return", h)
				}
				be, ok := ret.Results[0].(*ast.BinaryExpr)
				if !ok {
					refuse(ret.Pos(), "helper %s: returned expression is not binary: %s", h, exprStr(ret.Results[0]))
				}
				op, ok := goOps[be.Op]
				if !ok {
					refuse(be.Pos(), "helper %s: operator %s", h, be.Op)
				}
				lv, lc := operand(be.X)
				rv, rc := operand(be.Y)
				if lv != "x" || rv != "y" {
					refuse(be.Pos(), "helper %s: operands are not (x, y) in order: %s", h, exprStr(be))
				}
				arms = append(arms, fmt.Sprintf("⟨%s, %s, %s, %s, %s⟩", ka, kb, op, lc, rc))
				total++
			}
		}
		// chunk the list literal so that no single term is huge
		fmt.Fprintf(&sb, "def %sArms : List Arm := [\n  %s]\n", h, strings.Join(arms, ",\n  "))
		fmt.Fprintf(&sb, "def %sTail : List String := %s\n\n", h, leanStrList(tail))
	}
	fmt.Fprintf(&sb, "def helperArmCount : Nat := %d\n\n", total)
	sb.WriteString("def arms : Helper → List Arm\n")
	for _, h := range helperNames {
		fmt.Fprintf(&sb, "  | .%s => %sArms\n", h, h)
	}
	sb.WriteString("\n")

	// runtime.go: negate, toInt, toInt64, toFloat64
	rf := parseFile("vm/runtime.go")
	for _, fn := range []string{"negate", "toInt", "toInt64", "toFloat64"} {
		fd := funcDecl(rf, "", fn)
		if len(fd.Body.List) != 1 {
			refuse(fd.Pos(), "%s: body is not a single type switch", fn)
		}
		ts, ok := fd.Body.List[0].(*ast.TypeSwitchStmt)
		if !ok {
			refuse(fd.Pos(), "%s: body is not a type switch", fn)
		}
		v, _ := typeSwitchParts(ts)
		var rows []string
		hasDefaultPanic := false
		for _, cc := range ts.Body.List {
			c := cc.(*ast.CaseClause)
			if c.List == nil {
				if len(c.Body) == 1 && strings.HasPrefix(exprStr(c.Body[0]), "panic(") {
					hasDefaultPanic = true
					continue
				}
				refuse(c.Pos(), "%s: default case is not a panic", fn)
			}
			if len(c.List) != 1 || len(c.Body) != 1 {
				refuse(c.Pos(), "%s: case shape", fn)
			}
			id, ok := c.List[0].(*ast.Ident)
			if !ok || numKinds[id.Name] == "" {
				refuse(c.Pos(), "%s: case type %s", fn, exprStr(c.List[0]))
			}
			ret, ok := c.Body[0].(*ast.ReturnStmt)
			if !ok || len(ret.Results) != 1 {
				refuse(c.Pos(), "%s: case is not a single return", fn)
			}
			shape := ""
			switch r := ret.Results[0].(type) {
			case *ast.Ident:
				if r.Name != v {
					refuse(r.Pos(), "%s: returns %s", fn, r.Name)
				}
				shape = ".same"
			case *ast.UnaryExpr:
				if r.Op != token.SUB || exprStr(r.X) != v {
					refuse(r.Pos(), "%s: unary shape %s", fn, exprStr(r))
				}
				shape = ".neg"
			case *ast.CallExpr:
				cid, ok := r.Fun.(*ast.Ident)
				if !ok || numKinds[cid.Name] == "" || len(r.Args) != 1 || exprStr(r.Args[0]) != v {
					refuse(r.Pos(), "%s: conversion shape %s", fn, exprStr(r))
				}
				shape = "(.conv " + numKinds[cid.Name] + ")"
			default:
				refuse(ret.Pos(), "%s: return shape %s", fn, exprStr(ret.Results[0]))
			}
			rows = append(rows, fmt.Sprintf("(%s, %s)", numKinds[id.Name], shape))
		}
		if !hasDefaultPanic {
			refuse(fd.Pos(), "%s: no panicking default case", fn)
		}
		fmt.Fprintf(&sb, "def %sCases : List (Kind × UnShape) := [%s]\n", fn, strings.Join(rows, ", "))
	}
	// exponent
	ex := funcDecl(rf, "", "exponent")
	fmt.Fprintf(&sb, "def exponentBody : String := %s\n\n", leanStr(strings.Join(strings.Fields(exprStr(ex.Body)), " ")))

	// checker.typeWeight and combined
	cf := parseFile("checker/types.go")
	tw := funcDecl(cf, "", "typeWeight")
	sw, ok := tw.Body.List[0].(*ast.SwitchStmt)
	if !ok || exprStr(sw.Tag) != "t.Kind()" {
		refuse(tw.Pos(), "typeWeight: not a switch on t.Kind()")
	}
	var rows []string
	for _, cc := range sw.Body.List {
		c := cc.(*ast.CaseClause)
		ret, ok := c.Body[0].(*ast.ReturnStmt)
		if !ok || len(c.Body) != 1 {
			refuse(c.Pos(), "typeWeight: case body")
		}
		w := exprStr(ret.Results[0])
		if c.List == nil {
			fmt.Fprintf(&sb, "def typeWeightDefault : Nat := %s\n", w)
			continue
		}
		for _, e := range c.List {
			name := strings.ToLower(strings.TrimPrefix(exprStr(e), "reflect."))
			k, ok := numKinds[name]
			if !ok {
				refuse(e.Pos(), "typeWeight: kind %s", exprStr(e))
			}
			rows = append(rows, fmt.Sprintf("(%s, %s)", k, w))
		}
	}
	fmt.Fprintf(&sb, "def typeWeightTable : List (Kind × Nat) := [%s]\n", strings.Join(rows, ", "))
	cb := funcDecl(cf, "", "combined")
	fmt.Fprintf(&sb, "def combinedBody : String := %s\n", leanStr(strings.Join(strings.Fields(exprStr(cb.Body)), " ")))
	sb.WriteString("\nend ExprModel.Gen\n")
	return sb.String()
}

func init() { register("Helpers", genHelpers) }
