package main

// Gen/Writes.lean (C08, C09): every write the library can perform on the Run / Compile / Eval paths
// (assignments, ++/--, indexed stores, append targets, delete, copy, channel operations, reflect setters),
// with the memory each write can reach according to the points-to analysis of pointsto*.go; the
// package-level variables and whether anything assigns them; every `range` over a map; every use of
// goroutines, select, and of packages whose behaviour is not a function of the inputs.

import (
	"fmt"
	"go/ast"
	"go/token"
	"go/types"
	"sort"
	"strings"
)

// entry points: name -> reachability flag
var writeRoots = []struct {
	name string
	flag int
}{
	{"vm.Run", flagRun}, {"vm.(*VM).Run", flagRun}, {"expr.Run", flagRun}, {"vm.Debug", flagRun},
	{"expr.Compile", flagCompile}, {"expr.Eval", flagEval},
}

var nondetPackages = map[string]bool{"math/rand": true, "math/rand/v2": true, "crypto/rand": true, "time": true, "sync": true,
	"sync/atomic": true, "os": true, "runtime": true, "unsafe": true, "context": true, "net": true, "io/ioutil": true, "syscall": true}

func newAnalysis(pr *program) *analysis {
	a := &analysis{pr: pr, allocAt: map[string]int{}, cellOf: map[types.Object]int{}, pts: map[nodeKey]lset{},
		ents: map[ast.Node]*entity{}, entOfFn: map[*types.Func]*entity{}, closure: map[*entity]int{},
		sites: map[string]*site{}, mapRange: map[string]*site{}, nondet: map[string]*site{}, extCalls: map[string]int{}, userCall: map[string]int{}, freshUsed: map[string]bool{}, edges: map[*entity]map[*entity]bool{}}
	a.locs = append(a.locs, &location{id: 0, kind: "shared", desc: "SHARED"})
	for _, lf := range pr.flist {
		sig := lf.obj.Type().(*types.Signature)
		e := &entity{name: lf.name, fn: lf, sig: sig, body: lf.decl.Body, info: lf.pkg.info, recv: sig.Recv()}
		for i := 0; i < sig.Params().Len(); i++ {
			e.params = append(e.params, sig.Params().At(i))
		}
		for i := 0; i < sig.Results().Len(); i++ {
			r := sig.Results().At(i)
			if r.Name() != "" && r.Name() != "_" {
				e.results = append(e.results, r)
			} else {
				e.results = append(e.results, nil)
			}
		}
		a.ents[lf.decl] = e
		a.entOfFn[lf.obj] = e
		n := 0
		ast.Inspect(lf.decl.Body, func(nd ast.Node) bool {
			fl, ok := nd.(*ast.FuncLit)
			if !ok {
				return true
			}
			n++
			ls, ok := lf.pkg.info.Types[fl].Type.(*types.Signature)
			if !ok {
				refuse(fl.Pos(), "function literal without signature")
			}
			le := &entity{name: fmt.Sprintf("%s$%d", lf.name, n), fn: lf, lit: fl, sig: ls, body: fl.Body, info: lf.pkg.info}
			for i := 0; i < ls.Params().Len(); i++ {
				le.params = append(le.params, ls.Params().At(i))
			}
			for i := 0; i < ls.Results().Len(); i++ {
				r := ls.Results().At(i)
				if r.Name() != "" && r.Name() != "_" {
					le.results = append(le.results, r)
				} else {
					le.results = append(le.results, nil)
				}
			}
			a.ents[fl] = le
			return true
		})
	}
	return a
}

// walkBody walks an entity's body without descending into nested function literals (they are entities of their own).
func (a *analysis) run() {
	pr := a.pr
	// roots
	var roots []*entity
	for _, r := range writeRoots {
		e := a.entOfFn[pr.lookupFunc(r.name).obj]
		e.root = true
		e.flags |= r.flag
		roots = append(roots, e)
	}
	// option constructors: exported functions of the root package returning expr.Option
	var optionCtors []*entity
	for _, lf := range pr.flist {
		if lf.pkg.rel != "" || !lf.obj.Exported() {
			continue
		}
		sig := lf.obj.Type().(*types.Signature)
		if sig.Recv() == nil && sig.Results().Len() == 1 {
			if n, ok := sig.Results().At(0).Type().(*types.Named); ok && n.Obj().Name() == "Option" {
				e := a.entOfFn[lf.obj]
				e.root = true
				e.flags |= flagCompile
				roots = append(roots, e)
				optionCtors = append(optionCtors, e)
			}
		}
	}
	if len(optionCtors) < 5 {
		refuse(token.NoPos, "fewer than 5 Option constructors found in package expr")
	}
	callerVM := a.newLoc("callerVM", "caller", pr.lookupFunc("vm.(*VM).Run").obj.Type().(*types.Signature).Recv().Type(), "VM owned by the calling goroutine")
	pass := func() {
		for _, e := range roots {
			for _, p := range e.params {
				if carriesRefs(p.Type()) {
					a.flow(a.varPts(p), lset{locShared: true})
				}
			}
			if e.recv != nil {
				a.flow(a.varPts(e.recv), lset{callerVM: true})
			}
		}
		// closures returned by the option constructors escape to the caller and come back through SHARED
		a.escaped = a.escaped[:0]
		seen := map[*entity]bool{}
		for _, e := range optionCtors {
			for l := range a.resPts(e, 0) {
				if ent := a.locs[l].ent; ent != nil && !seen[ent] {
					seen[ent] = true
					a.escaped = append(a.escaped, ent)
				}
			}
		}
		sort.Slice(a.escaped, func(i, j int) bool { return a.escaped[i].name < a.escaped[j].name })
		var all []*entity
		for _, e := range a.ents {
			all = append(all, e)
		}
		sort.Slice(all, func(i, j int) bool { return all[i].name < all[j].name })
		for _, e := range all {
			if e.flags == 0 {
				continue
			}
			a.cur = e
			if e.lit != nil {
				// a literal runs on the paths of the function that creates it and of those that call it
				a.mark(e, a.ents[e.fn.decl].flags)
			}
			a.block(e.body)
		}
	}
	for i := 0; ; i++ {
		a.changed = false
		pass()
		if !a.changed {
			break
		}
		if i > 200 {
			refuse(token.NoPos, "points-to analysis did not reach a fixed point")
		}
	}
	a.final = true
	pass()
	if a.changed {
		refuse(token.NoPos, "points-to analysis changed during the recording pass")
	}
}

func (a *analysis) rootClass(s *site) string {
	switch {
	case s.pkgvar:
		return "pkgvar"
	case s.owners[locShared]:
		return "shared"
	case len(s.owners) == 0:
		return "unknown"
	case s.local:
		return "localVar"
	default:
		return "fresh"
	}
}

func (a *analysis) ownerList(s *site) []string {
	m := map[string]bool{}
	for l := range s.owners {
		m[a.ownerDesc(l)] = true
	}
	var out []string
	for k := range m {
		out = append(out, k)
	}
	sort.Strings(out)
	return out
}

func leanBool(b bool) string {
	if b {
		return "true"
	}
	return "false"
}

var cachedAnalysis *analysis

// sharedAnalysis runs the points-to analysis once per translator run (Writes and Api both read it)
func sharedAnalysis() *analysis {
	if cachedAnalysis == nil {
		a := newAnalysis(loadProgram())
		a.run()
		cachedAnalysis = a
	}
	return cachedAnalysis
}

func genWrites() string {
	pr := loadProgram()
	a := sharedAnalysis()
	var sb strings.Builder
	sb.WriteString("namespace ExprModel.Gen.Writes\n\n")
	sb.WriteString("/-- what memory a write can reach: a local variable of the running function, memory allocated by this\n    call (or owned by the calling goroutine's VM), a package-level variable, memory reachable from the shared\n    inputs (program, environment, options), or nothing the analysis knows (refused by the theorems) -/\n")
	sb.WriteString("inductive Root | localVar | fresh | pkgvar | shared | unknown\n  deriving DecidableEq, Repr\n\n")
	sb.WriteString("structure Site where\n  fn : String\n  what : String\n  kind : String\n  root : Root\n  owners : List String\n  run : Bool\n  compile : Bool\n  eval : Bool\n  pos : String\n  deriving DecidableEq, Repr\n\n")
	keys := sortedKeys(a.sites)
	// local variable writes are summarised by count; all others are listed
	nLocal := 0
	var rows []string
	for _, k := range keys {
		s := a.sites[k]
		rc := a.rootClass(s)
		if rc == "localVar" {
			nLocal++
			continue
		}
		rows = append(rows, fmt.Sprintf("⟨%s, %s, %s, .%s, %s, %s, %s, %s, %s⟩", leanStr(s.fn), leanStr(s.what), leanStr(s.kind), rc,
			leanStrList(a.ownerList(s)), leanBool(s.flags&flagRun != 0), leanBool(s.flags&flagCompile != 0), leanBool(s.flags&flagEval != 0), leanStr(relPos(s.pos))))
	}
	fmt.Fprintf(&sb, "/-- writes to plain local variables (stack cells of the running function) -/\ndef localVarWrites : Nat := %d\n\n", nLocal)
	fmt.Fprintf(&sb, "/-- every other write site on the Run / Compile / Eval paths -/\ndef sites : List Site := [\n  %s]\n\n", strings.Join(rows, ",\n  "))

	// functions reached per path
	var reached []string
	nRun, nCompile := 0, 0
	for _, lf := range pr.flist {
		e := a.entOfFn[lf.obj]
		if e.flags != 0 {
			reached = append(reached, fmt.Sprintf("(%s, %s)", leanStr(lf.name), leanStr(flagStr(e.flags))))
			if e.flags&flagRun != 0 {
				nRun++
			}
			if e.flags&flagCompile != 0 {
				nCompile++
			}
		}
	}
	sort.Strings(reached)
	fmt.Fprintf(&sb, "def reachedFunctions : List (String × String) := [\n  %s]\n\n", strings.Join(reached, ",\n  "))
	fmt.Fprintf(&sb, "def reachedOnRun : Nat := %d\ndef reachedOnCompile : Nat := %d\n\n", nRun, nCompile)

	// package-level variables
	type pv struct {
		name      string
		assigned  bool
		addrTaken bool
		refs      bool
	}
	var pvs []pv
	for _, p := range pr.order {
		vars := map[*types.Var]*pv{}
		sc := p.pkg.Scope()
		for _, n := range sc.Names() {
			if v, ok := sc.Lookup(n).(*types.Var); ok {
				vars[v] = &pv{name: p.pkg.Name() + "." + n, refs: carriesRefs(v.Type())}
			}
		}
		// any assignment or address-of anywhere in any in-scope package (not only on the reachable paths)
		for _, q := range pr.order {
			for _, f := range q.files {
				ast.Inspect(f, func(nd ast.Node) bool {
					mark := func(e ast.Expr, addr bool) {
						e = unparen(e)
						var id *ast.Ident
						switch x := e.(type) {
						case *ast.Ident:
							id = x
						case *ast.SelectorExpr:
							if _, isSel := q.info.Selections[x]; !isSel {
								id = x.Sel
							}
						}
						if id == nil {
							return
						}
						if v, ok := q.info.ObjectOf(id).(*types.Var); ok {
							if r := vars[v]; r != nil {
								if addr {
									r.addrTaken = true
								} else {
									r.assigned = true
								}
							}
						}
					}
					switch x := nd.(type) {
					case *ast.AssignStmt:
						if x.Tok != token.DEFINE {
							for _, l := range x.Lhs {
								mark(l, false)
							}
						}
					case *ast.IncDecStmt:
						mark(x.X, false)
					case *ast.UnaryExpr:
						if x.Op == token.AND {
							mark(x.X, true)
						}
					case *ast.RangeStmt:
						if x.Tok == token.ASSIGN {
							if x.Key != nil {
								mark(x.Key, false)
							}
							if x.Value != nil {
								mark(x.Value, false)
							}
						}
					}
					return true
				})
			}
		}
		for _, r := range vars {
			pvs = append(pvs, *r)
		}
	}
	sort.Slice(pvs, func(i, j int) bool { return pvs[i].name < pvs[j].name })
	var prow []string
	for _, r := range pvs {
		prow = append(prow, fmt.Sprintf("(%s, %s, %s, %s)", leanStr(r.name), leanBool(r.assigned), leanBool(r.addrTaken), leanBool(r.refs)))
	}
	fmt.Fprintf(&sb, "/-- package-level variables: (name, assigned anywhere in the library, address taken, holds references) -/\ndef packageVars : List (String × Bool × Bool × Bool) := [\n  %s]\n\n", strings.Join(prow, ",\n  "))

	// map ranges
	var mr []string
	for _, k := range sortedKeys(a.mapRange) {
		s := a.mapRange[k]
		mr = append(mr, fmt.Sprintf("(%s, %s, %s)", leanStr(s.fn), leanStr(s.what), leanStr(flagStr(s.flags))))
	}
	fmt.Fprintf(&sb, "/-- every `range` over a map-typed expression in a reachable function: (function, ranged expression, paths) -/\ndef mapRanges : List (String × String × String) := [%s]\n\n", strings.Join(mr, ",\n  "))

	// nondeterminism sources
	var nd []string
	for _, k := range sortedKeys(a.nondet) {
		s := a.nondet[k]
		nd = append(nd, fmt.Sprintf("(%s, %s)", leanStr(s.fn), leanStr(s.what)))
	}
	imports := map[string]bool{}
	for _, p := range pr.order {
		for _, f := range p.files {
			for _, im := range f.Imports {
				path := strings.Trim(im.Path.Value, `"`)
				if nondetPackages[path] {
					imports[p.pkg.Name()+" imports "+path] = true
				}
			}
		}
	}
	var il []string
	for k := range imports {
		il = append(il, k)
	}
	sort.Strings(il)
	fmt.Fprintf(&sb, "/-- goroutine / select statements in reachable functions -/\ndef concurrencyStatements : List (String × String) := [%s]\n\n", strings.Join(nd, ", "))
	fmt.Fprintf(&sb, "/-- imports of packages whose results are not a function of the inputs (time, rand, sync, os, unsafe, …) by any library package -/\ndef nondetImports : List String := %s\n\n", leanStrList(il))

	// external calls that receive references into SHARED, user callbacks
	var ec []string
	for k, f := range a.extCalls {
		ec = append(ec, fmt.Sprintf("(%s, %s)", leanStr(k), leanStr(flagStr(f))))
	}
	sort.Strings(ec)
	fmt.Fprintf(&sb, "/-- standard-library functions that are handed a reference from which SHARED memory is reachable -/\ndef externalSharedCalls : List (String × String) := [\n  %s]\n\n", strings.Join(ec, ",\n  "))
	var uc []string
	for k, f := range a.userCall {
		uc = append(uc, fmt.Sprintf("(%s, %s)", leanStr(k), leanStr(flagStr(f))))
	}
	sort.Strings(uc)
	fmt.Fprintf(&sb, "/-- calls into code supplied by the user (visitors, environment functions, options) -/\ndef userCallSites : List (String × String) := [\n  %s]\n\n", strings.Join(uc, ",\n  "))

	var fu []string
	for k := range a.freshUsed {
		fu = append(fu, k)
	}
	sort.Strings(fu)
	fmt.Fprintf(&sb, "/-- standard-library constructors the analysis assumes return newly allocated values -/\ndef assumedFreshConstructors : List String := %s\n\n", leanStrList(fu))
	// map-ordered reflect calls (MapKeys / MapRange) among the external calls
	var mk []string
	for k, f := range a.extCalls {
		if strings.HasSuffix(k, ".MapKeys") || strings.HasSuffix(k, ".MapRange") {
			mk = append(mk, fmt.Sprintf("(%s, %s)", leanStr(k), leanStr(flagStr(f))))
		}
	}
	sort.Strings(mk)
	fmt.Fprintf(&sb, "def reflectMapIterations : List (String × String) := [%s]\n\n", strings.Join(mk, ", "))
	sb.WriteString("end ExprModel.Gen.Writes\n")
	return sb.String()
}

func init() { register("Writes", genWrites) }
