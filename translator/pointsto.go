package main

// A small whole-program points-to analysis (Andersen style: flow- and context-insensitive inclusion
// constraints, field-based for struct fields, one abstract location per allocation site, one location
// SHARED for everything reachable from the inputs that concurrent callers share: the program, the
// environment, option arguments, package-level variables).  It exists to answer one question for C08/C09:
// which memory can each write in the library reach?  Unknown syntax is refused, never guessed.

import (
	"go/ast"
	"go/token"
	"go/types"
	"sort"
	"strings"
)

type lset map[int]bool

func (s lset) addAll(o lset) bool {
	ch := false
	for k := range o {
		if !s[k] {
			s[k] = true
			ch = true
		}
	}
	return ch
}

func union(a ...lset) lset {
	r := lset{}
	for _, x := range a {
		for k := range x {
			r[k] = true
		}
	}
	return r
}

const locShared = 0

type location struct {
	id          int
	kind        string // shared | alloc | cell | ext | closure | caller
	typ         types.Type
	desc        string
	ent         *entity // for closures
	fromReflect bool
}

// entity: a function body with parameters (FuncDecl or FuncLit)
type entity struct {
	name    string
	fn      *lfunc // enclosing declaration
	lit     *ast.FuncLit
	sig     *types.Signature
	recv    *types.Var
	params  []*types.Var
	results []*types.Var // named results or nil entries
	body    *ast.BlockStmt
	flags   int // reachability: 1 run, 2 compile, 4 eval
	info    *types.Info
	root    bool
}

const (
	flagRun     = 1
	flagCompile = 2
	flagEval    = 4
)

type nodeKey struct {
	obj types.Object // variable / field
	ent *entity      // result node
	idx int
	loc int // contents node of a location (kind 'c')
	k   byte
}

type site struct {
	fn     string
	what   string
	kind   string
	owners lset
	pkgvar bool
	local  bool
	flags  int
	pos    token.Pos
}

type analysis struct {
	pr        *program
	locs      []*location
	allocAt   map[string]int // by key (pos+tag)
	cellOf    map[types.Object]int
	pts       map[nodeKey]lset
	ents      map[ast.Node]*entity // FuncDecl / FuncLit -> entity
	entOfFn   map[*types.Func]*entity
	closure   map[*entity]int
	changed   bool
	final     bool
	sites     map[string]*site
	mapRange  map[string]*site
	nondet    map[string]*site
	extCalls  map[string]int // external callee name -> flags (args reach SHARED)
	userCall  map[string]int // "fn: callee" -> flags
	freshUsed map[string]bool
	edges     map[*entity]map[*entity]bool // call graph discovered while binding calls
	escaped   []*entity
	cur       *entity
}

func (a *analysis) newLoc(key, kind string, typ types.Type, desc string) int {
	if id, ok := a.allocAt[key]; ok {
		return id
	}
	id := len(a.locs)
	a.locs = append(a.locs, &location{id: id, kind: kind, typ: typ, desc: desc})
	a.allocAt[key] = id
	return id
}

func (a *analysis) allocLoc(n ast.Node, tag string, typ types.Type) int {
	return a.newLoc(relPos(n.Pos())+":"+itoa(fset.Position(n.Pos()).Column)+":"+tag, "alloc", typ, tag+"@"+relPos(n.Pos()))
}

func (a *analysis) node(k nodeKey) lset {
	s, ok := a.pts[k]
	if !ok {
		s = lset{}
		a.pts[k] = s
	}
	return s
}

func (a *analysis) varPts(v types.Object) lset { return a.node(nodeKey{obj: v, k: 'v'}) }
func (a *analysis) contPts(l int) lset {
	if l == locShared {
		return lset{locShared: true}
	}
	loc := a.locs[l]
	if loc.kind == "ext" { // contents of a fresh external object: itself plus whatever was put in
		return union(lset{l: true}, a.node(nodeKey{loc: l, k: 'c'}))
	}
	return a.node(nodeKey{loc: l, k: 'c'})
}
func (a *analysis) resPts(e *entity, i int) lset {
	if i < len(e.results) && e.results[i] != nil {
		return a.varPts(e.results[i])
	}
	return a.node(nodeKey{ent: e, idx: i, k: 'r'})
}

func (a *analysis) flow(dst lset, src lset) {
	if dst.addAll(src) {
		a.changed = true
	}
}

func (a *analysis) cell(v types.Object) int {
	if id, ok := a.cellOf[v]; ok {
		return id
	}
	id := len(a.locs)
	a.locs = append(a.locs, &location{id: id, kind: "cell", typ: v.Type(), desc: "var " + v.Name()})
	a.cellOf[v] = id
	// the contents of a variable's cell are the variable's points-to set (same set object)
	a.pts[nodeKey{loc: id, k: 'c'}] = a.varPts(v)
	return id
}

// carriesRefs: can a value of type t hold a reference to mutable memory?
func carriesRefs(t types.Type) bool { return carriesRefs1(t, map[types.Type]bool{}) }
func carriesRefs1(t types.Type, seen map[types.Type]bool) bool {
	if t == nil {
		return false
	}
	if seen[t] {
		return false
	}
	seen[t] = true
	switch u := t.Underlying().(type) {
	case *types.Basic:
		return u.Kind() == types.UnsafePointer || u.Kind() == types.UntypedNil
	case *types.Pointer, *types.Slice, *types.Map, *types.Chan, *types.Signature, *types.Interface:
		return true
	case *types.Array:
		return carriesRefs1(u.Elem(), seen)
	case *types.Struct:
		for i := 0; i < u.NumFields(); i++ {
			if carriesRefs1(u.Field(i).Type(), seen) {
				return true
			}
		}
		return false
	case *types.Tuple:
		for i := 0; i < u.Len(); i++ {
			if carriesRefs1(u.At(i).Type(), seen) {
				return true
			}
		}
		return false
	}
	return true
}

func isPkgLevel(v *types.Var) bool {
	return v.Pkg() != nil && v.Parent() == v.Pkg().Scope()
}

func (a *analysis) typeOf(e ast.Expr) types.Type {
	tv, ok := a.cur.info.Types[e]
	if !ok {
		if id, ok := e.(*ast.Ident); ok {
			if o := a.cur.info.ObjectOf(id); o != nil {
				return o.Type()
			}
		}
		refuse(e.Pos(), "no type recorded for expression %s", exprStr(e))
	}
	return tv.Type
}

func deref(t types.Type) types.Type {
	if p, ok := t.Underlying().(*types.Pointer); ok {
		return p.Elem()
	}
	return t
}

func isStructVal(t types.Type) bool {
	_, ok := t.Underlying().(*types.Struct)
	return ok
}

// reaches: can SHARED be reached from the set through contents and struct fields?
func (a *analysis) reaches(s lset) bool {
	seen := lset{}
	var walk func(l int) bool
	var walkT func(t types.Type, depth int) bool
	walkSet := func(s lset) bool {
		for l := range s {
			if walk(l) {
				return true
			}
		}
		return false
	}
	walkT = func(t types.Type, depth int) bool {
		if t == nil || depth > 3 {
			return false
		}
		st, ok := deref(t).Underlying().(*types.Struct)
		if !ok {
			return false
		}
		for i := 0; i < st.NumFields(); i++ {
			f := st.Field(i)
			if !carriesRefs(f.Type()) {
				continue
			}
			if walkSet(a.varPts(f)) {
				return true
			}
			if isStructVal(f.Type()) && walkT(f.Type(), depth+1) {
				return true
			}
		}
		return false
	}
	walk = func(l int) bool {
		if l == locShared {
			return true
		}
		if seen[l] {
			return false
		}
		seen[l] = true
		if walkSet(a.node(nodeKey{loc: l, k: 'c'})) {
			return true
		}
		return walkT(a.locs[l].typ, 0)
	}
	return walkSet(s)
}

// filterByType keeps the locations that can have dynamic type t (a named in-scope struct or pointer to one).
func (a *analysis) filterByType(s lset, t types.Type) lset {
	nt, ok := deref(t).(*types.Named)
	if !ok || !a.pr.inScope(nt.Obj().Pkg()) {
		return s
	}
	if _, ok := nt.Underlying().(*types.Struct); !ok {
		return s
	}
	r := lset{}
	for l := range s {
		loc := a.locs[l]
		switch loc.kind {
		case "shared":
			if nt.Obj().Exported() {
				r[l] = true
			}
		case "alloc", "cell", "caller":
			lt, ok := deref(loc.typ).(*types.Named)
			if !ok {
				r[l] = true // slice / map / interface cell: keep (contents are read elsewhere)
				continue
			}
			if _, isStruct := lt.Underlying().(*types.Struct); !isStruct || types.Identical(lt, nt) || embeds(lt, nt) {
				r[l] = true
			}
		case "ext":
			// objects allocated by the standard library never have an in-scope struct type (reflect.New apart)
			if loc.fromReflect {
				r[l] = true
			}
		default:
			r[l] = true
		}
	}
	return r
}

func embeds(outer, inner *types.Named) bool {
	st, ok := outer.Underlying().(*types.Struct)
	if !ok {
		return false
	}
	for i := 0; i < st.NumFields(); i++ {
		f := st.Field(i)
		if f.Embedded() {
			if n, ok := deref(f.Type()).(*types.Named); ok && (types.Identical(n, inner) || embeds(n, inner)) {
				return true
			}
		}
	}
	return false
}

func (a *analysis) fieldRead(base lset, f *types.Var) lset {
	r := union(a.varPts(f))
	for l := range base {
		if l == locShared {
			r[locShared] = true
		} else if a.locs[l].kind == "ext" {
			r[l] = true
		}
	}
	if isStructVal(f.Type()) {
		r.addAll(base)
	}
	return r
}

func (a *analysis) contents(base lset) lset {
	r := lset{}
	for l := range base {
		r.addAll(a.contPts(l))
	}
	return r
}

// ownerDesc names the kind of memory a location stands for (used to classify write sites).
func (a *analysis) ownerDesc(l int) string {
	loc := a.locs[l]
	if loc.kind == "shared" {
		return "SHARED"
	}
	t := loc.typ
	if t == nil {
		return loc.kind
	}
	if n, ok := deref(t).(*types.Named); ok && a.pr.inScope(n.Obj().Pkg()) {
		if n.Obj().Pkg().Name() == "ast" {
			if _, ok := n.Underlying().(*types.Struct); ok {
				return "ast-node"
			}
		}
		return n.Obj().Pkg().Name() + "." + n.Obj().Name()
	}
	s := types.TypeString(t, func(p *types.Package) string { return p.Name() })
	if loc.kind == "cell" {
		return "local " + s
	}
	return s
}

func sortedKeys(m map[string]*site) []string {
	ks := make([]string, 0, len(m))
	for k := range m {
		ks = append(ks, k)
	}
	sort.Strings(ks)
	return ks
}

func flagStr(f int) string {
	var p []string
	if f&flagRun != 0 {
		p = append(p, "run")
	}
	if f&flagCompile != 0 {
		p = append(p, "compile")
	}
	if f&flagEval != 0 {
		p = append(p, "eval")
	}
	return strings.Join(p, "+")
}
