package main

// Gen/VMReset.lean and Gen/Budget.lean: the structural facts about (*VM).Run in vm/vm.go that the
// theorems of C07 (a reused VM behaves like a fresh one) and C06 (memory budget) consume.
//
// VMReset: the fields of `type VM struct`; the `vm.<field>` assigned on every path of the prologue of
// (*VM).Run (the statements before the dispatch loop) with the value class assigned; the fields the
// dispatch loop, the epilogue and the helper methods read / write.
// Budget: the three accounting sites OpRange / OpArray / OpMap (size expression, clamp, comparison,
// order of test and add), `MemoryBudget`, `makeRange`.
// Every shape that is not literally one of the recognised ones is refused.

import (
	"fmt"
	"go/ast"
	"go/token"
	"sort"
	"strings"
)

func normSrc(n ast.Node) string { return strings.Join(strings.Fields(exprStr(n)), " ") }

// vmField returns the field name when e is `<recv>.<field>` with field in the struct.
func vmField(e ast.Expr, recv string, fields map[string]bool) (string, bool) {
	se, ok := e.(*ast.SelectorExpr)
	if !ok {
		return "", false
	}
	id, ok := se.X.(*ast.Ident)
	if !ok || id.Name != recv {
		return "", false
	}
	if fields[se.Sel.Name] {
		return se.Sel.Name, true
	}
	return "", false
}

type rwSet struct {
	reads, writes, calls map[string]bool
}

func newRW() *rwSet {
	return &rwSet{map[string]bool{}, map[string]bool{}, map[string]bool{}}
}

// collectRW records which receiver fields a statement list reads / writes and which receiver methods it calls.
func collectRW(n ast.Node, recv string, fields map[string]bool, methods map[string]bool, rw *rwSet) {
	lhs := map[ast.Expr]bool{}
	ast.Inspect(n, func(x ast.Node) bool {
		switch v := x.(type) {
		case *ast.AssignStmt:
			for _, l := range v.Lhs {
				if f, ok := vmField(l, recv, fields); ok {
					rw.writes[f] = true
					if v.Tok == token.ASSIGN || v.Tok == token.DEFINE {
						lhs[l] = true // plain store: not a read
					} // op-assign (+=): read and write
				}
			}
		case *ast.IncDecStmt:
			if f, ok := vmField(v.X, recv, fields); ok {
				rw.writes[f] = true
			}
		case *ast.UnaryExpr:
			if v.Op == token.AND {
				if f, ok := vmField(v.X, recv, fields); ok {
					refuse(v.Pos(), "address of vm.%s taken: aliasing is outside the recognised shapes", f)
				}
			}
		case *ast.CallExpr:
			if se, ok := v.Fun.(*ast.SelectorExpr); ok {
				if id, ok := se.X.(*ast.Ident); ok && id.Name == recv && !fields[se.Sel.Name] {
					if !methods[se.Sel.Name] {
						refuse(v.Pos(), "call of unknown VM method %s", se.Sel.Name)
					}
					rw.calls[se.Sel.Name] = true
				}
			}
		case *ast.SelectorExpr:
			if f, ok := vmField(v, recv, fields); ok && !lhs[v] {
				rw.reads[f] = true
			}
		case *ast.Ident:
			_ = v
		}
		return true
	})
}

func vmSortedKeys(m map[string]bool) []string {
	var out []string
	for k := range m {
		out = append(out, k)
	}
	sort.Strings(out)
	return out
}

// inFieldOrder lists the members of set in struct declaration order
func inFieldOrder(order []string, set map[string]bool) []string {
	var out []string
	for _, f := range order {
		if set[f] {
			out = append(out, f)
		}
	}
	return out
}

type vmSource struct {
	file      *ast.File
	fieldList []string
	fields    map[string]bool
	methods   map[string]bool
	run       *ast.FuncDecl
	recv      string
	prologue  []ast.Stmt
	loop      *ast.ForStmt
	epilogue  []ast.Stmt
	deferred  ast.Stmt
	dispatch  *ast.SwitchStmt
}

func readVMSource() *vmSource {
	vs := &vmSource{fields: map[string]bool{}, methods: map[string]bool{}}
	f := parseFile("vm/vm.go")
	vs.file = f
	found := false
	for _, d := range f.Decls {
		switch v := d.(type) {
		case *ast.GenDecl:
			for _, sp := range v.Specs {
				ts, ok := sp.(*ast.TypeSpec)
				if !ok || ts.Name.Name != "VM" {
					continue
				}
				st, ok := ts.Type.(*ast.StructType)
				if !ok {
					refuse(ts.Pos(), "type VM is not a struct")
				}
				found = true
				for _, fl := range st.Fields.List {
					if len(fl.Names) == 0 {
						refuse(fl.Pos(), "embedded field in VM struct")
					}
					for _, n := range fl.Names {
						vs.fieldList = append(vs.fieldList, n.Name)
						vs.fields[n.Name] = true
					}
				}
			}
		case *ast.FuncDecl:
			if v.Recv != nil && len(v.Recv.List) == 1 && exprStr(v.Recv.List[0].Type) == "*VM" {
				vs.methods[v.Name.Name] = true
			}
		}
	}
	if !found {
		refuse(f.Pos(), "type VM struct not found in vm/vm.go")
	}
	vs.run = funcDecl(f, "*VM", "Run")
	if len(vs.run.Recv.List[0].Names) != 1 {
		refuse(vs.run.Pos(), "(*VM).Run: unnamed receiver")
	}
	vs.recv = vs.run.Recv.List[0].Names[0].Name
	// body = [defer recover] prologue… for-loop epilogue…
	loopAt := -1
	for i, st := range vs.run.Body.List {
		if fs, ok := st.(*ast.ForStmt); ok {
			if loopAt >= 0 {
				refuse(fs.Pos(), "(*VM).Run: a second top-level loop")
			}
			loopAt = i
			vs.loop = fs
		}
	}
	if loopAt < 0 {
		refuse(vs.run.Pos(), "(*VM).Run: dispatch loop not found")
	}
	want := fmt.Sprintf("%s.ip < len(%s.bytecode)", vs.recv, vs.recv)
	if vs.loop.Init != nil || vs.loop.Post != nil || vs.loop.Cond == nil || normSrc(vs.loop.Cond) != want {
		refuse(vs.loop.Pos(), "(*VM).Run: the loop is not `for %s`", want)
	}
	pro := vs.run.Body.List[:loopAt]
	if len(pro) > 0 {
		if ds, ok := pro[0].(*ast.DeferStmt); ok {
			vs.deferred = ds
			pro = pro[1:]
		}
	}
	vs.prologue = pro
	vs.epilogue = vs.run.Body.List[loopAt+1:]
	// the dispatch switch
	for _, st := range vs.loop.Body.List {
		if sw, ok := st.(*ast.SwitchStmt); ok && sw.Tag != nil && exprStr(sw.Tag) == "op" {
			if vs.dispatch != nil {
				refuse(sw.Pos(), "two `switch op` in the loop")
			}
			vs.dispatch = sw
		}
	}
	if vs.dispatch == nil {
		refuse(vs.loop.Pos(), "`switch op` not found in the dispatch loop")
	}
	return vs
}

// valueClass classifies what the prologue stores: refuses anything that could carry state of a previous run.
func (vs *vmSource) valueClass(field string, rhs ast.Expr) string {
	switch v := rhs.(type) {
	case *ast.BasicLit:
		return v.Value
	case *ast.Ident:
		if v.Name == "MemoryBudget" || v.Name == "nil" || v.Name == "false" || v.Name == "true" {
			return v.Name
		}
	case *ast.SelectorExpr:
		if id, ok := v.X.(*ast.Ident); ok && id.Name == "program" {
			return "program." + v.Sel.Name
		}
	case *ast.CallExpr:
		// make(T, 0, n): an empty slice
		if id, ok := v.Fun.(*ast.Ident); ok && id.Name == "make" && len(v.Args) >= 2 && exprStr(v.Args[1]) == "0" {
			return "empty"
		}
	case *ast.SliceExpr:
		// vm.f[0:0]: the same backing array, length 0
		if f, ok := vmField(v.X, vs.recv, vs.fields); ok && f == field && v.Low != nil && v.High != nil &&
			exprStr(v.Low) == "0" && exprStr(v.High) == "0" && v.Max == nil {
			return "empty"
		}
	}
	refuse(rhs.Pos(), "prologue of (*VM).Run: value stored into vm.%s not recognised: %s", field, exprStr(rhs))
	return ""
}

type proAssign struct {
	field, value, how string
}

// singleAssign recognises `vm.f = rhs` (exactly one target)
func (vs *vmSource) singleAssign(st ast.Stmt) (string, ast.Expr, bool) {
	as, ok := st.(*ast.AssignStmt)
	if !ok || as.Tok != token.ASSIGN || len(as.Lhs) != 1 || len(as.Rhs) != 1 {
		return "", nil, false
	}
	f, ok := vmField(as.Lhs[0], vs.recv, vs.fields)
	if !ok {
		return "", nil, false
	}
	return f, as.Rhs[0], true
}

func (vs *vmSource) prologueFacts() []proAssign {
	var out []proAssign
	for _, st := range vs.prologue {
		if f, rhs, ok := vs.singleAssign(st); ok {
			out = append(out, proAssign{f, vs.valueClass(f, rhs), "always"})
			continue
		}
		is, ok := st.(*ast.IfStmt)
		if !ok || is.Init != nil {
			refuse(st.Pos(), "prologue of (*VM).Run: statement is neither `vm.f = e` nor a recognised `if`: %s", normSrc(st))
		}
		cond, ok := is.Cond.(*ast.BinaryExpr)
		if !ok || exprStr(cond.Y) != "nil" || (cond.Op != token.EQL && cond.Op != token.NEQ) {
			refuse(is.Pos(), "prologue of (*VM).Run: condition is not `vm.f ==/!= nil`: %s", normSrc(is.Cond))
		}
		cf, ok := vmField(cond.X, vs.recv, vs.fields)
		if !ok {
			refuse(is.Pos(), "prologue of (*VM).Run: condition does not test a VM field: %s", normSrc(is.Cond))
		}
		if len(is.Body.List) != 1 {
			refuse(is.Pos(), "prologue of (*VM).Run: `if` body is not one assignment")
		}
		f1, rhs1, ok := vs.singleAssign(is.Body.List[0])
		if !ok || f1 != cf {
			refuse(is.Pos(), "prologue of (*VM).Run: `if` on vm.%s does not assign vm.%s", cf, cf)
		}
		v1 := vs.valueClass(f1, rhs1)
		switch els := is.Else.(type) {
		case nil:
			// `if vm.f != nil { vm.f = vm.f[0:0] }`: when the branch is not taken the field is nil, i.e. already empty
			if cond.Op != token.NEQ || v1 != "empty" {
				refuse(is.Pos(), "prologue of (*VM).Run: one-armed `if` is not `if vm.f != nil { vm.f = vm.f[0:0] }`")
			}
			out = append(out, proAssign{f1, "empty", "reslice-unless-nil"})
		case *ast.BlockStmt:
			if len(els.List) != 1 {
				refuse(els.Pos(), "prologue of (*VM).Run: `else` body is not one assignment")
			}
			f2, rhs2, ok := vs.singleAssign(els.List[0])
			if !ok || f2 != f1 {
				refuse(els.Pos(), "prologue of (*VM).Run: the two branches assign different fields")
			}
			v2 := vs.valueClass(f2, rhs2)
			if v1 != v2 {
				refuse(els.Pos(), "prologue of (*VM).Run: the two branches store different value classes into vm.%s (%s / %s)", f1, v1, v2)
			}
			out = append(out, proAssign{f1, v1, "both-branches"})
		default:
			refuse(is.Pos(), "prologue of (*VM).Run: else-if chain")
		}
	}
	return out
}

func genVMReset() string {
	vs := readVMSource()
	var sb strings.Builder
	sb.WriteString("/-! facts about `type VM struct` and `(*VM).Run` in vm/vm.go (C07) -/\nnamespace ExprModel.Gen.VMReset\n\n")
	fmt.Fprintf(&sb, "/-- fields of `type VM struct`, declaration order -/\ndef vmFields : List String := %s\n\n", leanStrList(vs.fieldList))
	pro := vs.prologueFacts()
	var assigned []string
	var rows []string
	seen := map[string]bool{}
	for _, a := range pro {
		if seen[a.field] {
			refuse(vs.run.Pos(), "prologue of (*VM).Run assigns vm.%s twice", a.field)
		}
		seen[a.field] = true
		assigned = append(assigned, a.field)
		rows = append(rows, fmt.Sprintf("(%s, %s, %s)", leanStr(a.field), leanStr(a.value), leanStr(a.how)))
	}
	fmt.Fprintf(&sb, "/-- `vm.<field>` assigned on every path through the statements of `Run` before the dispatch loop, in source order -/\n")
	fmt.Fprintf(&sb, "def prologueAssigned : List String := %s\n\n", leanStrList(assigned))
	fmt.Fprintf(&sb, "/-- (field, value class stored, how): value `empty` = `make(T, 0, n)` or `vm.f[0:0]`; how = always | both-branches | reslice-unless-nil -/\n")
	fmt.Fprintf(&sb, "def prologueStores : List (String × String × String) := [\n  %s]\n\n", strings.Join(rows, ",\n  "))

	// reads / writes
	rwLoop := newRW()
	collectRW(vs.loop, vs.recv, vs.fields, vs.methods, rwLoop)
	rwEpi := newRW()
	for _, st := range vs.epilogue {
		collectRW(st, vs.recv, vs.fields, vs.methods, rwEpi)
	}
	if vs.deferred != nil {
		collectRW(vs.deferred, vs.recv, vs.fields, vs.methods, rwEpi)
	}
	// the helper methods of *VM: the six the loop has always used plus every other method of *VM (declared in
	// vm.go) that the loop, the epilogue or a helper calls — found by a work list, so that extracting a piece
	// of the loop into a new method (`vm.popArgs`, …) is analysed like the code it replaces instead of refused
	helperNames := []string{"push", "pop", "current", "arg", "constant", "Scope"}
	helperRW := map[string]*rwSet{}
	analyse := func(h string, where string) {
		fd := optFuncDeclRecv(vs.file, "*VM", h)
		if fd == nil {
			refuse(vs.run.Pos(), "%s calls (*VM).%s, which is not declared in vm/vm.go", where, h)
		}
		if len(fd.Recv.List[0].Names) != 1 {
			refuse(fd.Pos(), "(*VM).%s: unnamed receiver", h)
		}
		if fd.Body == nil {
			refuse(fd.Pos(), "(*VM).%s: no body", h)
		}
		rw := newRW()
		collectRW(fd.Body, fd.Recv.List[0].Names[0].Name, vs.fields, vs.methods, rw)
		helperRW[h] = rw
	}
	for _, h := range helperNames {
		analyse(h, "the dispatch loop")
	}
	var work []string
	enqueue := func(rw *rwSet) {
		for _, m := range vmSortedKeys(rw.calls) {
			if helperRW[m] == nil && m != "Run" {
				work = append(work, m)
			}
		}
	}
	enqueue(rwLoop)
	enqueue(rwEpi)
	for _, h := range helperNames {
		enqueue(helperRW[h])
	}
	for len(work) > 0 {
		m := work[0]
		work = work[1:]
		if helperRW[m] != nil {
			continue
		}
		analyse(m, "the dispatch loop (or a helper)")
		helperNames = append(helperNames, m)
		enqueue(helperRW[m])
	}
	// methods called from the loop / epilogue must be among the analysed helpers
	check := func(rw *rwSet, where string) {
		for m := range rw.calls {
			if helperRW[m] == nil {
				refuse(vs.run.Pos(), "%s calls (*VM).%s which is not among the analysed helpers", where, m)
			}
		}
	}
	check(rwLoop, "the dispatch loop")
	check(rwEpi, "the epilogue of Run")
	for h, rw := range helperRW {
		check(rw, "(*VM)."+h)
	}
	// transitive closure over helper calls
	closure := func(rw *rwSet) (map[string]bool, map[string]bool) {
		reads, writes := map[string]bool{}, map[string]bool{}
		done := map[string]bool{}
		var visit func(r *rwSet)
		visit = func(r *rwSet) {
			for f := range r.reads {
				reads[f] = true
			}
			for f := range r.writes {
				writes[f] = true
			}
			for m := range r.calls {
				if !done[m] {
					done[m] = true
					visit(helperRW[m])
				}
			}
		}
		visit(rw)
		return reads, writes
	}
	lr, lw := closure(rwLoop)
	er, ew := closure(rwEpi)
	fmt.Fprintf(&sb, "/-- fields read by the dispatch loop (condition and body), helper methods included -/\ndef loopReads : List String := %s\n", leanStrList(inFieldOrder(vs.fieldList, lr)))
	fmt.Fprintf(&sb, "def loopWrites : List String := %s\n\n", leanStrList(inFieldOrder(vs.fieldList, lw)))
	fmt.Fprintf(&sb, "/-- fields read after the loop and by the deferred recover -/\ndef epilogueReads : List String := %s\n", leanStrList(inFieldOrder(vs.fieldList, er)))
	fmt.Fprintf(&sb, "def epilogueWrites : List String := %s\n\n", leanStrList(inFieldOrder(vs.fieldList, ew)))
	var hr, hw []string
	for _, h := range helperNames {
		hr = append(hr, fmt.Sprintf("(%s, %s)", leanStr(h), leanStrList(inFieldOrder(vs.fieldList, helperRW[h].reads))))
		hw = append(hw, fmt.Sprintf("(%s, %s)", leanStr(h), leanStrList(inFieldOrder(vs.fieldList, helperRW[h].writes))))
	}
	fmt.Fprintf(&sb, "/-- direct field reads / writes of the helper methods -/\ndef helperReads : List (String × List String) := [\n  %s]\n", strings.Join(hr, ",\n  "))
	fmt.Fprintf(&sb, "def helperWrites : List (String × List String) := [\n  %s]\n\n", strings.Join(hw, ",\n  "))
	fmt.Fprintf(&sb, "/-- methods of *VM the loop or the epilogue call -/\ndef loopCalls : List String := %s\n\n", leanStrList(vmSortedKeys(func() map[string]bool {
		m := map[string]bool{}
		for k := range rwLoop.calls {
			m[k] = true
		}
		for k := range rwEpi.calls {
			m[k] = true
		}
		return m
	}())))
	// fields guarded by `vm.debug` only: the debugger's channels
	sb.WriteString("end ExprModel.Gen.VMReset\n")
	return sb.String()
}

// ---------------------------------------------------------------------------------------------

type budgetSite struct {
	op, body, sizeExpr, clamp                  string
	clamped                                    bool
	testLhs, testOp, testRhs, addStmt, failMsg string
	testBeforeAdd, pushBeforeTest              bool
	guardMsg                                   string
	overflowGuard                              bool // OpRange: `size < 1` after `size = max - min + 1` under `max >= min` panics with the budget message
}

func isPanicBudget(st ast.Stmt) (string, bool) {
	es, ok := st.(*ast.ExprStmt)
	if !ok {
		return "", false
	}
	ce, ok := es.X.(*ast.CallExpr)
	if !ok || exprStr(ce.Fun) != "panic" || len(ce.Args) != 1 {
		return "", false
	}
	bl, ok := ce.Args[0].(*ast.BasicLit)
	if !ok || bl.Kind != token.STRING {
		return "", false
	}
	return strings.Trim(bl.Value, "\""), true
}

func mentions(n ast.Node, what string) bool {
	found := false
	ast.Inspect(n, func(x ast.Node) bool {
		if x != nil {
			if e, ok := x.(ast.Expr); ok && exprStr(e) == what {
				found = true
			}
		}
		return !found
	})
	return found
}

func (vs *vmSource) budgetSite(op string) budgetSite {
	var cc *ast.CaseClause
	for _, c := range vs.dispatch.Body.List {
		k := c.(*ast.CaseClause)
		for _, e := range k.List {
			if exprStr(e) == op {
				if len(k.List) != 1 {
					refuse(k.Pos(), "case %s shares its body with other opcodes", op)
				}
				cc = k
			}
		}
	}
	if cc == nil {
		refuse(vs.dispatch.Pos(), "case %s not found in the dispatch switch", op)
	}
	mem := vs.recv + ".memory"
	lim := vs.recv + ".limit"
	site := budgetSite{op: op}
	var parts []string
	for _, st := range cc.Body {
		parts = append(parts, normSrc(st))
	}
	site.body = strings.Join(parts, "; ")
	testAt, addAt, pushAt, sizeAt, clampAt := -1, -1, -1, -1, -1
	zeroInit := false // `size := 0` followed by `if max >= min { size = max - min + 1 … }`
	for i, st := range cc.Body {
		switch v := st.(type) {
		case *ast.AssignStmt:
			if len(v.Lhs) == 1 && exprStr(v.Lhs[0]) == "size" && v.Tok == token.DEFINE {
				if sizeAt >= 0 {
					refuse(v.Pos(), "%s: `size` defined twice", op)
				}
				sizeAt = i
				site.sizeExpr = normSrc(v.Rhs[0])
				zeroInit = site.sizeExpr == "0"
				continue
			}
			if len(v.Lhs) == 1 && exprStr(v.Lhs[0]) == mem {
				if addAt >= 0 {
					refuse(v.Pos(), "%s: vm.memory assigned twice", op)
				}
				if v.Tok != token.ADD_ASSIGN || exprStr(v.Rhs[0]) != "size" {
					refuse(v.Pos(), "%s: accounting statement is not `vm.memory += size`: %s", op, normSrc(v))
				}
				addAt = i
				site.addStmt = normSrc(v)
				continue
			}
			if len(v.Lhs) == 1 && exprStr(v.Lhs[0]) == "size" {
				refuse(v.Pos(), "%s: `size` reassigned outside a recognised clamp: %s", op, normSrc(v))
			}
		case *ast.IfStmt:
			if mentions(v.Cond, mem) || mentions(v.Cond, lim) {
				if testAt >= 0 {
					refuse(v.Pos(), "%s: two budget tests", op)
				}
				be, ok := v.Cond.(*ast.BinaryExpr)
				if !ok || v.Init != nil || v.Else != nil || len(v.Body.List) != 1 {
					refuse(v.Pos(), "%s: budget test shape: %s", op, normSrc(v))
				}
				msg, ok := isPanicBudget(v.Body.List[0])
				if !ok {
					refuse(v.Pos(), "%s: budget test does not panic with a string literal", op)
				}
				switch be.Op {
				case token.GEQ, token.GTR, token.LEQ, token.LSS, token.EQL, token.NEQ:
				default:
					refuse(be.Pos(), "%s: budget test operator %s", op, be.Op)
				}
				testAt = i
				site.testLhs = strings.ReplaceAll(normSrc(be.X), " ", "")
				site.testOp = be.Op.String()
				site.testRhs = strings.ReplaceAll(normSrc(be.Y), " ", "")
				site.failMsg = msg
				continue
			}
			if mentions(v.Cond, "size") || mentions(v.Body, "size") {
				// clamp: `if size < 0 { size = 0 }` or `if size <= 0 { size = 0 }` or `if max < min { size = 0 }`
				if clampAt >= 0 {
					refuse(v.Pos(), "%s: two statements adjust `size`", op)
				}
				c := strings.ReplaceAll(normSrc(v.Cond), " ", "")
				if zeroInit {
					// `size := 0; if max >= min { size = max - min + 1; [if size < 1 { panic("…") }] }`:
					// zero for descending and empty ranges, the number of elements otherwise (clamped by construction)
					if !(c == "max>=min" || c == "min<=max") || v.Init != nil || v.Else != nil || len(v.Body.List) < 1 || len(v.Body.List) > 2 {
						refuse(v.Pos(), "%s: after `size := 0` the statement computing `size` is not `if max >= min { size = … }`: %s", op, normSrc(v))
					}
					as, ok := v.Body.List[0].(*ast.AssignStmt)
					if !ok || as.Tok != token.ASSIGN || len(as.Lhs) != 1 || exprStr(as.Lhs[0]) != "size" || len(as.Rhs) != 1 {
						refuse(v.Pos(), "%s: first statement under `max >= min` is not `size = <expr>`", op)
					}
					site.sizeExpr = normSrc(as.Rhs[0])
					if len(v.Body.List) == 2 {
						g, ok := v.Body.List[1].(*ast.IfStmt)
						if !ok || g.Init != nil || g.Else != nil || len(g.Body.List) != 1 {
							refuse(v.Pos(), "%s: second statement under `max >= min` is not an overflow guard", op)
						}
						gc := strings.ReplaceAll(normSrc(g.Cond), " ", "")
						msg, isPanic := isPanicBudget(g.Body.List[0])
						if !(gc == "size<1" || gc == "size<=0" || gc == "1>size" || gc == "0>=size") || !isPanic {
							refuse(g.Pos(), "%s: overflow guard is not `if size < 1 { panic(\"…\") }`: %s", op, normSrc(g))
						}
						site.guardMsg = msg
						site.overflowGuard = true
					}
					clampAt = i
					site.clamp = "size := 0; " + normSrc(v)
					continue
				}
				okCond := c == "size<0" || c == "size<=0" || c == "0>size" || c == "0>=size" || c == "max<min" || c == "min>max"
				okBody := v.Init == nil && v.Else == nil && len(v.Body.List) == 1 && normSrc(v.Body.List[0]) == "size = 0"
				if !okCond || !okBody {
					refuse(v.Pos(), "%s: statement adjusting `size` is not a recognised clamp at zero: %s", op, normSrc(v))
				}
				clampAt = i
				site.clamp = normSrc(v)
				continue
			}
		case *ast.ExprStmt:
			if ce, ok := v.X.(*ast.CallExpr); ok && exprStr(ce.Fun) == vs.recv+".push" {
				if pushAt >= 0 {
					refuse(v.Pos(), "%s: two pushes", op)
				}
				pushAt = i
				continue
			}
		}
		if mentions(st, mem) || mentions(st, lim) {
			refuse(st.Pos(), "%s: unrecognised statement touching the budget: %s", op, normSrc(st))
		}
	}
	if sizeAt < 0 || testAt < 0 || addAt < 0 || pushAt < 0 {
		refuse(cc.Pos(), "%s: size definition / budget test / `vm.memory += size` / push not all present", op)
	}
	if sizeAt > testAt || sizeAt > addAt {
		refuse(cc.Pos(), "%s: `size` defined after it is used", op)
	}
	if zeroInit && clampAt < 0 {
		refuse(cc.Pos(), "%s: `size := 0` is never given a value", op)
	}
	if site.overflowGuard && site.guardMsg != site.failMsg {
		refuse(cc.Pos(), "%s: the overflow guard panics with %q, the budget test with %q", op, site.guardMsg, site.failMsg)
	}
	if clampAt >= 0 {
		if !(sizeAt < clampAt && clampAt < testAt && clampAt < addAt) {
			refuse(cc.Pos(), "%s: the clamp of `size` does not precede both the budget test and the accounting", op)
		}
		site.clamped = true
	}
	site.testBeforeAdd = testAt < addAt
	site.pushBeforeTest = pushAt < testAt
	return site
}

func vmLeanBool(b bool) string {
	if b {
		return "true"
	}
	return "false"
}

func genBudget() string {
	vs := readVMSource()
	var sb strings.Builder
	sb.WriteString("/-! the memory-budget accounting of (*VM).Run in vm/vm.go and `makeRange` in vm/runtime.go (C06) -/\nnamespace ExprModel.Gen.Budget\n\n")
	sb.WriteString(`structure Site where
  op : String
  /-- normalised source text of the case body -/
  body : String
  /-- how the local 'size' is computed -/
  sizeExpr : String
  /-- 'size' is clamped at zero before the budget test and the accounting statement -/
  clamped : Bool
  clamp : String
  testLhs : String
  testOp : String
  testRhs : String
  failMsg : String
  /-- the accounting statement -/
  addStmt : String
  /-- the budget test precedes 'vm.memory += size' (refuse before counting) or follows it -/
  testBeforeAdd : Bool
  /-- the collection is pushed before the budget test -/
  pushBeforeTest : Bool
  /-- OpRange only: a size 'max - min + 1' that does not fit an int (< 1 although max >= min) panics with the budget message -/
  overflowGuard : Bool
  deriving DecidableEq, Repr

`)
	// MemoryBudget
	def := ""
	for _, d := range vs.file.Decls {
		gd, ok := d.(*ast.GenDecl)
		if !ok || gd.Tok != token.VAR {
			continue
		}
		for _, sp := range gd.Specs {
			v := sp.(*ast.ValueSpec)
			for i, n := range v.Names {
				if n.Name == "MemoryBudget" {
					if len(v.Values) <= i || exprStr(v.Type) != "int" {
						refuse(v.Pos(), "MemoryBudget: not `MemoryBudget int = <literal>`")
					}
					bl, ok := v.Values[i].(*ast.BasicLit)
					if !ok {
						refuse(v.Pos(), "MemoryBudget: initialiser is not a literal")
					}
					def = bl.Value
				}
			}
		}
	}
	if def == "" {
		refuse(vs.file.Pos(), "var MemoryBudget not found")
	}
	num := map[string]string{"1e6": "1000000", "1000000": "1000000", "1_000_000": "1000000"}[def]
	if num == "" {
		refuse(vs.file.Pos(), "MemoryBudget default %s: literal form not recognised", def)
	}
	fmt.Fprintf(&sb, "def memoryBudgetLiteral : String := %s\ndef memoryBudgetDefault : Int := %s\n\n", leanStr(def), num)
	// limit initialisation
	limInit := ""
	for _, a := range vs.prologueFacts() {
		if a.field == "limit" {
			limInit = a.value
		}
	}
	fmt.Fprintf(&sb, "/-- what the prologue of Run stores into vm.limit (empty: not assigned) -/\ndef limitInit : String := %s\n\n", leanStr(limInit))
	// the sites
	names := map[string]string{"OpRange": "rangeSite", "OpArray": "arraySite", "OpMap": "mapSite"}
	for _, op := range []string{"OpRange", "OpArray", "OpMap"} {
		s := vs.budgetSite(op)
		fmt.Fprintf(&sb, "def %s : Site :=\n  { op := %s\n    body := %s\n    sizeExpr := %s\n    clamped := %s\n    clamp := %s\n    testLhs := %s\n    testOp := %s\n    testRhs := %s\n    failMsg := %s\n    addStmt := %s\n    testBeforeAdd := %s\n    pushBeforeTest := %s\n    overflowGuard := %s }\n\n",
			names[op], leanStr(s.op), leanStr(s.body), leanStr(s.sizeExpr), vmLeanBool(s.clamped), leanStr(s.clamp), leanStr(s.testLhs), leanStr(s.testOp),
			leanStr(s.testRhs), leanStr(s.failMsg), leanStr(s.addStmt), vmLeanBool(s.testBeforeAdd), vmLeanBool(s.pushBeforeTest), vmLeanBool(s.overflowGuard))
	}
	// every case of the dispatch switch that mentions vm.memory / vm.limit
	var touching []string
	for _, c := range vs.dispatch.Body.List {
		k := c.(*ast.CaseClause)
		hit := false
		for _, st := range k.Body {
			if mentions(st, vs.recv+".memory") || mentions(st, vs.recv+".limit") {
				hit = true
			}
		}
		if hit {
			if k.List == nil {
				refuse(k.Pos(), "the default case touches the budget")
			}
			for _, e := range k.List {
				touching = append(touching, exprStr(e))
			}
		}
	}
	fmt.Fprintf(&sb, "/-- the cases of the dispatch switch whose body mentions vm.memory or vm.limit -/\ndef casesTouchingBudget : List String := %s\n\n", leanStrList(touching))
	// outside the switch, the loop must not touch memory / limit
	for _, st := range vs.loop.Body.List {
		if st == ast.Stmt(vs.dispatch) {
			continue
		}
		if mentions(st, vs.recv+".memory") || mentions(st, vs.recv+".limit") {
			refuse(st.Pos(), "the dispatch loop touches the budget outside `switch op`: %s", normSrc(st))
		}
	}
	for _, st := range vs.epilogue {
		if mentions(st, vs.recv+".memory") || mentions(st, vs.recv+".limit") {
			refuse(st.Pos(), "the epilogue of Run touches the budget: %s", normSrc(st))
		}
	}
	// makeRange
	rf := parseFile("vm/runtime.go")
	mr := funcDecl(rf, "", "makeRange")
	fmt.Fprintf(&sb, "def makeRangeSig : String := %s\ndef makeRangeBody : String := %s\n\n", leanStr(normSrc(mr.Type)), leanStr(normSrc(mr.Body)))
	// the range case must build with makeRange(min, max) from toInt of the popped operands
	rs := vs.budgetSite("OpRange")
	if !strings.Contains(rs.body, "vm.push(makeRange(min, max))") || !strings.Contains(rs.body, "min := toInt(a)") || !strings.Contains(rs.body, "max := toInt(b)") {
		refuse(vs.dispatch.Pos(), "OpRange: operands / makeRange call not in the recognised form")
	}
	fmt.Fprintf(&sb, "/-- OpRange refuses a range whose size does not fit an int (the model computes sizes in unbounded integers) -/\ndef rangeOverflowGuard : Bool := %s\n\n", vmLeanBool(rs.overflowGuard))
	sb.WriteString("end ExprModel.Gen.Budget\n")
	return sb.String()
}

func init() {
	register("VMReset", genVMReset)
	register("Budget", genBudget)
}

// optFuncDeclRecv returns the declaration of method name with receiver type recv in f, or nil.
func optFuncDeclRecv(f *ast.File, recv, name string) *ast.FuncDecl {
	for _, d := range f.Decls {
		fd, ok := d.(*ast.FuncDecl)
		if !ok || fd.Name.Name != name || fd.Recv == nil || len(fd.Recv.List) != 1 {
			continue
		}
		if exprStr(fd.Recv.List[0].Type) == recv {
			return fd
		}
	}
	return nil
}
