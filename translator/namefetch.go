package main

// Gen/NameFetch.lean: the shapes in vm/runtime.go (fetch, FetchFn, derefFn) and checker/checker.go
// (IdentifierNode) that decide five switches of the name-resolution model (Types/Table.lean `NDefects`):
//
//	fetch:          are pointers stripped by a loop (`for kind == reflect.Ptr`) or once (`if …`)?
//	FetchFn:        in the Map and in the Struct branch — is an interface-kinded value unwrapped
//	                (`if value.Kind() == reflect.Interface { value = value.Elem() }`), and is the value
//	                returned as it is (`return value`) or through `derefFn(value)`?
//	derefFn:        which kinds its loop follows (reflect.Ptr, reflect.Interface)
//	IdentifierNode: is a method of the environment rejected as a plain identifier (`if t.Method { return v.error(…) }`)?
//
// Every shape that is not literally one of the recognised ones is refused.

import (
	"fmt"
	"go/ast"
	"go/token"
	"strings"
)

func findFunc(f *ast.File, name string) *ast.FuncDecl {
	for _, d := range f.Decls {
		if fd, ok := d.(*ast.FuncDecl); ok && fd.Name.Name == name && fd.Recv == nil {
			return fd
		}
	}
	return nil
}

// fetchFnBranch inspects one `case reflect.X:` body of FetchFn's `switch d.Kind()`.
func fetchFnBranch(cc *ast.CaseClause, what string) (unwraps bool, ret string) {
	// the `if value.IsValid() …` block
	var block *ast.BlockStmt
	for _, st := range cc.Body {
		if is, ok := st.(*ast.IfStmt); ok && strings.HasPrefix(normSrc(is.Cond), "value.IsValid()") {
			if block != nil {
				refuse(is.Pos(), "FetchFn %s branch: two `if value.IsValid()` blocks", what)
			}
			block = is.Body
		}
	}
	if block == nil {
		refuse(cc.Pos(), "FetchFn %s branch: no `if value.IsValid()` block", what)
	}
	for _, st := range block.List {
		switch v := st.(type) {
		case *ast.IfStmt:
			if normSrc(v.Cond) == "value.Kind() == reflect.Interface" && v.Else == nil && len(v.Body.List) == 1 &&
				normSrc(v.Body.List[0]) == "value = value.Elem()" {
				unwraps = true
			} else {
				refuse(v.Pos(), "FetchFn %s branch: unrecognised conditional `%s`", what, normSrc(v.Cond))
			}
		case *ast.ReturnStmt:
			if len(v.Results) != 1 {
				refuse(v.Pos(), "FetchFn %s branch: return with %d results", what, len(v.Results))
			}
			ret = normSrc(v.Results[0])
			if ret != "value" && ret != "derefFn(value)" {
				refuse(v.Pos(), "FetchFn %s branch: unrecognised result `%s`", what, ret)
			}
		default:
			refuse(st.Pos(), "FetchFn %s branch: unrecognised statement `%s`", what, normSrc(st))
		}
	}
	if ret == "" {
		refuse(block.Pos(), "FetchFn %s branch: the block does not return", what)
	}
	return
}

func genNameFetch() string {
	rt := parseFile("vm/runtime.go")

	// ---- fetch
	fetch := findFunc(rt, "fetch")
	if fetch == nil {
		refuse(rt.Pos(), "vm/runtime.go: func fetch not found")
	}
	derefLoop, seen := false, false
	for _, st := range fetch.Body.List {
		switch v := st.(type) {
		case *ast.ForStmt:
			if v.Init == nil && v.Post == nil && v.Cond != nil && normSrc(v.Cond) == "kind == reflect.Ptr" {
				derefLoop, seen = true, true
			}
		case *ast.IfStmt:
			if normSrc(v.Cond) == "kind == reflect.Ptr" {
				derefLoop, seen = false, true
			}
		}
		if seen {
			break
		}
	}
	if !seen {
		refuse(fetch.Pos(), "fetch: no `for/if kind == reflect.Ptr` before the switch")
	}

	// ---- FetchFn
	ff := findFunc(rt, "FetchFn")
	if ff == nil {
		refuse(rt.Pos(), "vm/runtime.go: func FetchFn not found")
	}
	var sw *ast.SwitchStmt
	for _, st := range ff.Body.List {
		if s, ok := st.(*ast.SwitchStmt); ok && s.Tag != nil && normSrc(s.Tag) == "d.Kind()" {
			sw = s
		}
	}
	if sw == nil {
		refuse(ff.Pos(), "FetchFn: no `switch d.Kind()`")
	}
	var mapUnwraps, structUnwraps bool
	var mapRet, structRet string
	for _, st := range sw.Body.List {
		cc := st.(*ast.CaseClause)
		if len(cc.List) != 1 {
			refuse(cc.Pos(), "FetchFn: case with %d alternatives", len(cc.List))
		}
		switch normSrc(cc.List[0]) {
		case "reflect.Map":
			mapUnwraps, mapRet = fetchFnBranch(cc, "Map")
		case "reflect.Struct":
			structUnwraps, structRet = fetchFnBranch(cc, "Struct")
		default:
			refuse(cc.Pos(), "FetchFn: unexpected case %s", normSrc(cc.List[0]))
		}
	}
	if mapRet == "" || structRet == "" {
		refuse(sw.Pos(), "FetchFn: Map or Struct branch missing")
	}

	// ---- derefFn
	followsPtr, followsIface := false, false
	if df := findFunc(rt, "derefFn"); df != nil {
		if len(df.Body.List) != 2 {
			refuse(df.Pos(), "derefFn: expected a loop and a return")
		}
		loop, ok := df.Body.List[0].(*ast.ForStmt)
		if !ok || loop.Init != nil || loop.Post != nil || loop.Cond == nil || len(loop.Body.List) != 1 ||
			normSrc(loop.Body.List[0]) != "value = value.Elem()" || normSrc(df.Body.List[1]) != "return value" {
			refuse(df.Pos(), "derefFn: unrecognised body")
		}
		switch normSrc(loop.Cond) {
		case "value.Kind() == reflect.Ptr && !value.IsNil()":
			followsPtr = true
		case "(value.Kind() == reflect.Ptr || value.Kind() == reflect.Interface) && !value.IsNil()":
			followsPtr, followsIface = true, true
		default:
			refuse(loop.Pos(), "derefFn: unrecognised loop condition `%s`", normSrc(loop.Cond))
		}
	} else if mapRet != "value" || structRet != "value" {
		refuse(ff.Pos(), "FetchFn returns through derefFn, but func derefFn is not declared")
	}

	// ---- IdentifierNode
	ck := parseFile("checker/checker.go")
	in := funcDecl(ck, "*visitor", "IdentifierNode")
	rejectsMethod := false
	found := false
	ast.Inspect(in.Body, func(n ast.Node) bool {
		is, ok := n.(*ast.IfStmt)
		if !ok || is.Init == nil || normSrc(is.Init) != "t, ok := v.types[node.Value]" {
			return true
		}
		found = true
		n0 := len(is.Body.List)
		if n0 == 0 || normSrc(is.Body.List[n0-1]) != "return t.Type" {
			refuse(is.Pos(), "IdentifierNode: the table-hit block does not end with `return t.Type`")
		}
		for _, st := range is.Body.List[:n0-1] {
			inner, ok := st.(*ast.IfStmt)
			if !ok || inner.Else != nil || len(inner.Body.List) != 1 {
				refuse(st.Pos(), "IdentifierNode: unrecognised statement `%s`", normSrc(st))
			}
			ret, ok := inner.Body.List[0].(*ast.ReturnStmt)
			if !ok || len(ret.Results) != 1 || !strings.HasPrefix(normSrc(ret.Results[0]), "v.error(") {
				refuse(inner.Pos(), "IdentifierNode: a guard that does not return an error")
			}
			switch normSrc(inner.Cond) {
			case "t.Ambiguous":
			case "t.Method":
				rejectsMethod = true
			default:
				refuse(inner.Pos(), "IdentifierNode: unrecognised guard `%s`", normSrc(inner.Cond))
			}
		}
		return false
	})
	if !found {
		refuse(in.Pos(), "IdentifierNode: no `if t, ok := v.types[node.Value]; ok` block")
	}

	var b strings.Builder
	b.WriteString("/-! facts about fetch / FetchFn / derefFn in vm/runtime.go and IdentifierNode in checker/checker.go (C16, C03) -/\n")
	b.WriteString("namespace ExprModel.Gen.NameFetch\n\n")
	lb := func(v bool) string {
		if v {
			return "true"
		}
		return "false"
	}
	fmt.Fprintf(&b, "/-- `fetch` strips pointers with a loop (`for kind == reflect.Ptr`), not once -/\ndef fetchDerefLoop : Bool := %s\n\n", lb(derefLoop))
	fmt.Fprintf(&b, "/-- FetchFn, Map / Struct branch: an interface-kinded value is unwrapped before it is returned -/\ndef fetchFnMapUnwrapsIface : Bool := %s\ndef fetchFnStructUnwrapsIface : Bool := %s\n\n", lb(mapUnwraps), lb(structUnwraps))
	fmt.Fprintf(&b, "/-- FetchFn, Map / Struct branch: what is returned (`value` or `derefFn(value)`) -/\ndef fetchFnMapReturn : String := %s\ndef fetchFnStructReturn : String := %s\n\n", leanStr(mapRet), leanStr(structRet))
	fmt.Fprintf(&b, "/-- the kinds `derefFn`'s loop follows (both false when there is no `derefFn`) -/\ndef derefFnFollowsPtr : Bool := %s\ndef derefFnFollowsIface : Bool := %s\n\n", lb(followsPtr), lb(followsIface))
	fmt.Fprintf(&b, "/-- IdentifierNode reports a method of the environment used as a plain identifier -/\ndef identRejectsMethod : Bool := %s\n\n", lb(rejectsMethod))
	b.WriteString("end ExprModel.Gen.NameFetch\n")
	_ = token.NoPos
	return b.String()
}

func init() { register("NameFetch", genNameFetch) }
