package main

import (
	"fmt"
	"go/ast"
	"go/token"
	"sort"
	"strings"
)

// Gen/AstShape.lean: the node structs of ast/node.go (their Node / []Node fields), the dispatch lists of
// checker.visit and compiler.compile, ast.Patch, the call sequence of expr.Compile.
// Gen/Walk.lean: the cases of walker.walk (ast/visitor.go): child-walk targets in order, Enter first,
// Exit last, the switch re-reads *node; compiler/patcher.go (operatorPatcher, PatchOperators);
// conf.FindSuitableOperatorOverload and the operator loop of Config.Check.

var nodeKinds = []string{
	"NilNode", "IdentifierNode", "IntegerNode", "FloatNode", "BoolNode", "StringNode", "ConstantNode",
	"UnaryNode", "BinaryNode", "MatchesNode", "PropertyNode", "IndexNode", "SliceNode", "MethodNode",
	"FunctionNode", "BuiltinNode", "ClosureNode", "PointerNode", "ConditionalNode", "ArrayNode", "MapNode",
	"PairNode",
}

var nodeFieldNames = []string{
	"Node", "Left", "Right", "Index", "From", "To", "Arguments", "Cond", "Exp1", "Exp2", "Nodes", "Pairs", "Key", "Value",
}

func isNodeKind(s string) bool {
	for _, k := range nodeKinds {
		if k == s {
			return true
		}
	}
	return false
}

func leanField(pos token.Pos, s string) string {
	for _, k := range nodeFieldNames {
		if k == s {
			return ".f" + s
		}
	}
	refuse(pos, "child field %s is not known to the model (ExprModel.NField)", s)
	return ""
}

func norm(n ast.Node) string {
	if fl, ok := n.(*ast.FieldList); ok {
		var ps []string
		for _, f := range fl.List {
			var ns []string
			for _, nm := range f.Names {
				ns = append(ns, nm.Name)
			}
			ps = append(ps, strings.TrimSpace(strings.Join(ns, ", ")+" "+exprStr(f.Type)))
		}
		return "(" + strings.Join(ps, ", ") + ")"
	}
	return strings.Join(strings.Fields(exprStr(n)), " ")
}

type nodeField struct {
	name   string
	isList bool
}

// nodeStructs reads ast/node.go: every struct type embedding `base`, with its Node / []Node fields in order.
func nodeStructs() ([]string, map[string][]nodeField) {
	f := parseFile("ast/node.go")
	var order []string
	fields := map[string][]nodeField{}
	for _, d := range f.Decls {
		gd, ok := d.(*ast.GenDecl)
		if !ok || gd.Tok != token.TYPE {
			continue
		}
		for _, sp := range gd.Specs {
			ts := sp.(*ast.TypeSpec)
			st, ok := ts.Type.(*ast.StructType)
			if !ok {
				if ts.Name.Name == "Node" {
					if _, ok := ts.Type.(*ast.InterfaceType); ok {
						continue
					}
				}
				refuse(ts.Pos(), "unexpected type declaration %s in ast/node.go", ts.Name.Name)
			}
			if ts.Name.Name == "base" {
				continue
			}
			embedsBase := false
			var fs []nodeField
			for _, fl := range st.Fields.List {
				t := exprStr(fl.Type)
				if len(fl.Names) == 0 {
					if t == "base" {
						embedsBase = true
						continue
					}
					refuse(fl.Pos(), "struct %s embeds %s", ts.Name.Name, t)
				}
				switch t {
				case "Node":
					for _, nm := range fl.Names {
						fs = append(fs, nodeField{nm.Name, false})
					}
				case "[]Node":
					for _, nm := range fl.Names {
						fs = append(fs, nodeField{nm.Name, true})
					}
				default:
					if strings.Contains(t, "Node") {
						refuse(fl.Pos(), "struct %s: field of type %s holds nodes in a shape the walker model does not know", ts.Name.Name, t)
					}
				}
			}
			if !embedsBase {
				refuse(ts.Pos(), "struct %s in ast/node.go does not embed base", ts.Name.Name)
			}
			if !isNodeKind(ts.Name.Name) {
				refuse(ts.Pos(), "node struct %s is not known to the model (ExprModel.NK)", ts.Name.Name)
			}
			order = append(order, ts.Name.Name)
			fields[ts.Name.Name] = fs
		}
	}
	for _, k := range nodeKinds {
		if _, ok := fields[k]; !ok {
			refuse(f.Pos(), "node struct %s missing from ast/node.go", k)
		}
	}
	return order, fields
}

// dispatchKinds reads a `switch n := node.(type)` with one `*ast.X` per case and a panicking default.
func dispatchKinds(file, recv, fn, subject, prefix string) ([]string, bool) {
	f := parseFile(file)
	fd := funcDecl(f, recv, fn)
	var sw *ast.TypeSwitchStmt
	for _, st := range fd.Body.List {
		if s, ok := st.(*ast.TypeSwitchStmt); ok {
			if sw != nil {
				refuse(s.Pos(), "%s: more than one type switch", fn)
			}
			sw = s
		}
	}
	if sw == nil {
		refuse(fd.Pos(), "%s: no type switch", fn)
	}
	_, subj := typeSwitchParts(sw)
	if subj != subject {
		refuse(sw.Pos(), "%s: type switch on %s, expected %s", fn, subj, subject)
	}
	var out []string
	hasDefault, defaultPanics := false, false
	for _, cc := range sw.Body.List {
		c := cc.(*ast.CaseClause)
		if c.List == nil {
			hasDefault = true
			defaultPanics = len(c.Body) == 1 && strings.HasPrefix(exprStr(c.Body[0]), "panic(")
			continue
		}
		if len(c.List) != 1 {
			refuse(c.Pos(), "%s: case with %d types", fn, len(c.List))
		}
		t := exprStr(c.List[0])
		if !strings.HasPrefix(t, "*"+prefix) || !isNodeKind(strings.TrimPrefix(t, "*"+prefix)) {
			refuse(c.Pos(), "%s: case type %s", fn, t)
		}
		out = append(out, strings.TrimPrefix(t, "*"+prefix))
	}
	if !hasDefault {
		refuse(sw.Pos(), "%s: no default case", fn)
	}
	return out, defaultPanics
}

func leanKinds(ks []string) string {
	q := make([]string, len(ks))
	for i, k := range ks {
		q[i] = "." + k
	}
	return "[" + strings.Join(q, ", ") + "]"
}

func stmtStrings(b *ast.BlockStmt) []string {
	var out []string
	for _, st := range b.List {
		out = append(out, norm(st))
	}
	return out
}

// callSequence lists, in source order, every call `x.F(args)` (x an identifier) inside a function body.
func callSequence(b *ast.BlockStmt) []string {
	var out []string
	ast.Inspect(b, func(n ast.Node) bool {
		if ce, ok := n.(*ast.CallExpr); ok {
			if se, ok := ce.Fun.(*ast.SelectorExpr); ok {
				if _, ok := se.X.(*ast.Ident); ok {
					out = append(out, norm(ce))
				}
			}
		}
		return true
	})
	return out
}

func genAstShape() string {
	order, fields := nodeStructs()
	var sb strings.Builder
	sb.WriteString("import ExprModel.Walk.Generic\nnamespace ExprModel.Gen\nopen ExprModel\n\n")
	sb.WriteString("/-- ast/node.go: every struct embedding `base`, with its fields of type Node (false) / []Node (true), in declaration order -/\n")
	sb.WriteString("def nodeStructs : List (NK × List (NField × Bool)) := [\n")
	for i, k := range order {
		var fs []string
		for _, fl := range fields[k] {
			fs = append(fs, fmt.Sprintf("(%s, %v)", leanField(token.NoPos, fl.name), fl.isList))
		}
		sep := ","
		if i == len(order)-1 {
			sep = ""
		}
		fmt.Fprintf(&sb, "  (.%s, [%s])%s\n", k, strings.Join(fs, ", "), sep)
	}
	sb.WriteString("]\n\ndef nodeFields (k : NK) : List (NField × Bool) := (nodeStructs.lookup k).getD []\n\n")

	// ast.Patch
	nf := parseFile("ast/node.go")
	p := funcDecl(nf, "", "Patch")
	fmt.Fprintf(&sb, "/-- ast.Patch(%s) -/\ndef astPatchBody : List String := %s\n\n", norm(p.Type.Params), leanStrList(stmtStrings(p.Body)))

	// dispatch lists
	chk, chkPanics := dispatchKinds("checker/checker.go", "*visitor", "visit", "node", "ast.")
	fmt.Fprintf(&sb, "/-- the cases of checker.visit's type switch -/\ndef checkerDispatch : List NK := %s\n/-- its default branch panics (false: it records an error) -/\ndef checkerDefaultPanics : Bool := %v\n\n", leanKinds(chk), chkPanics)
	cmp, cmpPanics := dispatchKinds("compiler/compiler.go", "*compiler", "compile", "node", "ast.")
	fmt.Fprintf(&sb, "/-- the cases of compiler.compile's type switch -/\ndef compilerDispatch : List NK := %s\ndef compilerDefaultPanics : Bool := %v\n\n", leanKinds(cmp), cmpPanics)

	// expr.Compile
	ef := parseFile("expr.go")
	cf := funcDecl(ef, "", "Compile")
	fmt.Fprintf(&sb, "/-- expr.Compile: every call x.F(…) in source order -/\ndef compileCalls : List String := %s\n\n", leanStrList(callSequence(cf.Body)))
	// the guard structure around the rewriting stages: the top-level statements of Compile from the first
	// checker.Check up to (excluding) `if config.Optimize`
	first, patchAt, optAt := -1, -1, -1
	for i, st := range cf.Body.List {
		t := norm(st)
		switch {
		case first < 0 && t == "_, err = checker.Check(tree, config)":
			first = i
		case t == "compiler.PatchOperators(&tree.Node, config)":
			patchAt = i
		}
		if is, ok := st.(*ast.IfStmt); ok && is.Init == nil && norm(is.Cond) == "config.Optimize" {
			optAt = i
		}
	}
	if first < 0 || patchAt < first || optAt < patchAt {
		refuse(cf.Pos(), "expr.Compile: cannot find `_, err = checker.Check(tree, config)` … `compiler.PatchOperators(&tree.Node, config)` … `if config.Optimize` in this order at top level (%d, %d, %d)", first, patchAt, optAt)
	}
	fmt.Fprintf(&sb, "/-- expr.Compile: top-level statements from the first type check up to PatchOperators (inclusive) -/\ndef compileCheckBlock : List String := %s\n\n", leanStrList(stmtStrings(&ast.BlockStmt{List: cf.Body.List[first : patchAt+1]})))
	fmt.Fprintf(&sb, "/-- expr.Compile: top-level statements between PatchOperators and `if config.Optimize` -/\ndef compilePatchBlock : List String := %s\n\n", leanStrList(stmtStrings(&ast.BlockStmt{List: cf.Body.List[patchAt+1 : optAt]})))
	pf := funcDecl(ef, "", "Patch")
	fmt.Fprintf(&sb, "/-- expr.Patch(visitor) -/\ndef exprPatchBody : List String := %s\n\n", leanStrList(stmtStrings(pf.Body)))
	of := funcDecl(ef, "", "Operator")
	fmt.Fprintf(&sb, "/-- expr.Operator(operator, fn...) -/\ndef exprOperatorBody : List String := %s\n\n", leanStrList(stmtStrings(of.Body)))
	sb.WriteString("end ExprModel.Gen\n")
	return sb.String()
}

// walkTarget recognises the three child-walk statement shapes; v is the switch-bound variable.
func walkTarget(st ast.Stmt, v string) (string, string, bool) {
	isWalkOf := func(e ast.Expr) (ast.Expr, bool) { // w.walk(&X) -> X
		ce, ok := e.(*ast.CallExpr)
		if !ok || norm(ce.Fun) != "w.walk" || len(ce.Args) != 1 {
			return nil, false
		}
		ue, ok := ce.Args[0].(*ast.UnaryExpr)
		if !ok || ue.Op != token.AND {
			return nil, false
		}
		return ue.X, true
	}
	fieldOf := func(e ast.Expr) (string, bool) { // n.F
		se, ok := e.(*ast.SelectorExpr)
		if !ok {
			return "", false
		}
		id, ok := se.X.(*ast.Ident)
		if !ok || id.Name != v {
			return "", false
		}
		return se.Sel.Name, true
	}
	switch s := st.(type) {
	case *ast.ExprStmt:
		if x, ok := isWalkOf(s.X); ok {
			if f, ok := fieldOf(x); ok {
				return f, ".single", true
			}
		}
	case *ast.IfStmt:
		// if n.F != nil { w.walk(&n.F) }
		if s.Init != nil || s.Else != nil || len(s.Body.List) != 1 {
			return "", "", false
		}
		be, ok := s.Cond.(*ast.BinaryExpr)
		if !ok || be.Op != token.NEQ || exprStr(be.Y) != "nil" {
			return "", "", false
		}
		cf, ok := fieldOf(be.X)
		if !ok {
			return "", "", false
		}
		es, ok := s.Body.List[0].(*ast.ExprStmt)
		if !ok {
			return "", "", false
		}
		if x, ok := isWalkOf(es.X); ok {
			if f, ok := fieldOf(x); ok && f == cf {
				return f, ".optional", true
			}
		}
	case *ast.RangeStmt:
		// for i := range n.F { w.walk(&n.F[i]) }
		if s.Value != nil || s.Key == nil || s.Tok != token.DEFINE || len(s.Body.List) != 1 {
			return "", "", false
		}
		key, ok := s.Key.(*ast.Ident)
		if !ok {
			return "", "", false
		}
		rf, ok := fieldOf(s.X)
		if !ok {
			return "", "", false
		}
		es, ok := s.Body.List[0].(*ast.ExprStmt)
		if !ok {
			return "", "", false
		}
		if x, ok := isWalkOf(es.X); ok {
			ie, ok := x.(*ast.IndexExpr)
			if !ok || exprStr(ie.Index) != key.Name {
				return "", "", false
			}
			if f, ok := fieldOf(ie.X); ok && f == rf {
				return f, ".list", true
			}
		}
	}
	return "", "", false
}

func genWalk() string {
	_, fields := nodeStructs()
	f := parseFile("ast/visitor.go")
	var sb strings.Builder
	sb.WriteString("import ExprModel.Walk.Generic\nnamespace ExprModel.Gen\nopen ExprModel\n\n")

	// the Visitor interface
	vis := ""
	for _, d := range f.Decls {
		if gd, ok := d.(*ast.GenDecl); ok && gd.Tok == token.TYPE {
			for _, sp := range gd.Specs {
				ts := sp.(*ast.TypeSpec)
				if ts.Name.Name == "Visitor" {
					vis = norm(ts.Type)
				}
			}
		}
	}
	if vis == "" {
		refuse(f.Pos(), "ast.Visitor not found")
	}
	fmt.Fprintf(&sb, "def visitorInterface : String := %s\n", leanStr(vis))
	wk := funcDecl(f, "", "Walk")
	fmt.Fprintf(&sb, "/-- ast.Walk(%s) -/\ndef walkEntryBody : List String := %s\n\n", norm(wk.Type.Params), leanStrList(stmtStrings(wk.Body)))

	fd := funcDecl(f, "*walker", "walk")
	if norm(fd.Type.Params) != "(node *Node)" {
		refuse(fd.Pos(), "walker.walk: parameters %s", norm(fd.Type.Params))
	}
	// optional leading guard `if *node == nil { return }`: a nil slot is not entered
	nilGuard := false
	body := fd.Body.List
	if len(body) >= 1 {
		if is, ok := body[0].(*ast.IfStmt); ok {
			if is.Init == nil && is.Else == nil && norm(is.Cond) == "*node == nil" &&
				len(is.Body.List) == 1 && norm(is.Body.List[0]) == "return" {
				nilGuard = true
				body = body[1:]
			} else {
				refuse(body[0].Pos(), "walker.walk: leading statement is not `if *node == nil { return }`: %s", norm(body[0]))
			}
		}
	}
	// `Exit` either ends every case or is called once after the switch (the default case panics before it)
	exitAfter := false
	if len(body) == 3 && norm(body[2]) == "w.visitor.Exit(node)" {
		exitAfter = true
		body = body[:2]
	}
	if len(body) != 2 {
		refuse(fd.Pos(), "walker.walk: body is not `[nil guard;] Enter; type switch[; Exit]` (%d statements)", len(fd.Body.List))
	}
	fmt.Fprintf(&sb, "/-- walker.walk starts with `if *node == nil { return }` -/\ndef walkNilGuard : Bool := %v\n", nilGuard)
	first := norm(body[0])
	if first != "w.visitor.Enter(node)" {
		refuse(body[0].Pos(), "walker.walk: first statement (after the nil guard) is %s, not w.visitor.Enter(node)", first)
	}
	sw, ok := body[1].(*ast.TypeSwitchStmt)
	if !ok {
		refuse(body[1].Pos(), "walker.walk: statement after Enter is not a type switch")
	}
	v, subj := typeSwitchParts(sw)
	if subj != "(*node)" {
		refuse(sw.Pos(), "walker.walk: the switch is on %s, not on (*node) re-read after Enter", subj)
	}
	fmt.Fprintf(&sb, "def walkFirstStmt : String := %s\ndef walkSwitchSubject : String := %s\n\n", leanStr(first), leanStr(subj))

	var rows []string
	var lasts []string
	defaultPanics := false
	seen := map[string]bool{}
	for _, cc := range sw.Body.List {
		c := cc.(*ast.CaseClause)
		if c.List == nil {
			if len(c.Body) == 1 && strings.HasPrefix(exprStr(c.Body[0]), "panic(") {
				defaultPanics = true
				continue
			}
			refuse(c.Pos(), "walker.walk: default case is not a panic")
		}
		caseBody := c.Body
		if exitAfter {
			for _, st := range caseBody {
				if norm(st) == "w.visitor.Exit(node)" {
					refuse(st.Pos(), "walker.walk: Exit is called in a case and again after the switch")
				}
			}
		} else {
			if len(caseBody) == 0 {
				refuse(c.Pos(), "walker.walk: case %s is empty (Exit is not called)", exprStr(c.List[0]))
			}
			last := norm(caseBody[len(caseBody)-1])
			if last != "w.visitor.Exit(node)" {
				refuse(caseBody[len(caseBody)-1].Pos(), "walker.walk: case %s ends with %s, not with w.visitor.Exit(node)", exprStr(c.List[0]), last)
			}
			caseBody = caseBody[:len(caseBody)-1]
		}
		if len(c.List) > 1 && len(caseBody) != 0 {
			refuse(c.Pos(), "walker.walk: a case with %d types walks children", len(c.List))
		}
		for _, ct := range c.List {
			t := exprStr(ct)
			k := strings.TrimPrefix(t, "*")
			if !strings.HasPrefix(t, "*") || !isNodeKind(k) {
				refuse(c.Pos(), "walker.walk: case type %s is not a node struct known to the model", t)
			}
			if seen[k] {
				refuse(c.Pos(), "walker.walk: duplicate case %s", k)
			}
			seen[k] = true
			lasts = append(lasts, "w.visitor.Exit(node)")
			var slots []string
			for _, st := range caseBody {
				fl, kind, ok := walkTarget(st, v)
				if !ok {
					refuse(st.Pos(), "walker.walk: case %s: statement shape not recognised: %s", k, norm(st))
				}
				// the Go type checker's view: the target must be a field of this struct of the right shape
				var decl *nodeField
				for i := range fields[k] {
					if fields[k][i].name == fl {
						decl = &fields[k][i]
					}
				}
				if decl == nil {
					refuse(st.Pos(), "walker.walk: case %s walks %s, which is not a Node/[]Node field of the struct", k, fl)
				}
				if decl.isList != (kind == ".list") {
					refuse(st.Pos(), "walker.walk: case %s walks %s as %s but the field is declared %v", k, fl, kind, *decl)
				}
				slots = append(slots, fmt.Sprintf("⟨%s, %s⟩", leanField(st.Pos(), fl), kind))
			}
			rows = append(rows, fmt.Sprintf("  (.%s, [%s])", k, strings.Join(slots, ", ")))
		}
	}
	// rows in the order of the node kinds (the order of the cases in the source is immaterial)
	sort.SliceStable(rows, func(i, j int) bool { return walkRowRank(rows[i]) < walkRowRank(rows[j]) })
	if !defaultPanics {
		refuse(sw.Pos(), "walker.walk: no panicking default case")
	}
	sb.WriteString("/-- walker.walk: per case of the type switch, the child slots walked, in order -/\n")
	fmt.Fprintf(&sb, "def walkCases : List (NK × List Slot) := [\n%s\n]\n\n", strings.Join(rows, ",\n"))
	sb.WriteString("def walkTargets : WalkTable := fun k => (walkCases.lookup k).getD []\n")
	sb.WriteString("def walkHasCase (k : NK) : Bool := (walkCases.lookup k).isSome\n")
	fmt.Fprintf(&sb, "/-- the last statement of every case -/\ndef walkCaseLastStmts : List String := %s\n", leanStrList(lasts))
	fmt.Fprintf(&sb, "def walkDefaultPanics : Bool := %v\n\n", defaultPanics)

	// compiler/patcher.go
	pf := parseFile("compiler/patcher.go")
	en := funcDecl(pf, "*operatorPatcher", "Enter")
	fmt.Fprintf(&sb, "/-- operatorPatcher.Enter -/\ndef opPatcherEnterBody : List String := %s\n", leanStrList(stmtStrings(en.Body)))
	ex := funcDecl(pf, "*operatorPatcher", "Exit")
	if norm(ex.Type.Params) != "(node *ast.Node)" {
		refuse(ex.Pos(), "operatorPatcher.Exit: parameters %s", norm(ex.Type.Params))
	}
	fmt.Fprintf(&sb, "/-- operatorPatcher.Exit -/\ndef opPatcherExitBody : List String := %s\n", leanStrList(stmtStrings(ex.Body)))
	// the replacement node: &ast.FunctionNode{Name: fn, Arguments: []ast.Node{binaryNode.Left, binaryNode.Right}} handed to ast.Patch(node, ·)
	var lit *ast.CompositeLit
	var litVar string
	patched := ""
	ast.Inspect(ex.Body, func(n ast.Node) bool {
		switch x := n.(type) {
		case *ast.AssignStmt:
			if len(x.Rhs) == 1 && len(x.Lhs) == 1 {
				if ue, ok := x.Rhs[0].(*ast.UnaryExpr); ok && ue.Op == token.AND {
					if cl, ok := ue.X.(*ast.CompositeLit); ok {
						if lit != nil {
							refuse(x.Pos(), "operatorPatcher.Exit: more than one node literal")
						}
						lit = cl
						litVar = exprStr(x.Lhs[0])
					}
				}
			}
		case *ast.CallExpr:
			if norm(x.Fun) == "ast.Patch" {
				if patched != "" {
					refuse(x.Pos(), "operatorPatcher.Exit: more than one ast.Patch")
				}
				patched = norm(x)
			}
		}
		return true
	})
	if lit == nil || patched != "ast.Patch(node, "+litVar+")" {
		refuse(ex.Pos(), "operatorPatcher.Exit: replacement not of the shape v := &ast.X{…}; ast.Patch(node, v) (got %q)", patched)
	}
	lk := strings.TrimPrefix(exprStr(lit.Type), "ast.")
	if !isNodeKind(lk) {
		refuse(lit.Pos(), "operatorPatcher.Exit: literal type %s", exprStr(lit.Type))
	}
	var kvs []string
	for _, el := range lit.Elts {
		kv, ok := el.(*ast.KeyValueExpr)
		if !ok {
			refuse(el.Pos(), "operatorPatcher.Exit: positional literal")
		}
		kvs = append(kvs, fmt.Sprintf("(%s, %s)", leanStr(exprStr(kv.Key)), leanStr(norm(kv.Value))))
	}
	fmt.Fprintf(&sb, "def opPatcherNewKind : NK := .%s\ndef opPatcherNewFields : List (String × String) := [%s]\n", lk, strings.Join(kvs, ", "))
	po := funcDecl(pf, "", "PatchOperators")
	fmt.Fprintf(&sb, "/-- compiler.PatchOperators(%s) -/\ndef patchOperatorsBody : List String := %s\n\n", norm(po.Type.Params), leanStrList(stmtStrings(po.Body)))

	// conf.FindSuitableOperatorOverload and Config.Check
	otf := parseFile("conf/operators_table.go")
	fo := funcDecl(otf, "", "FindSuitableOperatorOverload")
	fmt.Fprintf(&sb, "/-- conf.FindSuitableOperatorOverload%s -/\ndef findOverloadBody : List String := %s\n", norm(fo.Type.Params), leanStrList(stmtStrings(fo.Body)))
	if len(fo.Body.List) == 2 {
		if rs, ok := fo.Body.List[0].(*ast.RangeStmt); ok {
			fmt.Fprintf(&sb, "def findOverloadLoop : List String := %s\n", leanStrList(append([]string{"for " + norm(rs.Key) + ", " + norm(rs.Value) + " := range " + norm(rs.X)}, stmtStrings(rs.Body)...)))
		} else {
			refuse(fo.Pos(), "FindSuitableOperatorOverload: first statement is not the candidate loop")
		}
	} else {
		refuse(fo.Pos(), "FindSuitableOperatorOverload: body shape")
	}
	cff := parseFile("conf/config.go")
	ck := funcDecl(cff, "*Config", "Check")
	if len(ck.Body.List) < 1 {
		refuse(ck.Pos(), "Config.Check: empty body")
	}
	opLoop, ok := ck.Body.List[0].(*ast.RangeStmt)
	if !ok || norm(opLoop.X) != "c.Operators" {
		refuse(ck.Pos(), "Config.Check: first statement is not the loop over c.Operators")
	}
	fmt.Fprintf(&sb, "/-- Config.Check: the loop over c.Operators (first statement) -/\ndef configCheckOperatorLoop : String := %s\n", leanStr(norm(opLoop)))
	// checker: the overload branch of BinaryNode
	chf := parseFile("checker/checker.go")
	bn := funcDecl(chf, "*visitor", "BinaryNode")
	var head []string
	for i, st := range bn.Body.List {
		if i >= 3 {
			break
		}
		head = append(head, norm(st))
	}
	fmt.Fprintf(&sb, "/-- checker.(*visitor).BinaryNode: the statements before the operator switch -/\ndef checkerBinaryHead : List String := %s\n", leanStrList(head))
	sb.WriteString("\nend ExprModel.Gen\n")
	return sb.String()
}

func init() {
	register("AstShape", genAstShape)
	register("Walk", genWalk)
}

// walkRowRank: position of the row's node kind ("  (.XNode, [...])") in nodeKinds.
func walkRowRank(row string) int {
	for i, k := range nodeKinds {
		if strings.HasPrefix(row, "  (."+k+",") {
			return i
		}
	}
	return len(nodeKinds)
}
