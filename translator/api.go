package main

// Gen/Api.lean (C04): which functions install a deferred recover, which API stages run outside any
// recover, the shape of every `return` of the API functions, the `panic(` sites and the syntactically
// recognisable partial operations in code that runs outside a recover, the node kinds each of the three
// dispatchers handles, the node kinds each producer (parser, operator patcher, optimizer) constructs, and
// the order of the stages in expr.Compile / expr.Eval.

import (
	"fmt"
	"go/ast"
	"go/token"
	"go/types"
	"sort"
	"strings"
)

// hasDeferredRecover: the function body has, at top level, `defer func() { … recover() … }()`
func hasDeferredRecover(body *ast.BlockStmt) (*ast.FuncLit, bool) {
	for _, st := range body.List {
		d, ok := st.(*ast.DeferStmt)
		if !ok {
			continue
		}
		fl, ok := d.Call.Fun.(*ast.FuncLit)
		if !ok {
			continue
		}
		found := false
		ast.Inspect(fl.Body, func(n ast.Node) bool {
			if c, ok := n.(*ast.CallExpr); ok {
				if id, ok := c.Fun.(*ast.Ident); ok && id.Name == "recover" && len(c.Args) == 0 {
					found = true
				}
			}
			return true
		})
		if found {
			return fl, true
		}
	}
	return nil, false
}

var apiFunctions = []string{"expr.Eval", "expr.Compile", "expr.Run", "parser.Parse", "compiler.Compile", "vm.Run", "vm.(*VM).Run",
	"checker.Check", "optimizer.Optimize", "lexer.Lex"}

func isNilExpr(info *types.Info, e ast.Expr) bool {
	id, ok := unparen(e).(*ast.Ident)
	if !ok {
		return false
	}
	_, isNil := info.ObjectOf(id).(*types.Nil)
	return isNil
}

// returnShape classifies one return statement of a two-result function (value, error)
func returnShape(lf *lfunc, r *ast.ReturnStmt) string {
	info := lf.pkg.info
	switch len(r.Results) {
	case 0:
		return "bareNamed"
	case 1:
		if c, ok := unparen(r.Results[0]).(*ast.CallExpr); ok {
			var name string
			switch f := unparen(c.Fun).(type) {
			case *ast.Ident:
				if o, ok := info.ObjectOf(f).(*types.Func); ok {
					name = funcName(o)
				}
			case *ast.SelectorExpr:
				if o, ok := info.ObjectOf(f.Sel).(*types.Func); ok {
					name = funcName(o)
				}
			}
			if name != "" {
				return "passThrough:" + name
			}
		}
		return "other:" + exprStr(r)
	case 2:
		a, b := isNilExpr(info, r.Results[0]), isNilExpr(info, r.Results[1])
		switch {
		case a && b:
			return "nilNil"
		case a && !b:
			return "nilErr"
		case !a && b:
			return "valNil"
		default:
			return "valErr"
		}
	}
	return "other:" + exprStr(r)
}

func astNodeKinds(pr *program) []string {
	p := pr.pkgs[modulePath+"/ast"]
	var kinds []string
	sc := p.pkg.Scope()
	for _, n := range sc.Names() {
		tn, ok := sc.Lookup(n).(*types.TypeName)
		if !ok || !strings.HasSuffix(n, "Node") {
			continue
		}
		st, ok := tn.Type().Underlying().(*types.Struct)
		if !ok {
			continue
		}
		for i := 0; i < st.NumFields(); i++ {
			if f := st.Field(i); f.Embedded() && f.Name() == "base" {
				kinds = append(kinds, n)
			}
		}
	}
	sort.Strings(kinds)
	return kinds
}

// dispatcherCases: the node kinds in the type switch of fn (on its node parameter) and what the default branch does
func dispatcherCases(lf *lfunc) (cases []string, def string) {
	var ts *ast.TypeSwitchStmt
	ast.Inspect(lf.decl.Body, func(n ast.Node) bool {
		if t, ok := n.(*ast.TypeSwitchStmt); ok && ts == nil {
			ts = t
			return false
		}
		return true
	})
	if ts == nil {
		refuse(lf.decl.Pos(), "%s: no type switch found", lf.name)
	}
	def = "none"
	for _, c := range ts.Body.List {
		cc := c.(*ast.CaseClause)
		if cc.List == nil {
			def = "other"
			if len(cc.Body) == 1 {
				if es, ok := cc.Body[0].(*ast.ExprStmt); ok {
					if call, ok := es.X.(*ast.CallExpr); ok {
						if id, ok := call.Fun.(*ast.Ident); ok && id.Name == "panic" {
							def = "panic"
						}
					}
				}
			}
			continue
		}
		for _, e := range cc.List {
			s := exprStr(e)
			s = strings.TrimPrefix(s, "*")
			s = strings.TrimPrefix(s, "ast.")
			if !strings.HasSuffix(s, "Node") {
				refuse(e.Pos(), "%s: case %s is not a node type", lf.name, exprStr(e))
			}
			cases = append(cases, s)
		}
	}
	sort.Strings(cases)
	return
}

// constructedKinds: node kinds built by composite literals `&XNode{…}` in the files of a package
func constructedKinds(p *lpkg, only func(*ast.File) bool) []string {
	set := map[string]bool{}
	for _, f := range p.files {
		if only != nil && !only(f) {
			continue
		}
		ast.Inspect(f, func(n ast.Node) bool {
			cl, ok := n.(*ast.CompositeLit)
			if !ok || cl.Type == nil {
				return true
			}
			s := strings.TrimPrefix(exprStr(cl.Type), "ast.")
			if strings.HasSuffix(s, "Node") && !strings.ContainsAny(s, "[]*. ") {
				set[s] = true
			}
			return true
		})
	}
	var out []string
	for k := range set {
		out = append(out, k)
	}
	sort.Strings(out)
	return out
}

// callOrder: names of the in-scope functions called in the body of fn, in source order (nested literals excluded)
func callOrder(lf *lfunc) []string {
	var out []string
	var walk func(n ast.Node) bool
	walk = func(n ast.Node) bool {
		switch x := n.(type) {
		case *ast.FuncLit:
			return false
		case *ast.CallExpr:
			// arguments first (evaluation order), then the call itself
			for _, a := range x.Args {
				ast.Inspect(a, walk)
			}
			var o types.Object
			switch f := unparen(x.Fun).(type) {
			case *ast.Ident:
				o = lf.pkg.info.ObjectOf(f)
			case *ast.SelectorExpr:
				ast.Inspect(f.X, walk)
				o = lf.pkg.info.ObjectOf(f.Sel)
			}
			if fn, ok := o.(*types.Func); ok && fn.Pkg() != nil && strings.HasPrefix(fn.Pkg().Path(), modulePath) {
				out = append(out, funcName(fn))
			} else if v, ok := o.(*types.Var); ok {
				out = append(out, "dynamic:"+v.Name())
			}
			return false
		}
		return true
	}
	ast.Inspect(lf.decl.Body, walk)
	return out
}

func genApi() string {
	pr := loadProgram()
	a := sharedAnalysis()
	var sb strings.Builder
	sb.WriteString("namespace ExprModel.Gen.Api\n\n")

	// 1. functions with a deferred recover
	recovering := map[*entity]bool{}
	var recNames []string
	for _, lf := range pr.flist {
		if _, ok := hasDeferredRecover(lf.decl.Body); ok {
			recovering[a.entOfFn[lf.obj]] = true
			recNames = append(recNames, lf.name)
		}
	}
	sort.Strings(recNames)
	fmt.Fprintf(&sb, "/-- functions whose body installs `defer func() { … recover() … }()` -/\ndef recoverFunctions : List String := %s\n\n", leanStrList(recNames))

	// 2. API entry points and whether they recover themselves
	var apiRows []string
	for _, n := range apiFunctions {
		lf := pr.lookupFunc(n)
		_, rec := hasDeferredRecover(lf.decl.Body)
		apiRows = append(apiRows, fmt.Sprintf("(%s, %s)", leanStr(n), leanBool(rec)))
	}
	fmt.Fprintf(&sb, "/-- stage entry points: (function, installs a deferred recover) -/\ndef stages : List (String × Bool) := [%s]\n\n", strings.Join(apiRows, ", "))

	// 3. return shapes
	sb.WriteString("/-- every `return` of the API functions: nilErr = (nil, e), valNil = (x, nil), nilNil = (nil, nil),\n    valErr = (x, e) with both possibly non-nil, passThrough:f = `return f(…)`, bareNamed = plain `return` with named results -/\n")
	var shapeRows []string
	for _, n := range []string{"expr.Eval", "expr.Compile", "expr.Run", "parser.Parse", "compiler.Compile", "vm.Run", "vm.(*VM).Run", "lexer.Lex", "checker.Check"} {
		lf := pr.lookupFunc(n)
		var shapes []string
		ast.Inspect(lf.decl.Body, func(nd ast.Node) bool {
			switch x := nd.(type) {
			case *ast.FuncLit:
				return false
			case *ast.ReturnStmt:
				shapes = append(shapes, returnShape(lf, x))
			}
			return true
		})
		shapeRows = append(shapeRows, fmt.Sprintf("(%s, %s)", leanStr(n), leanStrList(shapes)))
	}
	fmt.Fprintf(&sb, "def returnShapes : List (String × List String) := [\n  %s]\n\n", strings.Join(shapeRows, ",\n  "))

	// named results: where they are assigned
	var nrRows []string
	for _, n := range []string{"compiler.Compile", "vm.(*VM).Run"} {
		lf := pr.lookupFunc(n)
		sig := lf.obj.Type().(*types.Signature)
		named := map[types.Object]string{}
		for i := 0; i < sig.Results().Len(); i++ {
			named[sig.Results().At(i)] = sig.Results().At(i).Name()
		}
		handler, _ := hasDeferredRecover(lf.decl.Body)
		last := len(lf.decl.Body.List) - 1
		var rows []string
		for idx, st := range lf.decl.Body.List {
			where := "body"
			if idx == last-1 {
				if _, isRet := lf.decl.Body.List[last].(*ast.ReturnStmt); isRet {
					where = "last-before-return"
				}
			}
			ast.Inspect(st, func(nd ast.Node) bool {
				if fl, ok := nd.(*ast.FuncLit); ok {
					if fl == handler {
						ast.Inspect(fl.Body, func(m ast.Node) bool {
							if as, ok := m.(*ast.AssignStmt); ok {
								for _, l := range as.Lhs {
									if id, ok := l.(*ast.Ident); ok {
										if nm, ok := named[lf.pkg.info.ObjectOf(id)]; ok {
											rows = append(rows, fmt.Sprintf("(%s, %s)", leanStr(nm), leanStr("recover-handler")))
										}
									}
								}
							}
							return true
						})
					}
					return false
				}
				if as, ok := nd.(*ast.AssignStmt); ok {
					for _, l := range as.Lhs {
						if id, ok := l.(*ast.Ident); ok {
							if nm, ok := named[lf.pkg.info.ObjectOf(id)]; ok {
								w := where
								if w == "last-before-return" {
									// the right-hand side must not be able to panic: a composite literal / address of one
									if _, ok := unparen(as.Rhs[0]).(*ast.UnaryExpr); !ok {
										w = "body"
									}
								}
								rows = append(rows, fmt.Sprintf("(%s, %s)", leanStr(nm), leanStr(w)))
							}
						}
					}
				}
				return true
			})
		}
		nrRows = append(nrRows, fmt.Sprintf("(%s, [%s])", leanStr(n), strings.Join(rows, ", ")))
	}
	fmt.Fprintf(&sb, "/-- assignments to the named results of the recovering API functions: (result, where) with where ∈\n    recover-handler | last-before-return (a composite literal right before the final `return`) | body -/\ndef namedResultWrites : List (String × List (String × String)) := [\n  %s]\n\n", strings.Join(nrRows, ",\n  "))

	// 4. code that runs outside any recover: reachable from the API roots without passing through a recovering function
	unguarded := map[*entity]bool{}
	var work []*entity
	push := func(e *entity) {
		if e != nil && !unguarded[e] && !recovering[a.ents[e.fn.decl]] {
			unguarded[e] = true
			work = append(work, e)
		}
	}
	for _, e := range a.ents {
		if e.root && e.fn.pkg.rel == "" {
			push(e)
		}
	}
	for len(work) > 0 {
		e := work[len(work)-1]
		work = work[:len(work)-1]
		for c := range a.edges[e] {
			push(c)
		}
	}
	var ugNames []string
	seenName := map[string]bool{}
	for e := range unguarded {
		if e.lit == nil && !seenName[e.name] {
			seenName[e.name] = true
			ugNames = append(ugNames, e.name)
		}
	}
	sort.Strings(ugNames)
	fmt.Fprintf(&sb, "/-- functions that can run with no deferred recover between them and the caller of Eval/Compile/Run/an Option -/\ndef unguardedFunctions : List String := [\n  %s]\n\n", strings.Join(quoteAll(ugNames), ",\n  "))

	// explicit panics and partial operations in unguarded code
	type op struct{ fn, kind, what string }
	var panics, partial []op
	for e := range unguarded {
		info := e.info
		commaOK := map[ast.Expr]bool{}
		ast.Inspect(e.body, func(nd ast.Node) bool {
			switch x := nd.(type) {
			case *ast.AssignStmt:
				if len(x.Lhs) == 2 && len(x.Rhs) == 1 {
					commaOK[unparen(x.Rhs[0])] = true
				}
			case *ast.ValueSpec:
				if len(x.Names) == 2 && len(x.Values) == 1 {
					commaOK[unparen(x.Values[0])] = true
				}
			case *ast.TypeSwitchStmt:
				switch as := x.Assign.(type) {
				case *ast.AssignStmt:
					commaOK[unparen(as.Rhs[0])] = true
				case *ast.ExprStmt:
					commaOK[unparen(as.X)] = true
				}
			}
			return true
		})
		ast.Inspect(e.body, func(nd ast.Node) bool {
			switch x := nd.(type) {
			case *ast.FuncLit:
				return x == e.lit
			case *ast.CallExpr:
				if id, ok := x.Fun.(*ast.Ident); ok && id.Name == "panic" {
					if _, isB := info.ObjectOf(id).(*types.Builtin); isB {
						panics = append(panics, op{e.fn.name, "panic", strings.Join(strings.Fields(exprStr(x)), " ")})
					}
				}
				// method call on a value of interface type reflect.Type: panics when the interface is nil
				if se, ok := x.Fun.(*ast.SelectorExpr); ok {
					if sel, ok := info.Selections[se]; ok && sel.Kind() == types.MethodVal {
						if n, ok := sel.Recv().(*types.Named); ok && n.Obj().Pkg() != nil && n.Obj().Pkg().Path() == "reflect" && n.Obj().Name() == "Type" {
							partial = append(partial, op{e.fn.name, "reflectTypeCall", strings.Join(strings.Fields(exprStr(se)), " ")})
						}
					}
				}
			case *ast.IndexExpr:
				if tv, ok := info.Types[x.X]; ok {
					switch tv.Type.Underlying().(type) {
					case *types.Slice, *types.Array, *types.Basic, *types.Pointer:
						partial = append(partial, op{e.fn.name, "index", strings.Join(strings.Fields(exprStr(x)), " ")})
					}
				}
			case *ast.SliceExpr:
				partial = append(partial, op{e.fn.name, "slice", strings.Join(strings.Fields(exprStr(x)), " ")})
			case *ast.TypeAssertExpr:
				if x.Type != nil && !commaOK[x] {
					partial = append(partial, op{e.fn.name, "assert", strings.Join(strings.Fields(exprStr(x)), " ")})
				}
			}
			return true
		})
	}
	emitOps := func(name, doc string, ops []op) {
		seen := map[string]bool{}
		var rows []string
		for _, o := range ops {
			r := fmt.Sprintf("(%s, %s, %s)", leanStr(o.fn), leanStr(o.kind), leanStr(o.what))
			if !seen[r] {
				seen[r] = true
				rows = append(rows, r)
			}
		}
		sort.Strings(rows)
		fmt.Fprintf(&sb, "/-- %s -/\ndef %s : List (String × String × String) := [\n  %s]\n\n", doc, name, strings.Join(rows, ",\n  "))
	}
	emitOps("unguardedPanicSites", "explicit `panic(` calls in unguarded code: (function, kind, text)", panics)
	emitOps("unguardedPartialOps", "index / slice expressions, single-value type assertions and reflect.Type method calls in unguarded code", partial)

	// per (function, kind) counts of distinct partial operations (a coarser, more stable fact)
	cnt := map[string]int{}
	seenOp := map[string]bool{}
	for _, o := range partial {
		k := o.fn + "\x00" + o.kind + "\x00" + o.what
		if !seenOp[k] {
			seenOp[k] = true
			cnt[o.fn+"\x00"+o.kind]++
		}
	}
	var cks []string
	for k := range cnt {
		cks = append(cks, k)
	}
	sort.Strings(cks)
	// packages whose totality is argued operation by operation (lexer/parser/file by the lexer and parser
	// builders' theorems, the walker's loop indices by inspection recorded in Props/C04.lean) are pinned with counts;
	// checker / conf / optimizer / expr / vm have no Lean model in C04: only the functions containing such operations are listed
	counted := map[string]bool{"ast": true, "file": true, "lexer": true, "parser": true}
	var crow []string
	other := map[string]bool{}
	for _, k := range cks {
		parts := strings.SplitN(k, "\x00", 2)
		pkg := parts[0][:strings.Index(parts[0], ".")]
		if counted[pkg] {
			crow = append(crow, fmt.Sprintf("(%s, %s, %d)", leanStr(parts[0]), leanStr(parts[1]), cnt[k]))
		} else {
			other[parts[0]] = true
		}
	}
	fmt.Fprintf(&sb, "/-- number of distinct partial operations per (function, kind) in unguarded code of ast, file, lexer, parser -/\ndef unguardedPartialOpCounts : List (String × String × Nat) := [\n  %s]\n\n", strings.Join(crow, ",\n  "))
	var orow []string
	for k := range other {
		orow = append(orow, k)
	}
	sort.Strings(orow)
	fmt.Fprintf(&sb, "/-- unguarded functions of checker / conf / optimizer / expr / vm that contain such operations (covered by the harness only) -/\ndef unguardedPartialOpFunctionsElsewhere : List String := [\n  %s]\n\n", strings.Join(quoteAll(orow), ",\n  "))

	// 5. dispatchers and producers
	kinds := astNodeKinds(pr)
	fmt.Fprintf(&sb, "/-- the node kinds declared in ast/node.go -/\ndef nodeKinds : List String := %s\n\n", leanStrList(kinds))
	var drows []string
	for _, n := range []string{"ast.(*walker).walk", "checker.(*visitor).visit", "compiler.(*compiler).compile"} {
		cs, def := dispatcherCases(pr.lookupFunc(n))
		drows = append(drows, fmt.Sprintf("(%s, %s, %s)", leanStr(n), leanStrList(cs), leanStr(def)))
	}
	fmt.Fprintf(&sb, "/-- the three dispatchers: (function, node kinds with a case, default branch: panic | other | none) -/\ndef dispatchers : List (String × List String × String) := [\n  %s]\n\n", strings.Join(drows, ",\n  "))
	prow := []string{
		fmt.Sprintf("(%s, %s)", leanStr("parser"), leanStrList(constructedKinds(pr.pkgs[modulePath+"/parser"], nil))),
		fmt.Sprintf("(%s, %s)", leanStr("operatorPatcher"), leanStrList(constructedKinds(pr.pkgs[modulePath+"/compiler"], func(f *ast.File) bool {
			return strings.HasSuffix(fset.Position(f.Pos()).Filename, "patcher.go")
		}))),
		fmt.Sprintf("(%s, %s)", leanStr("optimizer"), leanStrList(constructedKinds(pr.pkgs[modulePath+"/optimizer"], nil))),
	}
	fmt.Fprintf(&sb, "/-- node kinds each library stage constructs -/\ndef producedBy : List (String × List String) := [\n  %s]\n\n", strings.Join(prow, ",\n  "))

	// 6. stage order
	fmt.Fprintf(&sb, "/-- library functions called by expr.Compile, in source order -/\ndef compileCallOrder : List String := %s\n\n", leanStrList(callOrder(pr.lookupFunc("expr.Compile"))))
	fmt.Fprintf(&sb, "def evalCallOrder : List String := %s\n\n", leanStrList(callOrder(pr.lookupFunc("expr.Eval"))))
	fmt.Fprintf(&sb, "def runCallOrder : List String := %s\n\n", leanStrList(callOrder(pr.lookupFunc("expr.Run"))))
	fmt.Fprintf(&sb, "def vmRunCallOrder : List String := %s\n\n", leanStrList(callOrder(pr.lookupFunc("vm.Run"))))
	// what the recover handler of (*VM).Run itself does
	if fl, ok := hasDeferredRecover(pr.lookupFunc("vm.(*VM).Run").decl.Body); ok {
		var calls []string
		ast.Inspect(fl.Body, func(n ast.Node) bool {
			if c, ok := n.(*ast.CallExpr); ok {
				calls = append(calls, strings.Join(strings.Fields(exprStr(c.Fun)), " "))
			}
			return true
		})
		fmt.Fprintf(&sb, "/-- calls made inside the recover handler of (*VM).Run (a panic there would escape) -/\ndef vmRunHandlerCalls : List String := %s\n\n", leanStrList(calls))
	}
	_ = token.NoPos
	sb.WriteString("end ExprModel.Gen.Api\n")
	return sb.String()
}

func quoteAll(xs []string) []string {
	out := make([]string, len(xs))
	for i, x := range xs {
		out[i] = leanStr(x)
	}
	return out
}

func init() { register("Api", genApi) }
