package main

import (
	"go/ast"
	"go/token"
	"go/types"
	"strings"
)

func (a *analysis) mark(e *entity, flags int) {
	if a.cur != nil && a.cur != e {
		m := a.edges[a.cur]
		if m == nil {
			m = map[*entity]bool{}
			a.edges[a.cur] = m
		}
		m[e] = true
	}
	if e.flags|flags != e.flags {
		e.flags |= flags
		a.changed = true
	}
}

func unparen(e ast.Expr) ast.Expr {
	for {
		p, ok := e.(*ast.ParenExpr)
		if !ok {
			return e
		}
		e = p.X
	}
}

func (a *analysis) bindRecv(ent *entity, recv lset) {
	if ent.recv != nil {
		a.flow(a.varPts(ent.recv), recv)
	}
}

func (a *analysis) bind(ent *entity, recv lset, args []lset, spread bool, call *ast.CallExpr) []lset {
	a.mark(ent, a.cur.flags)
	a.bindRecv(ent, recv)
	np := len(ent.params)
	for i, p := range ent.params {
		if ent.sig.Variadic() && i == np-1 && !spread {
			l := a.allocLoc(call, "variadic:"+ent.name, p.Type())
			for _, s := range args[min(i, len(args)):] {
				a.flow(a.contPts1(l), s)
			}
			a.flow(a.varPts(p), lset{l: true})
			continue
		}
		if i < len(args) && carriesRefs(p.Type()) {
			a.flow(a.varPts(p), args[i])
		}
	}
	n := ent.sig.Results().Len()
	rs := make([]lset, n)
	for i := 0; i < n; i++ {
		if carriesRefs(ent.sig.Results().At(i).Type()) {
			rs[i] = union(a.resPts(ent, i))
		} else {
			rs[i] = lset{}
		}
	}
	return rs
}

func joinResults(n int, all ...[]lset) []lset {
	rs := make([]lset, n)
	for i := range rs {
		rs[i] = lset{}
		for _, r := range all {
			if i < len(r) {
				rs[i].addAll(r[i])
			}
		}
	}
	return rs
}

func (a *analysis) sharedResults(sig *types.Signature) []lset {
	n := sig.Results().Len()
	rs := make([]lset, n)
	for i := range rs {
		rs[i] = lset{}
		if carriesRefs(sig.Results().At(i).Type()) {
			rs[i][locShared] = true
		}
	}
	return rs
}

// implementers of an in-scope interface method: the method bodies that a call through the interface may run,
// each with the receiver set restricted to allocations of an implementing type.
func (a *analysis) dispatch(fn *types.Func, iface *types.Interface, recv lset) map[*entity]lset {
	out := map[*entity]lset{}
	for _, p := range a.pr.order {
		sc := p.pkg.Scope()
		for _, n := range sc.Names() {
			tn, ok := sc.Lookup(n).(*types.TypeName)
			if !ok || tn.IsAlias() {
				continue
			}
			nt, ok := tn.Type().(*types.Named)
			if !ok || types.IsInterface(nt) {
				continue
			}
			var impl types.Type
			if types.Implements(nt, iface) {
				impl = nt
			} else if types.Implements(types.NewPointer(nt), iface) {
				impl = types.NewPointer(nt)
			} else {
				continue
			}
			obj, _, _ := types.LookupFieldOrMethod(impl, true, fn.Pkg(), fn.Name())
			m, ok := obj.(*types.Func)
			if !ok {
				continue
			}
			ent := a.entOfFn[m]
			if ent == nil {
				continue
			}
			fs := a.filterByType(recv, nt)
			// drop locations whose concrete struct type is a different in-scope type (filterByType keeps embedders)
			if out[ent] == nil {
				out[ent] = lset{}
			}
			out[ent].addAll(fs)
		}
	}
	return out
}

func (a *analysis) calleesOfMethod(fn *types.Func, recv lset, pos token.Pos) []*entity {
	if ent := a.entOfFn[fn]; ent != nil {
		return []*entity{ent}
	}
	if a.pr.inScope(fn.Pkg()) {
		if sig := fn.Type().(*types.Signature); sig.Recv() != nil && types.IsInterface(sig.Recv().Type()) {
			var es []*entity
			for e := range a.dispatch(fn, sig.Recv().Type().Underlying().(*types.Interface), recv) {
				es = append(es, e)
			}
			return es
		}
		refuse(pos, "method %s has no body", fn.FullName())
	}
	return nil
}

// standard-library constructors documented to return a newly allocated value that does not alias their
// arguments' memory (it may *hold* the arguments: the contents edge is kept)
var freshConstructors = map[string]bool{"fmt.Errorf": true, "errors.New": true, "regexp.Compile": true, "regexp.MustCompile": true, "strings.NewReplacer": true}

// reflect constructors whose arguments are only type descriptors and sizes: the result is freshly allocated
// memory that holds nothing of its arguments
var typeOnlyConstructors = map[string]bool{"reflect.New": true, "reflect.MakeSlice": true, "reflect.MakeMap": true,
	"reflect.MakeMapWithSize": true, "reflect.MakeChan": true, "reflect.Zero": true}

var reflectMutators = map[string]bool{"Clear": true, "Grow": true, "Send": true, "Close": true, "TrySend": true}

func extName(o *types.Func) string {
	s := o.FullName()
	return s
}

func (a *analysis) evalCall(x *ast.CallExpr) []lset {
	info := a.cur.info
	fun := unparen(x.Fun)
	// conversion
	if tv, ok := info.Types[fun]; ok && tv.IsType() {
		if len(x.Args) != 1 {
			refuse(x.Pos(), "conversion with %d arguments", len(x.Args))
		}
		s := a.eval(x.Args[0])
		t := tv.Type
		if !carriesRefs(t) {
			return []lset{{}}
		}
		if b, ok := a.typeOf(x.Args[0]).Underlying().(*types.Basic); ok && b.Info()&types.IsString != 0 {
			return []lset{{a.allocLoc(x, "conv", t): true}}
		}
		return []lset{s}
	}
	// builtin
	var calleeObj types.Object
	switch f := fun.(type) {
	case *ast.Ident:
		calleeObj = info.ObjectOf(f)
	case *ast.SelectorExpr:
		if _, isSel := info.Selections[f]; !isSel {
			calleeObj = info.ObjectOf(f.Sel)
		}
	}
	if b, ok := calleeObj.(*types.Builtin); ok {
		return a.evalBuiltin(b.Name(), x)
	}
	spread := x.Ellipsis.IsValid()
	evalArgs := func() []lset {
		args := make([]lset, len(x.Args))
		for i, e := range x.Args {
			if c, ok := unparen(e).(*ast.CallExpr); ok && len(x.Args) == 1 {
				if tup, ok := a.typeOf(c).(*types.Tuple); ok && tup.Len() > 1 {
					refuse(e.Pos(), "call with a multi-value argument")
				}
			}
			args[i] = a.eval(e)
		}
		return args
	}
	// static function
	if fn, ok := calleeObj.(*types.Func); ok {
		args := evalArgs()
		if ent := a.entOfFn[fn]; ent != nil {
			return a.bind(ent, nil, args, spread, x)
		}
		if a.pr.inScope(fn.Pkg()) {
			refuse(x.Pos(), "function %s has no body", fn.FullName())
		}
		return a.external(fn, fn.Type().(*types.Signature), lset{}, args, x)
	}
	// method call
	if se, ok := fun.(*ast.SelectorExpr); ok {
		if sel, ok := info.Selections[se]; ok && sel.Kind() == types.MethodVal {
			fn := sel.Obj().(*types.Func)
			sig := fn.Type().(*types.Signature)
			recv := a.recvSet(se, sel)
			args := evalArgs()
			if !a.pr.inScope(fn.Pkg()) {
				return a.external(fn, sig, recv, args, x)
			}
			if ent := a.entOfFn[fn]; ent != nil {
				return a.bind(ent, recv, args, spread, x)
			}
			if !types.IsInterface(sig.Recv().Type()) {
				refuse(x.Pos(), "method %s has no body", fn.FullName())
			}
			var all [][]lset
			for ent, rs := range a.dispatch(fn, sig.Recv().Type().Underlying().(*types.Interface), recv) {
				all = append(all, a.bind(ent, rs, args, spread, x))
			}
			if recv[locShared] {
				a.noteUser(exprStr(se))
				all = append(all, a.sharedResults(sig))
			}
			return joinResults(sig.Results().Len(), all...)
		}
	}
	// dynamic call through a function value
	sig, ok := a.typeOf(fun).Underlying().(*types.Signature)
	if !ok {
		refuse(x.Pos(), "call of non-function %s", exprStr(fun))
	}
	fs := a.eval(fun)
	args := evalArgs()
	var all [][]lset
	for l := range fs {
		if ent := a.locs[l].ent; ent != nil {
			all = append(all, a.bind(ent, nil, args, spread, x))
		}
	}
	if fs[locShared] {
		a.noteUser(strings.Join(strings.Fields(exprStr(fun)), " "))
		all = append(all, a.sharedResults(sig))
		// closures the library itself hands to its caller (e.g. the Option values) come back through SHARED
		for _, ent := range a.escaped {
			if types.Identical(ent.sig, sig) {
				all = append(all, a.bind(ent, nil, args, spread, x))
			}
		}
	}
	return joinResults(sig.Results().Len(), all...)
}

func (a *analysis) noteUser(callee string) {
	if a.final {
		a.userCall[a.cur.name+": "+callee] |= a.cur.flags
	}
}

func (a *analysis) external(fn *types.Func, sig *types.Signature, recv lset, args []lset, x *ast.CallExpr) []lset {
	all := union(recv)
	for _, s := range args {
		all.addAll(s)
	}
	reach := a.reaches(all)
	name := extName(fn)
	// reflect setters write through the receiver: the written memory is what the receiver Value itself denotes
	// (SHARED when the Value was obtained by navigating from shared memory — ValueOf/Elem/Index/Field of something
	// that reaches SHARED evaluate to SHARED — and the fresh object when it denotes memory made by reflect.New,
	// MakeSlice, … in this call); what the stored value refers to becomes reachable from that memory
	isSetter := false
	if r := sig.Recv(); r != nil {
		if n, ok := deref(r.Type()).(*types.Named); ok && n.Obj().Pkg() != nil && n.Obj().Pkg().Path() == "reflect" && n.Obj().Name() == "Value" {
			if strings.HasPrefix(fn.Name(), "Set") || reflectMutators[fn.Name()] {
				isSetter = true
				a.recordSite("reflect-set", x, union(recv), false, false)
				stored := lset{}
				for _, s := range args {
					stored.addAll(s)
				}
				for l := range recv {
					if l != locShared {
						a.flow(a.contPts1(l), stored)
					}
				}
			}
		}
	}
	if reach && a.final && !isSetter {
		a.extCalls[name] |= a.cur.flags
	}
	if fn.Pkg() != nil && fn.Pkg().Path() == "reflect" && (fn.Name() == "Copy" || fn.Name() == "Swapper") && len(args) > 0 {
		owner := union(args[0])
		if a.reaches(args[0]) {
			owner[locShared] = true
		}
		a.recordSite("reflect-set", x, owner, false, false)
	}
	n := sig.Results().Len()
	rs := make([]lset, n)
	for i := 0; i < n; i++ {
		rs[i] = lset{}
		if !carriesRefs(sig.Results().At(i).Type()) {
			continue
		}
		if reach && !freshConstructors[name] && !typeOnlyConstructors[name] {
			rs[i][locShared] = true
			continue
		}
		if (freshConstructors[name] || typeOnlyConstructors[name]) && a.final {
			a.freshUsed[name] = true
		}
		// keyed by the END of the call: in a chain f(x).g(y) both calls start at the same position
		l := a.newLoc(relPos(x.End())+":"+itoa(fset.Position(x.End()).Column)+":ext"+itoa(i), "ext", sig.Results().At(i).Type(), "result of "+name)
		if !typeOnlyConstructors[name] {
			a.flow(a.contPts1(l), all)
		}
		a.locs[l].fromReflect = fn.Pkg() != nil && fn.Pkg().Path() == "reflect"
		rs[i][l] = true
	}
	return rs
}

func (a *analysis) evalBuiltin(name string, x *ast.CallExpr) []lset {
	switch name {
	case "append":
		base := a.eval(x.Args[0])
		t := a.typeOf(x)
		l := a.allocLoc(x, "append", t)
		v := lset{}
		if x.Ellipsis.IsValid() {
			s := a.eval(x.Args[1])
			if _, isStr := a.typeOf(x.Args[1]).Underlying().(*types.Basic); !isStr {
				v = a.contents(s)
			}
		} else {
			for _, e := range x.Args[1:] {
				v.addAll(a.eval(e))
			}
		}
		res := union(base, lset{l: true})
		a.flow(a.contPts1(l), a.contents(base))
		for r := range res {
			if r != locShared {
				a.flow(a.contPts1(r), v)
			}
		}
		a.recordSite("append", x, res, false, false)
		return []lset{res}
	case "copy":
		dst := a.eval(x.Args[0])
		src := a.eval(x.Args[1])
		if _, isStr := a.typeOf(x.Args[1]).Underlying().(*types.Basic); !isStr {
			for l := range dst {
				if l != locShared {
					a.flow(a.contPts1(l), a.contents(src))
				}
			}
		}
		a.recordSite("copy", x, dst, false, false)
		return []lset{{}}
	case "delete":
		m := a.eval(x.Args[0])
		a.eval(x.Args[1])
		a.recordSite("delete", x, m, false, false)
		return nil
	case "clear":
		m := a.eval(x.Args[0])
		a.recordSite("clear", x, m, false, false)
		return nil
	case "close":
		ch := a.eval(x.Args[0])
		a.recordSite("chan-close", x, ch, false, false)
		return nil
	case "make", "new":
		for _, e := range x.Args[1:] {
			a.eval(e)
		}
		return []lset{{a.allocLoc(x, name, a.typeOf(x)): true}}
	case "len", "cap", "min", "max", "print", "println", "real", "imag", "complex":
		for _, e := range x.Args {
			a.eval(e)
		}
		return []lset{{}}
	case "panic":
		a.eval(x.Args[0])
		return nil
	case "recover":
		return []lset{{locShared: true}}
	}
	refuse(x.Pos(), "builtin %s not recognised", name)
	return nil
}

// ---- statements ----

func (a *analysis) block(b *ast.BlockStmt) {
	if b == nil {
		return
	}
	for _, s := range b.List {
		a.stmt(s)
	}
}

func (a *analysis) rhsSets(lhsN int, rhs []ast.Expr) []lset {
	if len(rhs) == lhsN {
		out := make([]lset, lhsN)
		for i, e := range rhs {
			out[i] = a.eval(e)
		}
		return out
	}
	if len(rhs) != 1 {
		refuse(rhs[0].Pos(), "assignment count mismatch")
	}
	switch r := unparen(rhs[0]).(type) {
	case *ast.CallExpr:
		rs := a.evalCall(r)
		if len(rs) != lhsN {
			refuse(r.Pos(), "call yields %d values for %d targets", len(rs), lhsN)
		}
		return rs
	case *ast.TypeAssertExpr, *ast.IndexExpr:
		return []lset{a.eval(r), {}}
	case *ast.UnaryExpr:
		if r.Op == token.ARROW {
			return []lset{a.eval(r), {}}
		}
	}
	refuse(rhs[0].Pos(), "multi-value right-hand side not recognised: %s", exprStr(rhs[0]))
	return nil
}

func (a *analysis) stmt(s ast.Stmt) {
	switch x := s.(type) {
	case nil:
	case *ast.EmptyStmt, *ast.BranchStmt:
	case *ast.BlockStmt:
		a.block(x)
	case *ast.LabeledStmt:
		a.stmt(x.Stmt)
	case *ast.ExprStmt:
		if c, ok := unparen(x.X).(*ast.CallExpr); ok {
			a.evalCall(c)
		} else {
			a.eval(x.X)
		}
	case *ast.DeferStmt:
		a.evalCall(x.Call)
	case *ast.GoStmt:
		a.noteNondet("go statement", x)
		a.evalCall(x.Call)
	case *ast.SelectStmt:
		a.noteNondet("select statement", x)
		for _, c := range x.Body.List {
			cc := c.(*ast.CommClause)
			a.stmt(cc.Comm)
			for _, st := range cc.Body {
				a.stmt(st)
			}
		}
	case *ast.SendStmt:
		ch := a.eval(x.Chan)
		v := a.eval(x.Value)
		for l := range ch {
			if l != locShared {
				a.flow(a.contPts1(l), v)
			}
		}
		a.recordSite("chan-send", x, ch, false, false)
	case *ast.IncDecStmt:
		a.store(x.X, lset{}, "incdec")
	case *ast.AssignStmt:
		if x.Tok != token.ASSIGN && x.Tok != token.DEFINE {
			// op-assignment: arithmetic or string concatenation, no reference flows
			a.eval(x.Rhs[0])
			a.store(x.Lhs[0], lset{}, "opassign")
			return
		}
		sets := a.rhsSets(len(x.Lhs), x.Rhs)
		for i, l := range x.Lhs {
			kind := "assign"
			if x.Tok == token.DEFINE {
				if id, ok := l.(*ast.Ident); ok && a.cur.info.Defs[id] != nil {
					kind = "define"
				}
			}
			if kind == "define" {
				id := l.(*ast.Ident)
				if id.Name != "_" {
					if v, ok := a.cur.info.Defs[id].(*types.Var); ok && carriesRefs(v.Type()) {
						a.flow(a.varPts(v), sets[i])
					}
				}
				continue
			}
			a.store(l, sets[i], "assign")
		}
	case *ast.DeclStmt:
		gd, ok := x.Decl.(*ast.GenDecl)
		if !ok {
			refuse(x.Pos(), "declaration statement")
		}
		for _, sp := range gd.Specs {
			vs, ok := sp.(*ast.ValueSpec)
			if !ok {
				continue // type / const
			}
			if len(vs.Values) == 0 {
				continue
			}
			sets := a.rhsSets(len(vs.Names), vs.Values)
			for i, id := range vs.Names {
				if id.Name == "_" {
					continue
				}
				if v, ok := a.cur.info.Defs[id].(*types.Var); ok && carriesRefs(v.Type()) {
					a.flow(a.varPts(v), sets[i])
				}
			}
		}
	case *ast.ReturnStmt:
		n := a.cur.sig.Results().Len()
		if len(x.Results) == 0 {
			return
		}
		var sets []lset
		if len(x.Results) == n {
			sets = make([]lset, n)
			for i, e := range x.Results {
				sets[i] = a.eval(e)
			}
		} else {
			sets = a.rhsSets(n, x.Results)
		}
		for i := 0; i < n; i++ {
			if carriesRefs(a.cur.sig.Results().At(i).Type()) {
				a.flow(a.resPts(a.cur, i), sets[i])
			}
		}
	case *ast.IfStmt:
		a.stmt(x.Init)
		a.eval(x.Cond)
		a.block(x.Body)
		a.stmt(x.Else)
	case *ast.ForStmt:
		a.stmt(x.Init)
		if x.Cond != nil {
			a.eval(x.Cond)
		}
		a.stmt(x.Post)
		a.block(x.Body)
	case *ast.RangeStmt:
		base := a.eval(x.X)
		t := a.typeOf(x.X)
		var keyS, valS lset = lset{}, lset{}
		switch u := t.Underlying().(type) {
		case *types.Map:
			a.noteMapRange(x)
			keyS, valS = a.contents(base), a.contents(base)
		case *types.Slice:
			valS = a.contents(base)
		case *types.Array:
			valS = a.contents(a.placeOwner(x.X))
		case *types.Pointer:
			valS = a.contents(base)
		case *types.Chan:
			keyS = a.contents(base)
			a.recordSite("chan-recv", x, base, false, false)
		case *types.Basic:
			if u.Info()&types.IsString == 0 {
				refuse(x.Pos(), "range over %s", t)
			}
		default:
			refuse(x.Pos(), "range over %s", t)
		}
		for i, e := range []ast.Expr{x.Key, x.Value} {
			if e == nil {
				continue
			}
			set := keyS
			if i == 1 {
				set = valS
			}
			if x.Tok == token.DEFINE {
				id, ok := e.(*ast.Ident)
				if !ok {
					refuse(e.Pos(), "range variable %s", exprStr(e))
				}
				if id.Name == "_" {
					continue
				}
				if v, ok := a.cur.info.Defs[id].(*types.Var); ok && carriesRefs(v.Type()) {
					a.flow(a.varPts(v), set)
				}
			} else {
				a.store(e, set, "range-assign")
			}
		}
		a.block(x.Body)
	case *ast.SwitchStmt:
		a.stmt(x.Init)
		if x.Tag != nil {
			a.eval(x.Tag)
		}
		for _, c := range x.Body.List {
			cc := c.(*ast.CaseClause)
			for _, e := range cc.List {
				a.eval(e)
			}
			for _, st := range cc.Body {
				a.stmt(st)
			}
		}
	case *ast.TypeSwitchStmt:
		a.stmt(x.Init)
		var subj lset
		switch as := x.Assign.(type) {
		case *ast.AssignStmt:
			subj = a.eval(as.Rhs[0].(*ast.TypeAssertExpr).X)
		case *ast.ExprStmt:
			subj = a.eval(as.X.(*ast.TypeAssertExpr).X)
		default:
			refuse(x.Pos(), "type switch guard")
		}
		for _, c := range x.Body.List {
			cc := c.(*ast.CaseClause)
			if v, ok := a.cur.info.Implicits[cc].(*types.Var); ok && carriesRefs(v.Type()) {
				s := subj
				if len(cc.List) == 1 {
					if tv, ok := a.cur.info.Types[cc.List[0]]; ok && tv.IsType() {
						s = a.filterByType(subj, tv.Type)
					}
				}
				a.flow(a.varPts(v), s)
			}
			for _, st := range cc.Body {
				a.stmt(st)
			}
		}
	default:
		refuse(s.Pos(), "statement shape not recognised: %T", s)
	}
}

func (a *analysis) noteMapRange(x *ast.RangeStmt) {
	if !a.final {
		return
	}
	key := relPos(x.Pos())
	s := a.mapRange[key]
	if s == nil {
		s = &site{fn: a.cur.name, what: strings.Join(strings.Fields(exprStr(x.X)), " "), pos: x.Pos()}
		a.mapRange[key] = s
	}
	s.flags |= a.cur.flags
}

func (a *analysis) noteNondet(what string, n ast.Node) {
	if !a.final {
		return
	}
	key := relPos(n.Pos()) + what
	s := a.nondet[key]
	if s == nil {
		s = &site{fn: a.cur.name, what: what, pos: n.Pos()}
		a.nondet[key] = s
	}
	s.flags |= a.cur.flags
}
