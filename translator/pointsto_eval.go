package main

import (
	"go/ast"
	"go/token"
	"go/types"
	"strings"
)

func (a *analysis) objOf(id *ast.Ident) types.Object {
	o := a.cur.info.ObjectOf(id)
	if o == nil {
		refuse(id.Pos(), "identifier %s has no object", id.Name)
	}
	return o
}

func (a *analysis) closureLoc(e *entity) int {
	if id, ok := a.closure[e]; ok {
		return id
	}
	id := len(a.locs)
	a.locs = append(a.locs, &location{id: id, kind: "closure", desc: "func " + e.name, ent: e, typ: e.sig})
	a.closure[e] = id
	return id
}

// eval returns the abstract locations the value of e may refer to (empty for values that carry no reference).
func (a *analysis) eval(e ast.Expr) lset {
	switch x := e.(type) {
	case *ast.ParenExpr:
		return a.eval(x.X)
	case *ast.BasicLit:
		return lset{}
	case *ast.FuncLit:
		ent := a.ents[x]
		if ent == nil {
			refuse(x.Pos(), "function literal without entity")
		}
		a.mark(ent, a.cur.flags) // creating a closure makes its body runnable on this path
		return lset{a.closureLoc(ent): true}
	case *ast.CompositeLit:
		return a.evalComposite(x)
	case *ast.Ident:
		if x.Name == "_" {
			return lset{}
		}
		switch o := a.objOf(x).(type) {
		case *types.Var:
			if isPkgLevel(o) {
				if carriesRefs(o.Type()) {
					return lset{locShared: true}
				}
				return lset{}
			}
			if !carriesRefs(o.Type()) {
				return lset{}
			}
			return union(a.varPts(o))
		case *types.Func:
			return a.funcValue(o, x.Pos())
		case *types.Nil, *types.Const:
			return lset{}
		case *types.Builtin, *types.TypeName:
			refuse(x.Pos(), "builtin or type %s used as a value", x.Name)
		default:
			refuse(x.Pos(), "identifier %s: unexpected object %T", x.Name, o)
		}
	case *ast.SelectorExpr:
		if sel, ok := a.cur.info.Selections[x]; ok {
			switch sel.Kind() {
			case types.FieldVal:
				if !carriesRefs(sel.Type()) {
					a.eval(x.X) // still walk the base for nested calls
					return lset{}
				}
				return a.selectField(x, sel)
			case types.MethodVal:
				// method value (not called): a closure over the receiver
				fn := sel.Obj().(*types.Func)
				recv := a.recvSet(x, sel)
				r := lset{}
				for _, ent := range a.calleesOfMethod(fn, recv, x.Pos()) {
					a.bindRecv(ent, recv)
					a.mark(ent, a.cur.flags)
					r[a.closureLoc(ent)] = true
				}
				if recv[locShared] {
					r[locShared] = true
				}
				return r
			default:
				refuse(x.Pos(), "method expression %s", exprStr(x))
			}
		}
		// qualified identifier pkg.Name
		switch o := a.objOf(x.Sel).(type) {
		case *types.Var:
			if carriesRefs(o.Type()) {
				return lset{locShared: true}
			}
			return lset{}
		case *types.Func:
			return a.funcValue(o, x.Pos())
		case *types.Const, *types.Nil:
			return lset{}
		default:
			refuse(x.Pos(), "qualified identifier %s: unexpected object %T", exprStr(x), o)
		}
	case *ast.IndexExpr:
		xt := a.typeOf(x.X)
		a.eval(x.Index)
		switch u := xt.Underlying().(type) {
		case *types.Basic: // string index -> byte
			a.eval(x.X)
			return lset{}
		case *types.Map, *types.Slice:
			base := a.eval(x.X)
			if !carriesRefs(a.typeOf(e)) {
				return lset{}
			}
			return a.contents(base)
		case *types.Array:
			base := a.placeOwner(x.X)
			if !carriesRefs(a.typeOf(e)) {
				return lset{}
			}
			return a.contents(base)
		case *types.Pointer:
			base := a.eval(x.X)
			if !carriesRefs(a.typeOf(e)) {
				return lset{}
			}
			return a.contents(base)
		default:
			refuse(x.Pos(), "index expression on %s (%T)", xt, u)
		}
	case *ast.SliceExpr:
		for _, i := range []ast.Expr{x.Low, x.High, x.Max} {
			if i != nil {
				a.eval(i)
			}
		}
		xt := a.typeOf(x.X)
		switch xt.Underlying().(type) {
		case *types.Basic:
			a.eval(x.X)
			return lset{}
		case *types.Slice, *types.Pointer:
			return a.eval(x.X)
		case *types.Array:
			return a.placeOwner(x.X)
		default:
			refuse(x.Pos(), "slice expression on %s", xt)
		}
	case *ast.StarExpr:
		base := a.eval(x.X)
		if isStructVal(deref(a.typeOf(x.X))) {
			return base
		}
		if !carriesRefs(a.typeOf(e)) {
			return lset{}
		}
		return a.contents(base)
	case *ast.UnaryExpr:
		switch x.Op {
		case token.AND:
			return a.addrOf(x.X)
		case token.ARROW:
			ch := a.eval(x.X)
			a.recordSite("chan-recv", x, ch, false, false)
			if !carriesRefs(a.typeOf(e)) {
				return lset{}
			}
			return a.contents(ch)
		default:
			a.eval(x.X)
			return lset{}
		}
	case *ast.BinaryExpr:
		a.eval(x.X)
		a.eval(x.Y)
		return lset{}
	case *ast.TypeAssertExpr:
		s := a.eval(x.X)
		if x.Type == nil {
			return s
		}
		t := a.typeOf(x.Type)
		if !carriesRefs(t) {
			return lset{}
		}
		return a.filterByType(s, t)
	case *ast.CallExpr:
		rs := a.evalCall(x)
		if len(rs) == 0 {
			return lset{}
		}
		return rs[0]
	case *ast.KeyValueExpr:
		refuse(x.Pos(), "key-value outside a composite literal")
	}
	refuse(e.Pos(), "expression shape not recognised: %T %s", e, exprStr(e))
	return nil
}

func (a *analysis) funcValue(o *types.Func, pos token.Pos) lset {
	if ent := a.entOfFn[o]; ent != nil {
		a.mark(ent, a.cur.flags) // a function whose value is taken may be called
		return lset{a.closureLoc(ent): true}
	}
	if a.pr.inScope(o.Pkg()) {
		refuse(pos, "function value %s without a body", o.Name())
	}
	return lset{} // external function value: immutable code
}

// recvSet: the locations the receiver of a selection refers to (walking implicit embedded fields).
func (a *analysis) recvSet(x *ast.SelectorExpr, sel *types.Selection) lset {
	cur := a.eval(x.X)
	if fn, ok := sel.Obj().(*types.Func); ok && sel.Kind() == types.MethodVal {
		if r := fn.Type().(*types.Signature).Recv(); r != nil {
			if _, ptr := r.Type().Underlying().(*types.Pointer); ptr {
				cur = a.evalOrPlace(x.X) // implicit address-of for a pointer-receiver method
			}
		}
	}
	t := a.typeOf(x.X)
	idx := sel.Index()
	for _, i := range idx[:len(idx)-1] {
		st, ok := deref(t).Underlying().(*types.Struct)
		if !ok {
			refuse(x.Pos(), "implicit field path through non-struct %s", t)
		}
		f := st.Field(i)
		cur = a.fieldRead(cur, f)
		t = f.Type()
	}
	return cur
}

// evalOrPlace: for an addressable struct-valued expression used as a receiver / field base, the memory it
// lives in counts too (implicit address-of).
func (a *analysis) evalOrPlace(e ast.Expr) lset {
	s := a.eval(e)
	t := a.typeOf(e)
	if isStructVal(t) {
		if tv, ok := a.cur.info.Types[e]; ok && tv.Addressable() {
			return union(s, a.placeOwner(e))
		}
	}
	return s
}

func (a *analysis) selectField(x *ast.SelectorExpr, sel *types.Selection) lset {
	cur := a.recvSet(x, sel)
	return a.fieldRead(cur, sel.Obj().(*types.Var))
}

func (a *analysis) addrOf(e ast.Expr) lset {
	switch x := e.(type) {
	case *ast.ParenExpr:
		return a.addrOf(x.X)
	case *ast.CompositeLit:
		return a.evalComposite(x)
	case *ast.Ident:
		v, ok := a.objOf(x).(*types.Var)
		if !ok {
			refuse(x.Pos(), "address of non-variable %s", x.Name)
		}
		if isPkgLevel(v) {
			return lset{locShared: true}
		}
		if isStructVal(v.Type()) {
			return union(a.varPts(v), lset{a.cell(v): true})
		}
		return lset{a.cell(v): true}
	case *ast.SelectorExpr:
		sel, ok := a.cur.info.Selections[x]
		if !ok || sel.Kind() != types.FieldVal {
			if v, ok := a.objOf(x.Sel).(*types.Var); ok && isPkgLevel(v) {
				return lset{locShared: true}
			}
			refuse(x.Pos(), "address of %s", exprStr(x))
		}
		base := a.recvSet(x, sel)
		f := sel.Obj().(*types.Var)
		if isStructVal(f.Type()) {
			return a.fieldRead(base, f)
		}
		r := lset{a.cell(f): true}
		if base[locShared] {
			r[locShared] = true
		}
		return r
	case *ast.IndexExpr:
		a.eval(x.Index)
		switch a.typeOf(x.X).Underlying().(type) {
		case *types.Slice, *types.Pointer:
			return a.eval(x.X)
		case *types.Array:
			return a.placeOwner(x.X)
		}
		refuse(x.Pos(), "address of element of %s", a.typeOf(x.X))
	case *ast.StarExpr:
		return a.eval(x.X)
	}
	refuse(e.Pos(), "address-of shape not recognised: %s", exprStr(e))
	return nil
}

func (a *analysis) evalComposite(x *ast.CompositeLit) lset {
	t := a.typeOf(x)
	l := a.allocLoc(x, "lit", t)
	switch u := deref(t).Underlying().(type) {
	case *types.Struct:
		for i, el := range x.Elts {
			var f *types.Var
			var val ast.Expr
			if kv, ok := el.(*ast.KeyValueExpr); ok {
				id, ok := kv.Key.(*ast.Ident)
				if !ok {
					refuse(kv.Pos(), "struct literal key %s", exprStr(kv.Key))
				}
				f, _ = a.objOf(id).(*types.Var)
				val = kv.Value
			} else {
				f = u.Field(i)
				val = el
			}
			if f == nil {
				refuse(el.Pos(), "struct literal field not resolved")
			}
			a.flow(a.varPts(f), a.evalElem(val, f.Type()))
		}
	case *types.Slice, *types.Array, *types.Map:
		var et types.Type
		switch c := u.(type) {
		case *types.Slice:
			et = c.Elem()
		case *types.Array:
			et = c.Elem()
		case *types.Map:
			et = c.Elem()
		}
		for _, el := range x.Elts {
			if kv, ok := el.(*ast.KeyValueExpr); ok {
				a.flow(a.contPts1(l), a.evalElem(kv.Key, nil))
				a.flow(a.contPts1(l), a.evalElem(kv.Value, et))
			} else {
				a.flow(a.contPts1(l), a.evalElem(el, et))
			}
		}
	default:
		refuse(x.Pos(), "composite literal of type %s", t)
	}
	return lset{l: true}
}

// evalElem evaluates an element of a composite literal (which may itself be an elided composite literal).
func (a *analysis) evalElem(e ast.Expr, t types.Type) lset {
	if cl, ok := e.(*ast.CompositeLit); ok {
		return a.evalComposite(cl)
	}
	return a.eval(e)
}

func (a *analysis) contPts1(l int) lset { return a.node(nodeKey{loc: l, k: 'c'}) }

// placeOwner: the abstract locations in which the memory cell denoted by the addressable expression e lives.
func (a *analysis) placeOwner(e ast.Expr) lset {
	switch x := e.(type) {
	case *ast.ParenExpr:
		return a.placeOwner(x.X)
	case *ast.Ident:
		v, ok := a.objOf(x).(*types.Var)
		if !ok {
			refuse(x.Pos(), "assignment to non-variable %s", x.Name)
		}
		if isPkgLevel(v) {
			return lset{locShared: true}
		}
		return lset{a.cell(v): true}
	case *ast.SelectorExpr:
		sel, ok := a.cur.info.Selections[x]
		if !ok {
			if v, ok := a.objOf(x.Sel).(*types.Var); ok && isPkgLevel(v) {
				return lset{locShared: true}
			}
			refuse(x.Pos(), "place %s", exprStr(x))
		}
		if sel.Kind() != types.FieldVal {
			refuse(x.Pos(), "place %s is not a field", exprStr(x))
		}
		if _, isPtr := a.typeOf(x.X).Underlying().(*types.Pointer); isPtr || sel.Indirect() {
			return a.recvSet(x, sel)
		}
		return a.placeOwner(x.X)
	case *ast.IndexExpr:
		a.eval(x.Index)
		switch a.typeOf(x.X).Underlying().(type) {
		case *types.Slice, *types.Map, *types.Pointer:
			return a.eval(x.X)
		case *types.Array:
			return a.placeOwner(x.X)
		}
		refuse(x.Pos(), "indexed place on %s", a.typeOf(x.X))
	case *ast.StarExpr:
		return a.eval(x.X)
	case *ast.CallExpr, *ast.CompositeLit, *ast.TypeAssertExpr:
		// not addressable: a temporary (e.g. method call on a returned struct value)
		return a.eval(e)
	}
	refuse(e.Pos(), "place shape not recognised: %T %s", e, exprStr(e))
	return nil
}

// store: the assignment lhs = <values in set>; records the write site.
func (a *analysis) store(lhs ast.Expr, set lset, kind string) {
	switch x := lhs.(type) {
	case *ast.ParenExpr:
		a.store(x.X, set, kind)
		return
	case *ast.Ident:
		if x.Name == "_" {
			return
		}
		v, ok := a.objOf(x).(*types.Var)
		if !ok {
			refuse(x.Pos(), "assignment to %s", x.Name)
		}
		if isPkgLevel(v) {
			a.recordSite(kind+":pkgvar", lhs, lset{locShared: true}, true, false)
			return
		}
		if carriesRefs(v.Type()) {
			a.flow(a.varPts(v), set)
		}
		a.recordSite(kind+":var", lhs, lset{a.cell(v): true}, false, true)
		return
	case *ast.SelectorExpr:
		owner := a.placeOwner(lhs)
		if sel, ok := a.cur.info.Selections[x]; ok {
			f := sel.Obj().(*types.Var)
			if carriesRefs(f.Type()) {
				a.flow(a.varPts(f), set)
			}
		}
		a.recordSite(kind+":field", lhs, owner, false, a.allCells(owner))
		return
	case *ast.IndexExpr:
		owner := a.placeOwner(lhs)
		for l := range owner {
			if l != locShared {
				a.flow(a.contPts1(l), set)
			}
		}
		a.recordSite(kind+":index", lhs, owner, false, a.allCells(owner))
		return
	case *ast.StarExpr:
		owner := a.placeOwner(lhs)
		for l := range owner {
			if l != locShared {
				a.flow(a.contPts1(l), set)
			}
		}
		a.recordSite(kind+":deref", lhs, owner, false, a.allCells(owner))
		return
	}
	refuse(lhs.Pos(), "assignment target not recognised: %T %s", lhs, exprStr(lhs))
}

// allCells: the written memory is only local variables of the running function (stack cells)
func (a *analysis) allCells(s lset) bool {
	if len(s) == 0 {
		return false
	}
	for l := range s {
		if a.locs[l].kind != "cell" {
			return false
		}
		if _, isField := a.fieldCell(l); isField {
			return false
		}
	}
	return true
}

func (a *analysis) fieldCell(l int) (*types.Var, bool) {
	for o, id := range a.cellOf {
		if id == l {
			if v, ok := o.(*types.Var); ok && v.IsField() {
				return v, true
			}
			return nil, false
		}
	}
	return nil, false
}

func (a *analysis) recordSite(kind string, n ast.Node, owners lset, pkgvar, local bool) {
	if !a.final {
		return
	}
	key := relPos(n.Pos()) + ":" + itoa(fset.Position(n.Pos()).Column) + ":" + kind
	s := a.sites[key]
	if s == nil {
		s = &site{fn: a.cur.name, what: strings.Join(strings.Fields(exprStr(n)), " "), kind: kind, owners: lset{}, pos: n.Pos(), pkgvar: pkgvar, local: local}
		a.sites[key] = s
	}
	s.owners.addAll(owners)
	s.flags |= a.cur.flags
	if !local {
		s.local = false
	}
}
