package main

import (
	"fmt"
	"go/ast"
	"go/token"
	"regexp"
	"strings"
)

// Gen/Opcodes.lean (C05): the opcode numbering of vm/opcodes.go; per `case` of the dispatch switch in
// (*VM).Run how the operand is read; Disassemble's classification; every `c.emit(Op…, …)` call site of
// compiler/compiler.go with the kind of operand bytes passed; the bodies of patchJump, calcBackwardJump,
// placeholder, encode, makeConstant (normalised text) and the guards they contain.

func opcNormText(n ast.Node) string { return strings.Join(strings.Fields(exprStr(n)), " ") }

// opcIsCallTo recognises `recv.name(args…)` and returns the call
func opcIsCallTo(e ast.Expr, recv, name string) (*ast.CallExpr, bool) {
	c, ok := e.(*ast.CallExpr)
	if !ok {
		return nil, false
	}
	if recv == "" {
		id, ok := c.Fun.(*ast.Ident)
		return c, ok && id.Name == name
	}
	sel, ok := c.Fun.(*ast.SelectorExpr)
	if !ok || sel.Sel.Name != name {
		return nil, false
	}
	id, ok := sel.X.(*ast.Ident)
	return c, ok && id.Name == recv
}

func opcOpcodeConstBlock() []string {
	f := parseFile("vm/opcodes.go")
	var names []string
	blocks := 0
	for _, d := range f.Decls {
		gd, ok := d.(*ast.GenDecl)
		if !ok || gd.Tok != token.CONST {
			if fd, ok := d.(*ast.FuncDecl); ok {
				refuse(fd.Pos(), "unexpected function in vm/opcodes.go")
			}
			continue
		}
		blocks++
		for i, s := range gd.Specs {
			vs := s.(*ast.ValueSpec)
			if len(vs.Names) != 1 {
				refuse(vs.Pos(), "const spec with %d names", len(vs.Names))
			}
			if i == 0 {
				if len(vs.Values) != 1 || exprStr(vs.Values[0]) != "iota" || vs.Type == nil || exprStr(vs.Type) != "byte" {
					refuse(vs.Pos(), "first opcode is not `byte = iota`")
				}
			} else if len(vs.Values) != 0 || vs.Type != nil {
				refuse(vs.Pos(), "opcode %s has an explicit value or type", vs.Names[0].Name)
			}
			if vs.Names[0].Name == "_" {
				refuse(vs.Pos(), "blank opcode shifts the numbering")
			}
			names = append(names, vs.Names[0].Name)
		}
	}
	if blocks != 1 {
		refuse(f.Pos(), "vm/opcodes.go: expected exactly one const block, found %d", blocks)
	}
	return names
}

// opcDispatchSwitch finds `switch op { … }` inside the `for vm.ip < len(vm.bytecode)` loop of (*VM).Run
func opcDispatchSwitch(fd *ast.FuncDecl) *ast.SwitchStmt {
	var loop *ast.ForStmt
	for _, st := range fd.Body.List {
		if fs, ok := st.(*ast.ForStmt); ok {
			if loop != nil {
				refuse(fs.Pos(), "(*VM).Run: more than one top-level loop")
			}
			loop = fs
		}
	}
	if loop == nil || opcNormText(loop.Cond) != "vm.ip < len(vm.bytecode)" || loop.Init != nil || loop.Post != nil {
		refuse(fd.Pos(), "(*VM).Run: dispatch loop `for vm.ip < len(vm.bytecode)` not found")
	}
	var sw *ast.SwitchStmt
	var pre []string
	for _, st := range loop.Body.List {
		if s, ok := st.(*ast.SwitchStmt); ok {
			if sw != nil {
				refuse(s.Pos(), "(*VM).Run: two switches in the loop")
			}
			sw = s
			continue
		}
		if sw == nil {
			pre = append(pre, opcNormText(st))
		}
	}
	if sw == nil || exprStr(sw.Tag) != "op" {
		refuse(fd.Pos(), "(*VM).Run: `switch op` not found")
	}
	// the fetch sequence before the switch (debug hook aside): pp = ip; ip++; op := bytecode[pp]
	want := []string{"vm.pp = vm.ip", "vm.ip++", "op := vm.bytecode[vm.pp]"}
	var got []string
	for _, p := range pre {
		if strings.HasPrefix(p, "if vm.debug") {
			continue
		}
		got = append(got, p)
	}
	if strings.Join(got, "; ") != strings.Join(want, "; ") {
		refuse(loop.Pos(), "(*VM).Run: fetch sequence changed: %s", strings.Join(got, "; "))
	}
	return sw
}

type opcReads struct{ arg, constant, constIndex int }

func opcCountReads(body []ast.Stmt) opcReads {
	var r opcReads
	for _, st := range body {
		ast.Inspect(st, func(n ast.Node) bool {
			switch x := n.(type) {
			case *ast.IndexExpr:
				if exprStr(x.X) == "vm.constants" {
					if _, ok := opcIsCallTo(x.Index, "vm", "arg"); ok {
						r.constIndex++
						return false
					}
					refuse(x.Pos(), "vm.constants indexed by something other than vm.arg(): %s", exprStr(x))
				}
			case *ast.CallExpr:
				if _, ok := opcIsCallTo(x, "vm", "arg"); ok {
					r.arg++
				}
				if _, ok := opcIsCallTo(x, "vm", "constant"); ok {
					r.constant++
				}
			case *ast.SelectorExpr:
				if id, ok := x.X.(*ast.Ident); ok && id.Name == "vm" && (x.Sel.Name == "bytecode") {
					refuse(x.Pos(), "opcode body opcReads vm.bytecode directly")
				}
			case *ast.ForStmt, *ast.RangeStmt:
				// an operand read inside a loop would be read a data-dependent number of times
				inner := 0
				ast.Inspect(n, func(m ast.Node) bool {
					if c, ok := m.(*ast.CallExpr); ok {
						if _, ok := opcIsCallTo(c, "vm", "arg"); ok {
							inner++
						}
						if _, ok := opcIsCallTo(c, "vm", "constant"); ok {
							inner++
						}
					}
					return true
				})
				if inner > 0 {
					refuse(n.Pos(), "operand read inside a loop")
				}
			}
			return true
		})
	}
	return r
}

// opcResolveOperand classifies the variadic operand expression of an emit call
func opcResolveOperand(fd *ast.FuncDecl, cf *ast.File, e ast.Expr) string {
	switch x := e.(type) {
	case *ast.CallExpr:
		if _, ok := opcIsCallTo(x, "c", "placeholder"); ok {
			if len(x.Args) != 0 {
				refuse(x.Pos(), "placeholder with arguments")
			}
			return "placeholder"
		}
		if _, ok := opcIsCallTo(x, "c", "makeConstant"); ok {
			return "constant"
		}
		if _, ok := opcIsCallTo(x, "c", "calcBackwardJump"); ok {
			return "backjump"
		}
		if c, ok := opcIsCallTo(x, "", "encode"); ok {
			if len(c.Args) == 1 {
				if bl, ok := c.Args[0].(*ast.BasicLit); ok && bl.Kind == token.INT {
					return "encode:" + bl.Value
				}
			}
			refuse(x.Pos(), "encode(…) operand is not an integer literal: %s", exprStr(x))
		}
		if _, ok := opcIsCallTo(x, "c", "emitLoop"); ok {
			// emitLoop returns one of its makeConstant results
			el := funcDecl(cf, "*compiler", "emitLoop")
			var ret ast.Expr
			for _, st := range el.Body.List {
				if r, ok := st.(*ast.ReturnStmt); ok {
					if len(r.Results) != 1 || ret != nil {
						refuse(r.Pos(), "emitLoop: return shape")
					}
					ret = r.Results[0]
				}
			}
			if ret == nil {
				refuse(el.Pos(), "emitLoop: no top-level return")
			}
			return opcResolveOperand(el, cf, ret)
		}
	case *ast.Ident:
		// a local defined by `name := <call>` in the enclosing function (closures included); every
		// definition must be of the same kind
		var defs []ast.Expr
		ast.Inspect(fd.Body, func(n ast.Node) bool {
			as, ok := n.(*ast.AssignStmt)
			if !ok {
				return true
			}
			for i, l := range as.Lhs {
				if id, ok := l.(*ast.Ident); ok && id.Name == x.Name {
					if len(as.Lhs) != len(as.Rhs) {
						refuse(as.Pos(), "operand variable %s assigned from a multi-value expression", x.Name)
					}
					defs = append(defs, as.Rhs[i])
				}
			}
			return true
		})
		if len(defs) == 0 {
			refuse(x.Pos(), "operand variable %s is never assigned", x.Name)
		}
		kind := opcResolveOperand(fd, cf, defs[0])
		for _, d := range defs[1:] {
			if k := opcResolveOperand(fd, cf, d); k != kind {
				refuse(d.Pos(), "operand variable %s holds operands of different kinds (%s, %s)", x.Name, kind, k)
			}
		}
		return kind
	}
	refuse(e.Pos(), "operand expression not recognised: %s", exprStr(e))
	return ""
}

// opcOpNamesOf resolves the first argument of c.emit: a constant OpX, or a local assigned only OpX constants
func opcOpNamesOf(fd *ast.FuncDecl, e ast.Expr, isOp map[string]bool) []string {
	id, ok := e.(*ast.Ident)
	if !ok {
		refuse(e.Pos(), "emit: opcode argument is not an identifier: %s", exprStr(e))
	}
	if isOp[id.Name] {
		return []string{id.Name}
	}
	var out []string
	ast.Inspect(fd.Body, func(n ast.Node) bool {
		as, ok := n.(*ast.AssignStmt)
		if !ok {
			return true
		}
		for i, l := range as.Lhs {
			if li, ok := l.(*ast.Ident); ok && li.Name == id.Name {
				r, ok := as.Rhs[i].(*ast.Ident)
				if !ok || !isOp[r.Name] {
					refuse(as.Pos(), "emit: opcode variable %s assigned a non-opcode", id.Name)
				}
				out = append(out, r.Name)
			}
		}
		return true
	})
	if len(out) == 0 {
		refuse(e.Pos(), "emit: opcode variable %s never assigned", id.Name)
	}
	return out
}

func genOpcodes() string {
	var sb strings.Builder
	sb.WriteString("import ExprModel.Code.Instr\nnamespace ExprModel.Gen\n\n")

	// 1. numbering
	names := opcOpcodeConstBlock()
	isOp := map[string]bool{}
	for _, n := range names {
		isOp[n] = true
	}
	fmt.Fprintf(&sb, "/-- identifiers of the `const ( … iota )` block of vm/opcodes.go, in order -/\ndef opcodeNames : List String := %s\n\n", leanStrList(names))

	// 2. VM dispatch
	vf := parseFile("vm/vm.go")
	run := funcDecl(vf, "*VM", "Run")
	sw := opcDispatchSwitch(run)
	var rows []string
	hasDefaultPanic := false
	seen := map[string]bool{}
	for _, cc := range sw.Body.List {
		c := cc.(*ast.CaseClause)
		if c.List == nil {
			if len(c.Body) == 1 && strings.HasPrefix(opcNormText(c.Body[0]), "panic(") {
				hasDefaultPanic = true
				continue
			}
			refuse(c.Pos(), "dispatch default is not a single panic")
		}
		r := opcCountReads(c.Body)
		for _, e := range c.List {
			id, ok := e.(*ast.Ident)
			if !ok || !isOp[id.Name] {
				refuse(e.Pos(), "dispatch case is not an opcode constant: %s", exprStr(e))
			}
			if seen[id.Name] {
				refuse(e.Pos(), "opcode %s dispatched twice", id.Name)
			}
			seen[id.Name] = true
			rows = append(rows, fmt.Sprintf("(%s, %d, %d, %d)", leanStr(id.Name), r.arg, r.constant, r.constIndex))
		}
	}
	fmt.Fprintf(&sb, "/-- per `case` of the dispatch switch in (*VM).Run: (opcode, #`vm.arg()`, #`vm.constant()`, #`vm.constants[vm.arg()]`) -/\n")
	fmt.Fprintf(&sb, "def vmReads : List (String × Nat × Nat × Nat) := [\n  %s]\n", strings.Join(rows, ",\n  "))
	fmt.Fprintf(&sb, "def vmDefaultPanics : Bool := %v\n", hasDefaultPanic)
	fmt.Fprintf(&sb, "def vmArgBody : String := %s\n", leanStr(opcNormText(funcDecl(vf, "*VM", "arg").Body)))
	fmt.Fprintf(&sb, "def vmConstantBody : String := %s\n\n", leanStr(opcNormText(funcDecl(vf, "*VM", "constant").Body)))

	// 3. Disassemble
	pf := parseFile("vm/program.go")
	dis := funcDecl(pf, "*Program", "Disassemble")
	classes := map[string]bool{"code": true, "jump": true, "back": true, "argument": true, "constant": true}
	var dsw *ast.SwitchStmt
	closures := map[string]string{}
	ast.Inspect(dis.Body, func(n ast.Node) bool {
		switch x := n.(type) {
		case *ast.SwitchStmt:
			if x.Tag != nil && exprStr(x.Tag) == "op" {
				if dsw != nil {
					refuse(x.Pos(), "Disassemble: two `switch op`")
				}
				dsw = x
			}
		case *ast.AssignStmt:
			if len(x.Lhs) == 1 && len(x.Rhs) == 1 {
				if id, ok := x.Lhs[0].(*ast.Ident); ok {
					if fl, ok := x.Rhs[0].(*ast.FuncLit); ok && (classes[id.Name] || id.Name == "readArg") {
						closures[id.Name] = opcNormText(fl.Body)
					}
				}
			}
		}
		return true
	})
	if dsw == nil {
		refuse(dis.Pos(), "Disassemble: `switch op` not found")
	}
	var drows []string
	dseen := map[string]bool{}
	for _, cc := range dsw.Body.List {
		c := cc.(*ast.CaseClause)
		if c.List == nil {
			continue
		}
		if len(c.List) != 1 || len(c.Body) != 1 {
			refuse(c.Pos(), "Disassemble: case shape")
		}
		id, ok := c.List[0].(*ast.Ident)
		if !ok || !isOp[id.Name] || dseen[id.Name] {
			refuse(c.Pos(), "Disassemble: case %s", exprStr(c.List[0]))
		}
		dseen[id.Name] = true
		es, ok := c.Body[0].(*ast.ExprStmt)
		if !ok {
			refuse(c.Pos(), "Disassemble: case body is not a call")
		}
		call, ok := es.X.(*ast.CallExpr)
		if !ok || len(call.Args) != 1 {
			refuse(c.Pos(), "Disassemble: case body is not a one-argument call")
		}
		fn, ok := call.Fun.(*ast.Ident)
		if !ok || !classes[fn.Name] {
			refuse(call.Pos(), "Disassemble: unknown classification %s", exprStr(call.Fun))
		}
		lbl, ok := call.Args[0].(*ast.BasicLit)
		if !ok || lbl.Value != `"`+id.Name+`"` {
			refuse(call.Pos(), "Disassemble: label %s for %s", exprStr(call.Args[0]), id.Name)
		}
		drows = append(drows, fmt.Sprintf("(%s, %s)", leanStr(id.Name), leanStr(fn.Name)))
	}
	fmt.Fprintf(&sb, "/-- classification used by (*Program).Disassemble -/\ndef disasmClass : List (String × String) := [\n  %s]\n", strings.Join(drows, ",\n  "))
	// which closures read an operand (call readArg) and how the target is printed
	var crow []string
	for _, k := range []string{"code", "jump", "back", "argument", "constant"} {
		body, ok := closures[k]
		if !ok {
			refuse(dis.Pos(), "Disassemble: closure %s not found", k)
		}
		target := "none"
		if strings.Contains(body, "ip+int(a)") {
			target = "fwd"
		} else if strings.Contains(body, "ip-int(a)") {
			target = "back"
		}
		crow = append(crow, fmt.Sprintf("(%s, %d, %s)", leanStr(k), strings.Count(body, "readArg()"), leanStr(target)))
	}
	fmt.Fprintf(&sb, "/-- per Disassemble closure: (#readArg() calls, how the jump target is printed) -/\ndef disasmClosures : List (String × Nat × String) := [%s]\n\n", strings.Join(crow, ", "))

	// 4. compiler emit sites
	cf := parseFile("compiler/compiler.go")
	var sites []string
	var patched []string
	for _, d := range cf.Decls {
		fd, ok := d.(*ast.FuncDecl)
		if !ok || fd.Body == nil {
			continue
		}
		// direct writes to c.bytecode are allowed only in emit and patchJump
		if fd.Name.Name != "emit" && fd.Name.Name != "patchJump" {
			ast.Inspect(fd.Body, func(n ast.Node) bool {
				if as, ok := n.(*ast.AssignStmt); ok {
					for _, l := range as.Lhs {
						if strings.HasPrefix(exprStr(l), "c.bytecode") {
							refuse(as.Pos(), "%s writes c.bytecode directly", fd.Name.Name)
						}
					}
				}
				return true
			})
		}
		// placeholders: `x := c.emit(OpJ, c.placeholder()...)` / `x = …`; each x must reach c.patchJump(x)
		placeholderVars := map[string]token.Pos{}
		patchedVars := map[string]bool{}
		ast.Inspect(fd.Body, func(n ast.Node) bool {
			switch x := n.(type) {
			case *ast.CallExpr:
				if c, ok := opcIsCallTo(x, "c", "patchJump"); ok {
					if len(c.Args) != 1 {
						refuse(c.Pos(), "patchJump arity")
					}
					id, ok := c.Args[0].(*ast.Ident)
					if !ok {
						refuse(c.Pos(), "patchJump argument is not a variable")
					}
					patchedVars[id.Name] = true
				}
				c, ok := opcIsCallTo(x, "c", "emit")
				if !ok {
					return true
				}
				if len(c.Args) == 0 {
					refuse(c.Pos(), "emit without opcode")
				}
				kind := "none"
				if len(c.Args) > 2 {
					refuse(c.Pos(), "emit with more than one operand expression")
				}
				if len(c.Args) == 2 {
					if !c.Ellipsis.IsValid() {
						refuse(c.Pos(), "emit operand passed without `...`")
					}
					kind = opcResolveOperand(fd, cf, c.Args[1])
				}
				for _, op := range opcOpNamesOf(fd, c.Args[0], isOp) {
					sites = append(sites, fmt.Sprintf("(%s, %s, %s)", leanStr(op), leanStr(kind), leanStr(fd.Name.Name)))
				}
			case *ast.AssignStmt:
				if len(x.Lhs) == 1 && len(x.Rhs) == 1 {
					if c, ok := opcIsCallTo(x.Rhs[0], "c", "emit"); ok && len(c.Args) == 2 {
						if _, ok := opcIsCallTo(c.Args[1], "c", "placeholder"); ok {
							id, ok := x.Lhs[0].(*ast.Ident)
							if !ok {
								refuse(x.Pos(), "placeholder position stored in a non-variable")
							}
							placeholderVars[id.Name] = x.Pos()
						}
					}
				}
			case *ast.ExprStmt:
				if c, ok := opcIsCallTo(x.X, "c", "emit"); ok && len(c.Args) == 2 {
					if _, ok := opcIsCallTo(c.Args[1], "c", "placeholder"); ok {
						refuse(x.Pos(), "placeholder emitted and its position discarded")
					}
				}
			}
			return true
		})
		// deterministic order
		var vs []string
		for v := range placeholderVars {
			vs = append(vs, v)
		}
		opcSortStrings(vs)
		for _, v := range vs {
			patched = append(patched, fmt.Sprintf("(%s, %s, %v)", leanStr(fd.Name.Name), leanStr(v), patchedVars[v]))
		}
	}
	fmt.Fprintf(&sb, "/-- every `c.emit(Op…, operand...)` call site of compiler/compiler.go: (opcode, operand kind, enclosing function);\n    kinds: none | placeholder | constant (makeConstant bytes) | backjump (calcBackwardJump) | encode:<literal> -/\n")
	fmt.Fprintf(&sb, "def emitSites : List (String × String × String) := [\n  %s]\n", strings.Join(sites, ",\n  "))
	fmt.Fprintf(&sb, "/-- every variable holding a placeholder position and whether `c.patchJump(var)` occurs in the same function -/\n")
	fmt.Fprintf(&sb, "def placeholderPatched : List (String × String × Bool) := [%s]\n\n", strings.Join(patched, ", "))

	// 5. bodies and guards
	panicMsg := regexp.MustCompile(`panic\("[^"]*"\)`)
	body := func(recv, name string) (string, *ast.FuncDecl) {
		fd := funcDecl(cf, recv, name)
		return panicMsg.ReplaceAllString(opcNormText(fd.Body), "panic(_)"), fd
	}
	pj, pjd := body("*compiler", "patchJump")
	cb, cbd := body("*compiler", "calcBackwardJump")
	ph, _ := body("*compiler", "placeholder")
	en, _ := body("", "encode")
	mk, mkd := body("*compiler", "makeConstant")
	em, _ := body("*compiler", "emit")
	fmt.Fprintf(&sb, "def patchJumpBody : String := %s\n", leanStr(pj))
	fmt.Fprintf(&sb, "def calcBackwardJumpBody : String := %s\n", leanStr(cb))
	fmt.Fprintf(&sb, "def placeholderBody : String := %s\n", leanStr(ph))
	fmt.Fprintf(&sb, "def encodeBody : String := %s\n", leanStr(en))
	fmt.Fprintf(&sb, "def makeConstantBody : String := %s\n", leanStr(mk))
	fmt.Fprintf(&sb, "def emitBody : String := %s\n", leanStr(em))
	// guards: an `if <cond mentioning math.MaxUint16> { panic(…) }` statement
	guard := func(fd *ast.FuncDecl) string {
		g := ""
		ast.Inspect(fd.Body, func(n ast.Node) bool {
			is, ok := n.(*ast.IfStmt)
			if !ok || is.Else != nil || is.Init != nil || len(is.Body.List) != 1 {
				return true
			}
			if !strings.HasPrefix(opcNormText(is.Body.List[0]), "panic(") {
				return true
			}
			if strings.Contains(exprStr(is.Cond), "math.MaxUint16") {
				if g != "" {
					refuse(is.Pos(), "%s: two MaxUint16 guards", fd.Name.Name)
				}
				g = opcNormText(is.Cond)
			}
			return true
		})
		return g
	}
	fmt.Fprintf(&sb, "/-- condition of the `if … math.MaxUint16 … { panic }` guard in the function, \"\" when there is none -/\n")
	fmt.Fprintf(&sb, "def makeConstantGuard : String := %s\n", leanStr(guard(mkd)))
	fmt.Fprintf(&sb, "def patchJumpGuard : String := %s\n", leanStr(guard(pjd)))
	fmt.Fprintf(&sb, "def calcBackwardJumpGuard : String := %s\n", leanStr(guard(cbd)))
	// the guard of the C05 fix: both functions or neither, in the one shape the compile model knows
	pg, cg := guard(pjd), guard(cbd)
	switch {
	case pg == "" && cg == "":
		sb.WriteString("/-- patchJump and calcBackwardJump reject offsets above 65535 (false: they truncate silently) -/\ndef jumpGuard : Bool := false\n")
	case pg != "" && cg != "":
		// the exact condition is pinned by theorem C05.jump_patching_as_modelled
		sb.WriteString("/-- patchJump and calcBackwardJump reject offsets above 65535 (false: they truncate silently) -/\ndef jumpGuard : Bool := true\n")
	default:
		refuse(pjd.Pos(), "only one of patchJump (%q) / calcBackwardJump (%q) guards its offset: the compile model has no such variant", pg, cg)
	}
	// Compile recovers panics into an error
	comp := funcDecl(cf, "", "Compile")
	recovers := false
	if len(comp.Body.List) > 0 {
		if ds, ok := comp.Body.List[0].(*ast.DeferStmt); ok {
			t := opcNormText(ds)
			recovers = strings.Contains(t, "recover()") && strings.Contains(t, "err = fmt.Errorf")
		}
	}
	fmt.Fprintf(&sb, "def compileRecoversPanics : Bool := %v\n", recovers)
	sb.WriteString("\nend ExprModel.Gen\n")
	return sb.String()
}

func opcSortStrings(xs []string) {
	for i := 1; i < len(xs); i++ {
		for j := i; j > 0 && xs[j] < xs[j-1]; j-- {
			xs[j], xs[j-1] = xs[j-1], xs[j]
		}
	}
}

func init() { register("Opcodes", genOpcodes) }
