package main

import (
	"fmt"
	"go/ast"
	"go/token"
	"strconv"
	"strings"
)

// Gen/Pipeline.lean: what optimizer.Optimize and expr.Compile say literally —
//   * the sequence of optimizer passes, which of them are repeated, their loop limits and loop conditions,
//   * the `1e6` / `1` thresholds of const_range.go,
//   * the operators each pass compares `Operator` with,
//   * the order of the pipeline stages in expr.Compile and the guard of the optimizer call.

func isCall(e ast.Expr, fun string) (*ast.CallExpr, bool) {
	c, ok := e.(*ast.CallExpr)
	if !ok {
		return nil, false
	}
	return c, exprStr(c.Fun) == fun
}

// walkOf recognises `Walk(node, <x>)`; returns the second argument
func walkOf(s ast.Stmt) (ast.Expr, bool) {
	es, ok := s.(*ast.ExprStmt)
	if !ok {
		return nil, false
	}
	c, ok := isCall(es.X, "Walk")
	if !ok || len(c.Args) != 2 || exprStr(c.Args[0]) != "node" {
		return nil, false
	}
	return c.Args[1], true
}

// visitorFields renders the elements of `&T{…}`
func visitorFields(e ast.Expr) string {
	u, ok := e.(*ast.UnaryExpr)
	if !ok {
		return ""
	}
	cl, ok := u.X.(*ast.CompositeLit)
	if !ok {
		return ""
	}
	var xs []string
	for _, el := range cl.Elts {
		xs = append(xs, strings.Join(strings.Fields(exprStr(el)), " "))
	}
	return strings.Join(xs, ", ")
}

// visitorType recognises `&T{…}`
func visitorType(e ast.Expr) (string, bool) {
	u, ok := e.(*ast.UnaryExpr)
	if !ok || u.Op != token.AND {
		return "", false
	}
	cl, ok := u.X.(*ast.CompositeLit)
	if !ok {
		return "", false
	}
	id, ok := cl.Type.(*ast.Ident)
	if !ok {
		return "", false
	}
	return id.Name, true
}

type passFact struct {
	fields      string // the fields of the visitor literal, as written
	name        string
	limit       int // -1: run once
	cmp         string
	conditional string
}

// loopPass recognises
//
//	for limit := N; limit <cmp> 0; limit-- { v := &T{…}; Walk(node, v); if v.err != nil { return v.err }; if !v.applied { break } }
func loopPass(f *ast.ForStmt) passFact {
	init, ok := f.Init.(*ast.AssignStmt)
	if !ok || init.Tok != token.DEFINE || len(init.Lhs) != 1 || exprStr(init.Lhs[0]) != "limit" {
		refuse(f.Pos(), "optimizer loop: init is not `limit := N`")
	}
	lit, ok := init.Rhs[0].(*ast.BasicLit)
	if !ok || lit.Kind != token.INT {
		refuse(f.Pos(), "optimizer loop: limit is not an integer literal")
	}
	n, err := strconv.Atoi(lit.Value)
	if err != nil {
		refuse(f.Pos(), "optimizer loop: limit %s", lit.Value)
	}
	cond, ok := f.Cond.(*ast.BinaryExpr)
	if !ok || exprStr(cond.X) != "limit" || exprStr(cond.Y) != "0" {
		refuse(f.Pos(), "optimizer loop: condition is not `limit <cmp> 0`")
	}
	post, ok := f.Post.(*ast.IncDecStmt)
	if !ok || post.Tok != token.DEC || exprStr(post.X) != "limit" {
		refuse(f.Pos(), "optimizer loop: post statement is not `limit--`")
	}
	if len(f.Body.List) != 4 {
		refuse(f.Pos(), "optimizer loop: body has %d statements, expected 4", len(f.Body.List))
	}
	as, ok := f.Body.List[0].(*ast.AssignStmt)
	if !ok || as.Tok != token.DEFINE || len(as.Lhs) != 1 {
		refuse(f.Body.Pos(), "optimizer loop: first statement is not `v := &T{…}`")
	}
	v := exprStr(as.Lhs[0])
	name, ok := visitorType(as.Rhs[0])
	if !ok {
		refuse(as.Pos(), "optimizer loop: visitor is not a composite literal")
	}
	arg, ok := walkOf(f.Body.List[1])
	if !ok || exprStr(arg) != v {
		refuse(f.Body.List[1].Pos(), "optimizer loop: second statement is not Walk(node, %s)", v)
	}
	ifErr, ok := f.Body.List[2].(*ast.IfStmt)
	if !ok || exprStr(ifErr.Cond) != v+".err != nil" || len(ifErr.Body.List) != 1 || exprStr(ifErr.Body.List[0]) != "return "+v+".err" {
		refuse(f.Body.List[2].Pos(), "optimizer loop: third statement is not `if %s.err != nil { return %s.err }`", v, v)
	}
	ifApp, ok := f.Body.List[3].(*ast.IfStmt)
	if !ok || exprStr(ifApp.Cond) != "!"+v+".applied" || len(ifApp.Body.List) != 1 || exprStr(ifApp.Body.List[0]) != "break" {
		refuse(f.Body.List[3].Pos(), "optimizer loop: fourth statement is not `if !%s.applied { break }`", v)
	}
	return passFact{name: name, limit: n, cmp: cond.Op.String(), fields: visitorFields(as.Rhs[0])}
}

func optimizePasses() []passFact {
	f := parseFile("optimizer/optimizer.go")
	fd := funcDecl(f, "", "Optimize")
	var out []passFact
	for i, s := range fd.Body.List {
		switch st := s.(type) {
		case *ast.ExprStmt:
			arg, ok := walkOf(st)
			if !ok {
				refuse(st.Pos(), "Optimize: statement is not Walk(node, …)")
			}
			name, ok := visitorType(arg)
			if !ok {
				refuse(st.Pos(), "Optimize: visitor is not `&T{}`")
			}
			out = append(out, passFact{name: name, limit: -1, fields: visitorFields(arg)})
		case *ast.ForStmt:
			out = append(out, loopPass(st))
		case *ast.IfStmt:
			if len(st.Body.List) != 1 || st.Else != nil {
				refuse(st.Pos(), "Optimize: conditional block shape")
			}
			fs, ok := st.Body.List[0].(*ast.ForStmt)
			if !ok {
				refuse(st.Pos(), "Optimize: conditional block does not contain a loop")
			}
			p := loopPass(fs)
			p.conditional = strings.Join(strings.Fields(exprStr(st.Cond)), " ")
			out = append(out, p)
		case *ast.ReturnStmt:
			if i != len(fd.Body.List)-1 || exprStr(st) != "return nil" {
				refuse(st.Pos(), "Optimize: unexpected return")
			}
		default:
			refuse(s.Pos(), "Optimize: unrecognised statement")
		}
	}
	return out
}

// operatorTests collects, per receiver variable, the string literals `<v>.Operator` is compared with
// (`==` comparisons and `switch <v>.Operator { case … }`) inside the type-switch case for nodeType of Exit.
func operatorTests(file, recv, nodeType string) map[string][]string {
	f := parseFile(file)
	fd := funcDecl(f, recv, "Exit")
	out := map[string][]string{}
	add := func(v, lit string) {
		for _, x := range out[v] {
			if x == lit {
				return
			}
		}
		out[v] = append(out[v], lit)
	}
	found := false
	ast.Inspect(fd.Body, func(n ast.Node) bool {
		ts, ok := n.(*ast.TypeSwitchStmt)
		if !ok {
			return true
		}
		for _, cc := range ts.Body.List {
			c := cc.(*ast.CaseClause)
			if len(c.List) != 1 || exprStr(c.List[0]) != "*"+nodeType {
				continue
			}
			found = true
			for _, st := range c.Body {
				ast.Inspect(st, func(m ast.Node) bool {
					switch x := m.(type) {
					case *ast.BinaryExpr:
						if x.Op == token.EQL {
							if sel, ok := x.X.(*ast.SelectorExpr); ok && sel.Sel.Name == "Operator" {
								lit, ok := x.Y.(*ast.BasicLit)
								if !ok || lit.Kind != token.STRING {
									refuse(x.Pos(), "Operator compared with a non-literal")
								}
								s, _ := strconv.Unquote(lit.Value)
								add(exprStr(sel.X), s)
							}
						}
					case *ast.SwitchStmt:
						if sel, ok := x.Tag.(*ast.SelectorExpr); ok && sel.Sel.Name == "Operator" {
							for _, c2 := range x.Body.List {
								for _, e := range c2.(*ast.CaseClause).List {
									lit, ok := e.(*ast.BasicLit)
									if !ok || lit.Kind != token.STRING {
										refuse(e.Pos(), "switch on Operator: case is not a string literal")
									}
									s, _ := strconv.Unquote(lit.Value)
									add(exprStr(sel.X), s)
								}
							}
						}
					}
					return true
				})
			}
		}
		return false
	})
	if !found {
		refuse(fd.Pos(), "%s: no `case *%s` in Exit", file, nodeType)
	}
	return out
}

func constRangeThresholds() (minSize, maxSize string) {
	f := parseFile("optimizer/const_range.go")
	fd := funcDecl(f, "*constRange", "Exit")
	ast.Inspect(fd.Body, func(n ast.Node) bool {
		b, ok := n.(*ast.BinaryExpr)
		if !ok || exprStr(b.X) != "size" {
			return true
		}
		lit, ok := b.Y.(*ast.BasicLit)
		if !ok {
			refuse(b.Pos(), "const_range: size compared with a non-literal")
		}
		v, err := strconv.ParseFloat(lit.Value, 64)
		if err != nil || v != float64(int64(v)) {
			refuse(b.Pos(), "const_range: threshold %s is not integral", lit.Value)
		}
		switch b.Op {
		case token.LSS:
			minSize = strconv.FormatInt(int64(v), 10)
		case token.GTR:
			maxSize = strconv.FormatInt(int64(v), 10)
		default:
			refuse(b.Pos(), "const_range: unexpected comparison %s", b.Op)
		}
		return true
	})
	if minSize == "" || maxSize == "" {
		refuse(fd.Pos(), "const_range: thresholds `size < …` / `size > …` not found")
	}
	return
}

// const_range.go: the condition of the `if` whose body patches the empty constant, and of the `if` whose body is a bare return
func constRangeTests() (empty, skip string) {
	f := parseFile("optimizer/const_range.go")
	fd := funcDecl(f, "*constRange", "Exit")
	ast.Inspect(fd.Body, func(n ast.Node) bool {
		is, ok := n.(*ast.IfStmt)
		if !ok || is.Init != nil {
			return true
		}
		cond := strings.Join(strings.Fields(exprStr(is.Cond)), " ")
		if len(is.Body.List) == 1 && exprStr(is.Body.List[0]) == "return" {
			skip = cond
		} else if len(is.Body.List) == 2 && exprStr(is.Body.List[1]) == "return" && strings.Contains(exprStr(is.Body.List[0]), "make([]int, 0)") {
			empty = cond
		}
		return true
	})
	if empty == "" || skip == "" {
		refuse(fd.Pos(), "const_range.go: the empty-constant test or the skip test was not found")
	}
	return
}

func compileStages() (stages []string, optimizeGuard string) {
	f := parseFile("expr.go")
	fd := funcDecl(f, "", "Compile")
	pk := map[string]bool{"config": true, "parser": true, "checker": true, "compiler": true, "ast": true, "optimizer": true}
	fn := map[string]bool{"Check": true, "Parse": true, "PatchOperators": true, "Walk": true, "Optimize": true, "Compile": true}
	var visit func(n ast.Node, guard string)
	visit = func(n ast.Node, guard string) {
		ast.Inspect(n, func(m ast.Node) bool {
			switch x := m.(type) {
			case *ast.IfStmt:
				if x.Init != nil {
					visit(x.Init, guard)
				}
				visit(x.Cond, guard)
				visit(x.Body, strings.Join(strings.Fields(exprStr(x.Cond)), " "))
				if x.Else != nil {
					visit(x.Else, guard)
				}
				return false
			case *ast.CallExpr:
				if sel, ok := x.Fun.(*ast.SelectorExpr); ok {
					if id, ok := sel.X.(*ast.Ident); ok && pk[id.Name] && fn[sel.Sel.Name] {
						name := id.Name + "." + sel.Sel.Name
						stages = append(stages, name)
						if name == "optimizer.Optimize" {
							optimizeGuard = guard
						}
					}
				}
			}
			return true
		})
	}
	visit(fd.Body, "")
	return
}

func reflectKindName(e ast.Expr) string {
	t := exprStr(e)
	if !strings.HasPrefix(t, "reflect.") {
		refuse(e.Pos(), "expected a reflect.Kind constant, found %s", t)
	}
	return strings.ToLower(strings.TrimPrefix(t, "reflect."))
}

func optFuncDecl(f *ast.File, name string) *ast.FuncDecl {
	for _, d := range f.Decls {
		if fd, ok := d.(*ast.FuncDecl); ok && fd.Recv == nil && fd.Name.Name == name {
			return fd
		}
	}
	return nil
}

// in_range.go: the kinds `rangeKind` admits, whether a nil type is admitted, the node kinds `simpleNode`
// admits directly / through their operand, and the guard of the rewrite as written in Exit.
func inRangeGuards() (kinds []string, nilAdmitted bool, leaves, through []string, guard string) {
	f := parseFile("optimizer/in_range.go")
	if rk := optFuncDecl(f, "rangeKind"); rk != nil {
		for _, st := range rk.Body.List {
			switch x := st.(type) {
			case *ast.IfStmt:
				if exprStr(x.Cond) != "t == nil" || len(x.Body.List) != 1 {
					refuse(x.Pos(), "rangeKind: unexpected if")
				}
				nilAdmitted = exprStr(x.Body.List[0]) == "return true"
			case *ast.SwitchStmt:
				if exprStr(x.Tag) != "t.Kind()" {
					refuse(x.Pos(), "rangeKind: switch is not on t.Kind()")
				}
				for _, cc := range x.Body.List {
					c := cc.(*ast.CaseClause)
					if len(c.Body) != 1 || exprStr(c.Body[0]) != "return true" {
						refuse(c.Pos(), "rangeKind: case body is not `return true`")
					}
					for _, e := range c.List {
						kinds = append(kinds, reflectKindName(e))
					}
				}
			case *ast.ReturnStmt:
				if exprStr(x) != "return false" {
					refuse(x.Pos(), "rangeKind: final return is not `return false`")
				}
			default:
				refuse(st.Pos(), "rangeKind: unrecognised statement")
			}
		}
	}
	if sn := optFuncDecl(f, "simpleNode"); sn != nil {
		ts, ok := sn.Body.List[0].(*ast.TypeSwitchStmt)
		if !ok || len(sn.Body.List) != 2 || exprStr(sn.Body.List[1]) != "return false" {
			refuse(sn.Pos(), "simpleNode: not a type switch followed by `return false`")
		}
		for _, cc := range ts.Body.List {
			c := cc.(*ast.CaseClause)
			if len(c.Body) != 1 {
				refuse(c.Pos(), "simpleNode: case body")
			}
			body := exprStr(c.Body[0])
			for _, e := range c.List {
				name := strings.TrimPrefix(exprStr(e), "*")
				switch body {
				case "return true":
					leaves = append(leaves, name)
				case "return simpleNode(n.Node)":
					through = append(through, name)
				default:
					refuse(c.Pos(), "simpleNode: unexpected case body %s", body)
				}
			}
		}
	}
	// the guard: the first `if … { return }` inside the innermost literal-bounds test of Exit
	var exit *ast.FuncDecl
	for _, d := range f.Decls {
		if fd, ok := d.(*ast.FuncDecl); ok && fd.Name.Name == "Exit" {
			exit = fd
		}
	}
	if exit == nil {
		refuse(f.Pos(), "in_range.go: no Exit")
	}
	ast.Inspect(exit.Body, func(n ast.Node) bool {
		is, ok := n.(*ast.IfStmt)
		if !ok || is.Init != nil || len(is.Body.List) != 1 || exprStr(is.Body.List[0]) != "return" {
			return true
		}
		if guard != "" {
			refuse(is.Pos(), "in_range.go: more than one `if … { return }` guard")
		}
		guard = strings.Join(strings.Fields(exprStr(is.Cond)), " ")
		return true
	})
	return
}

// fold.go: the condition of the `plain` helper and, per operator case, whether every IntegerNode test is
// conjoined with plain(·).
func foldPlainFacts() (cond string, guarded []string) {
	f := parseFile("optimizer/fold.go")
	fd := funcDecl(f, "*fold", "Exit")
	ast.Inspect(fd.Body, func(n ast.Node) bool {
		as, ok := n.(*ast.AssignStmt)
		if !ok || len(as.Lhs) != 1 || exprStr(as.Lhs[0]) != "plain" {
			return true
		}
		fl, ok := as.Rhs[0].(*ast.FuncLit)
		if !ok || len(fl.Body.List) != 2 || exprStr(fl.Body.List[0]) != "t := n.Type()" {
			refuse(as.Pos(), "fold.go: plain is not `func(n Node) bool { t := n.Type(); return … }`")
		}
		ret, ok := fl.Body.List[1].(*ast.ReturnStmt)
		if !ok {
			refuse(as.Pos(), "fold.go: plain: no return")
		}
		cond = strings.Join(strings.Fields(exprStr(ret.Results[0])), " ")
		return false
	})
	// per `case "<op>":` of the switches on n.Operator
	ast.Inspect(fd.Body, func(n ast.Node) bool {
		sw, ok := n.(*ast.SwitchStmt)
		if !ok || sw.Tag == nil || exprStr(sw.Tag) != "n.Operator" {
			return true
		}
		for _, cc := range sw.Body.List {
			c := cc.(*ast.CaseClause)
			total, withPlain := 0, 0
			for _, st := range c.Body {
				ast.Inspect(st, func(m ast.Node) bool {
					is, ok := m.(*ast.IfStmt)
					if !ok || is.Init == nil {
						return true
					}
					init := exprStr(is.Init)
					if !strings.Contains(init, ".(*IntegerNode)") {
						return true
					}
					total++
					v := strings.TrimSpace(strings.Split(init, ",")[0])
					if strings.Join(strings.Fields(exprStr(is.Cond)), " ") == "ok && plain("+v+")" {
						withPlain++
					} else if exprStr(is.Cond) != "ok" {
						refuse(is.Pos(), "fold.go: unexpected condition on an IntegerNode test: %s", exprStr(is.Cond))
					}
					return true
				})
			}
			for _, e := range c.List {
				op, _ := strconv.Unquote(exprStr(e))
				kind := "binary"
				if total == 1 {
					kind = "unary"
				}
				if total > 0 && withPlain == total {
					guarded = append(guarded, kind+" "+op)
				}
			}
		}
		return true
	})
	return
}

// in_array.go: the guard in front of the integer-set rewrite and the guard at the `string:` label
func inArrayGuards() (intGuard, strGuard string) {
	f := parseFile("optimizer/in_array.go")
	fd := funcDecl(f, "*inArray", "Exit")
	ast.Inspect(fd.Body, func(n ast.Node) bool {
		switch x := n.(type) {
		case *ast.IfStmt:
			if x.Init == nil && len(x.Body.List) >= 1 {
				if bs, ok := x.Body.List[len(x.Body.List)-1].(*ast.BranchStmt); ok && bs.Tok == token.GOTO && strings.Contains(exprStr(x.Cond), "t.Kind()") {
					intGuard = strings.Join(strings.Fields(exprStr(x.Cond)), " ")
				}
			}
		case *ast.LabeledStmt:
			if x.Label.Name == "string" {
				if is, ok := x.Stmt.(*ast.IfStmt); ok && len(is.Body.List) == 1 && exprStr(is.Body.List[0]) == "return" {
					strGuard = strings.Join(strings.Fields(exprStr(is.Cond)), " ")
				}
			}
		}
		return true
	})
	if intGuard == "" {
		refuse(fd.Pos(), "in_array.go: the type guard of the integer-set rewrite was not found")
	}
	return
}

// const_expr.go: the kinds for which an IntegerNode argument is converted to its annotated type
func constExprConvertKinds() (kinds []string) {
	f := parseFile("optimizer/const_expr.go")
	fd := funcDecl(f, "*constExpr", "Exit")
	ast.Inspect(fd.Body, func(n ast.Node) bool {
		c, ok := n.(*ast.CaseClause)
		if !ok || len(c.List) != 1 || exprStr(c.List[0]) != "*IntegerNode" {
			return true
		}
		for _, st := range c.Body {
			ast.Inspect(st, func(m ast.Node) bool {
				sw, ok := m.(*ast.SwitchStmt)
				if !ok || sw.Tag == nil || exprStr(sw.Tag) != "t.Kind()" {
					return true
				}
				for _, cc := range sw.Body.List {
					c2 := cc.(*ast.CaseClause)
					if len(c2.Body) != 1 || strings.Join(strings.Fields(exprStr(c2.Body[0])), " ") != "param = reflect.ValueOf(a.Value).Convert(t).Interface()" {
						refuse(c2.Pos(), "const_expr.go: unexpected conversion of an integer literal")
					}
					for _, e := range c2.List {
						kinds = append(kinds, reflectKindName(e))
					}
				}
				return false
			})
		}
		return false
	})
	return
}

func genPipeline() string {
	var sb strings.Builder
	sb.WriteString("namespace ExprModel.Gen.Pipeline\n\n")
	sb.WriteString("/-- optimizer.Optimize, statement by statement: (visitor type, loop limit (none = one walk), loop comparison with 0, guard of the block) -/\n")
	var rows []string
	for _, p := range optimizePasses() {
		lim := "none"
		if p.limit >= 0 {
			lim = fmt.Sprintf("some %d", p.limit)
		}
		rows = append(rows, fmt.Sprintf("(%s, %s, %s, %s)", leanStr(p.name), lim, leanStr(p.cmp), leanStr(p.conditional)))
	}
	fmt.Fprintf(&sb, "def optimizePasses : List (String × Option Nat × String × String) :=\n  [%s]\n\n", strings.Join(rows, ",\n   "))
	var frows []string
	for _, p := range optimizePasses() {
		frows = append(frows, fmt.Sprintf("(%s, %s)", leanStr(p.name), leanStr(p.fields)))
	}
	fmt.Fprintf(&sb, "/-- the fields each visitor literal is built with -/\ndef optimizeVisitorFields : List (String × String) :=\n  [%s]\n\n", strings.Join(frows, ", "))
	kinds, nilAdm, leaves, through, guard := inRangeGuards()
	fmt.Fprintf(&sb, "/-- in_range.go: kinds admitted by rangeKind, whether a nil type is, node kinds admitted by simpleNode (directly / through their operand), the guard of the rewrite -/\n")
	fmt.Fprintf(&sb, "def inRangeKinds : List String := %s\ndef inRangeNilTypeAdmitted : Bool := %v\n", leanStrList(kinds), nilAdm)
	fmt.Fprintf(&sb, "def inRangeSimpleLeaves : List String := %s\ndef inRangeSimpleThrough : List String := %s\n", leanStrList(leaves), leanStrList(through))
	fmt.Fprintf(&sb, "def inRangeGuard : String := %s\n\n", leanStr(guard))
	pc, pg := foldPlainFacts()
	fmt.Fprintf(&sb, "/-- fold.go: the `plain` test and the operator cases in which every IntegerNode test is conjoined with it -/\n")
	fmt.Fprintf(&sb, "def foldPlainCond : String := %s\ndef foldPlainGuarded : List String := %s\n\n", leanStr(pc), leanStrList(pg))
	ig, sg := inArrayGuards()
	fmt.Fprintf(&sb, "/-- in_array.go: the guard that skips the integer-set rewrite, the guard at the `string:` label -/\n")
	fmt.Fprintf(&sb, "def inArrayIntSkip : String := %s\ndef inArrayStrSkip : String := %s\n\n", leanStr(ig), leanStr(sg))
	fmt.Fprintf(&sb, "/-- const_expr.go: kinds at which an integer literal argument is converted to its annotated type -/\n")
	fmt.Fprintf(&sb, "def constExprConvertKinds : List String := %s\n\n", leanStrList(constExprConvertKinds()))
	mn, mx := constRangeThresholds()
	fmt.Fprintf(&sb, "/-- const_range.go: `if size < %s` (empty constant), `if size > …` (left to the run time) -/\n", mn)
	fmt.Fprintf(&sb, "def constRangeMinSize : Int := %s\ndef constRangeMaxSize : Int := %s\n", mn, mx)
	et, sk := constRangeTests()
	fmt.Fprintf(&sb, "/-- the test in front of the empty constant, the test that leaves the range to the run time -/\n")
	fmt.Fprintf(&sb, "def constRangeEmptyTest : String := %s\ndef constRangeSkipTest : String := %s\n\n", leanStr(et), leanStr(sk))
	ops := func(file, recv, nodeType, v string) string {
		m := operatorTests(file, recv, nodeType)
		for k := range m {
			if k != "n" && k != "rng" {
				refuse(token.NoPos, "%s: Operator of unexpected variable %s", file, k)
			}
		}
		return leanStrList(m[v])
	}
	fmt.Fprintf(&sb, "def foldUnaryOps : List String := %s\n", ops("optimizer/fold.go", "*fold", "UnaryNode", "n"))
	fmt.Fprintf(&sb, "def foldBinaryOps : List String := %s\n", ops("optimizer/fold.go", "*fold", "BinaryNode", "n"))
	fmt.Fprintf(&sb, "def inArrayOps : List String := %s\n", ops("optimizer/in_array.go", "*inArray", "BinaryNode", "n"))
	fmt.Fprintf(&sb, "def inRangeOps : List String := %s\n", ops("optimizer/in_range.go", "*inRange", "BinaryNode", "n"))
	fmt.Fprintf(&sb, "def inRangeInnerOps : List String := %s\n", ops("optimizer/in_range.go", "*inRange", "BinaryNode", "rng"))
	fmt.Fprintf(&sb, "def constRangeOps : List String := %s\n\n", ops("optimizer/const_range.go", "*constRange", "BinaryNode", "n"))
	stages, guard := compileStages()
	fmt.Fprintf(&sb, "/-- expr.Compile: the calls into the pipeline packages, in source order -/\ndef compileStages : List String := %s\n", leanStrList(stages))
	fmt.Fprintf(&sb, "def optimizeGuard : String := %s\n", leanStr(guard))
	sb.WriteString("\nend ExprModel.Gen.Pipeline\n")
	return sb.String()
}

func init() { register("Pipeline", genPipeline) }
