package main

import (
	"fmt"
	"go/ast"
	"go/token"
	"strconv"
	"strings"
)

// Gen/Pipeline.lean: what optimizer.Optimize and expr.Compile say literally —
//   * the sequence of optimizer passes, which of them are repeated, their loop limits and loop conditions,
//   * the `1e6` / `1` thresholds of const_range.go,
//   * the operators each pass compares `Operator` with,
//   * the order of the pipeline stages in expr.Compile and the guard of the optimizer call.

func isCall(e ast.Expr, fun string) (*ast.CallExpr, bool) {
	c, ok := e.(*ast.CallExpr)
	if !ok {
		return nil, false
	}
	return c, exprStr(c.Fun) == fun
}

// walkOf recognises `Walk(node, <x>)`; returns the second argument
func walkOf(s ast.Stmt) (ast.Expr, bool) {
	es, ok := s.(*ast.ExprStmt)
	if !ok {
		return nil, false
	}
	c, ok := isCall(es.X, "Walk")
	if !ok || len(c.Args) != 2 || exprStr(c.Args[0]) != "node" {
		return nil, false
	}
	return c.Args[1], true
}

// visitorType recognises `&T{…}`
func visitorType(e ast.Expr) (string, bool) {
	u, ok := e.(*ast.UnaryExpr)
	if !ok || u.Op != token.AND {
		return "", false
	}
	cl, ok := u.X.(*ast.CompositeLit)
	if !ok {
		return "", false
	}
	id, ok := cl.Type.(*ast.Ident)
	if !ok {
		return "", false
	}
	return id.Name, true
}

type passFact struct {
	name        string
	limit       int // -1: run once
	cmp         string
	conditional string
}

// loopPass recognises
//   for limit := N; limit <cmp> 0; limit-- { v := &T{…}; Walk(node, v); if v.err != nil { return v.err }; if !v.applied { break } }
func loopPass(f *ast.ForStmt) passFact {
	init, ok := f.Init.(*ast.AssignStmt)
	if !ok || init.Tok != token.DEFINE || len(init.Lhs) != 1 || exprStr(init.Lhs[0]) != "limit" {
		refuse(f.Pos(), "optimizer loop: init is not `limit := N`")
	}
	lit, ok := init.Rhs[0].(*ast.BasicLit)
	if !ok || lit.Kind != token.INT {
		refuse(f.Pos(), "optimizer loop: limit is not an integer literal")
	}
	n, err := strconv.Atoi(lit.Value)
	if err != nil {
		refuse(f.Pos(), "optimizer loop: limit %s", lit.Value)
	}
	cond, ok := f.Cond.(*ast.BinaryExpr)
	if !ok || exprStr(cond.X) != "limit" || exprStr(cond.Y) != "0" {
		refuse(f.Pos(), "optimizer loop: condition is not `limit <cmp> 0`")
	}
	post, ok := f.Post.(*ast.IncDecStmt)
	if !ok || post.Tok != token.DEC || exprStr(post.X) != "limit" {
		refuse(f.Pos(), "optimizer loop: post statement is not `limit--`")
	}
	if len(f.Body.List) != 4 {
		refuse(f.Pos(), "optimizer loop: body has %d statements, expected 4", len(f.Body.List))
	}
	as, ok := f.Body.List[0].(*ast.AssignStmt)
	if !ok || as.Tok != token.DEFINE || len(as.Lhs) != 1 {
		refuse(f.Body.Pos(), "optimizer loop: first statement is not `v := &T{…}`")
	}
	v := exprStr(as.Lhs[0])
	name, ok := visitorType(as.Rhs[0])
	if !ok {
		refuse(as.Pos(), "optimizer loop: visitor is not a composite literal")
	}
	arg, ok := walkOf(f.Body.List[1])
	if !ok || exprStr(arg) != v {
		refuse(f.Body.List[1].Pos(), "optimizer loop: second statement is not Walk(node, %s)", v)
	}
	ifErr, ok := f.Body.List[2].(*ast.IfStmt)
	if !ok || exprStr(ifErr.Cond) != v+".err != nil" || len(ifErr.Body.List) != 1 || exprStr(ifErr.Body.List[0]) != "return "+v+".err" {
		refuse(f.Body.List[2].Pos(), "optimizer loop: third statement is not `if %s.err != nil { return %s.err }`", v, v)
	}
	ifApp, ok := f.Body.List[3].(*ast.IfStmt)
	if !ok || exprStr(ifApp.Cond) != "!"+v+".applied" || len(ifApp.Body.List) != 1 || exprStr(ifApp.Body.List[0]) != "break" {
		refuse(f.Body.List[3].Pos(), "optimizer loop: fourth statement is not `if !%s.applied { break }`", v)
	}
	return passFact{name: name, limit: n, cmp: cond.Op.String()}
}

func optimizePasses() []passFact {
	f := parseFile("optimizer/optimizer.go")
	fd := funcDecl(f, "", "Optimize")
	var out []passFact
	for i, s := range fd.Body.List {
		switch st := s.(type) {
		case *ast.ExprStmt:
			arg, ok := walkOf(st)
			if !ok {
				refuse(st.Pos(), "Optimize: statement is not Walk(node, …)")
			}
			name, ok := visitorType(arg)
			if !ok {
				refuse(st.Pos(), "Optimize: visitor is not `&T{}`")
			}
			out = append(out, passFact{name: name, limit: -1})
		case *ast.ForStmt:
			out = append(out, loopPass(st))
		case *ast.IfStmt:
			if len(st.Body.List) != 1 || st.Else != nil {
				refuse(st.Pos(), "Optimize: conditional block shape")
			}
			fs, ok := st.Body.List[0].(*ast.ForStmt)
			if !ok {
				refuse(st.Pos(), "Optimize: conditional block does not contain a loop")
			}
			p := loopPass(fs)
			p.conditional = strings.Join(strings.Fields(exprStr(st.Cond)), " ")
			out = append(out, p)
		case *ast.ReturnStmt:
			if i != len(fd.Body.List)-1 || exprStr(st) != "return nil" {
				refuse(st.Pos(), "Optimize: unexpected return")
			}
		default:
			refuse(s.Pos(), "Optimize: unrecognised statement")
		}
	}
	return out
}

// operatorTests collects, per receiver variable, the string literals `<v>.Operator` is compared with
// (`==` comparisons and `switch <v>.Operator { case … }`) inside the type-switch case for nodeType of Exit.
func operatorTests(file, recv, nodeType string) map[string][]string {
	f := parseFile(file)
	fd := funcDecl(f, recv, "Exit")
	out := map[string][]string{}
	add := func(v, lit string) {
		for _, x := range out[v] {
			if x == lit {
				return
			}
		}
		out[v] = append(out[v], lit)
	}
	found := false
	ast.Inspect(fd.Body, func(n ast.Node) bool {
		ts, ok := n.(*ast.TypeSwitchStmt)
		if !ok {
			return true
		}
		for _, cc := range ts.Body.List {
			c := cc.(*ast.CaseClause)
			if len(c.List) != 1 || exprStr(c.List[0]) != "*"+nodeType {
				continue
			}
			found = true
			for _, st := range c.Body {
				ast.Inspect(st, func(m ast.Node) bool {
					switch x := m.(type) {
					case *ast.BinaryExpr:
						if x.Op == token.EQL {
							if sel, ok := x.X.(*ast.SelectorExpr); ok && sel.Sel.Name == "Operator" {
								lit, ok := x.Y.(*ast.BasicLit)
								if !ok || lit.Kind != token.STRING {
									refuse(x.Pos(), "Operator compared with a non-literal")
								}
								s, _ := strconv.Unquote(lit.Value)
								add(exprStr(sel.X), s)
							}
						}
					case *ast.SwitchStmt:
						if sel, ok := x.Tag.(*ast.SelectorExpr); ok && sel.Sel.Name == "Operator" {
							for _, c2 := range x.Body.List {
								for _, e := range c2.(*ast.CaseClause).List {
									lit, ok := e.(*ast.BasicLit)
									if !ok || lit.Kind != token.STRING {
										refuse(e.Pos(), "switch on Operator: case is not a string literal")
									}
									s, _ := strconv.Unquote(lit.Value)
									add(exprStr(sel.X), s)
								}
							}
						}
					}
					return true
				})
			}
		}
		return false
	})
	if !found {
		refuse(fd.Pos(), "%s: no `case *%s` in Exit", file, nodeType)
	}
	return out
}

func constRangeThresholds() (minSize, maxSize string) {
	f := parseFile("optimizer/const_range.go")
	fd := funcDecl(f, "*constRange", "Exit")
	ast.Inspect(fd.Body, func(n ast.Node) bool {
		b, ok := n.(*ast.BinaryExpr)
		if !ok || exprStr(b.X) != "size" {
			return true
		}
		lit, ok := b.Y.(*ast.BasicLit)
		if !ok {
			refuse(b.Pos(), "const_range: size compared with a non-literal")
		}
		v, err := strconv.ParseFloat(lit.Value, 64)
		if err != nil || v != float64(int64(v)) {
			refuse(b.Pos(), "const_range: threshold %s is not integral", lit.Value)
		}
		switch b.Op {
		case token.LSS:
			minSize = strconv.FormatInt(int64(v), 10)
		case token.GTR:
			maxSize = strconv.FormatInt(int64(v), 10)
		default:
			refuse(b.Pos(), "const_range: unexpected comparison %s", b.Op)
		}
		return true
	})
	if minSize == "" || maxSize == "" {
		refuse(fd.Pos(), "const_range: thresholds `size < …` / `size > …` not found")
	}
	return
}

func compileStages() (stages []string, optimizeGuard string) {
	f := parseFile("expr.go")
	fd := funcDecl(f, "", "Compile")
	pk := map[string]bool{"config": true, "parser": true, "checker": true, "compiler": true, "ast": true, "optimizer": true}
	fn := map[string]bool{"Check": true, "Parse": true, "PatchOperators": true, "Walk": true, "Optimize": true, "Compile": true}
	var visit func(n ast.Node, guard string)
	visit = func(n ast.Node, guard string) {
		ast.Inspect(n, func(m ast.Node) bool {
			switch x := m.(type) {
			case *ast.IfStmt:
				if x.Init != nil {
					visit(x.Init, guard)
				}
				visit(x.Cond, guard)
				visit(x.Body, strings.Join(strings.Fields(exprStr(x.Cond)), " "))
				if x.Else != nil {
					visit(x.Else, guard)
				}
				return false
			case *ast.CallExpr:
				if sel, ok := x.Fun.(*ast.SelectorExpr); ok {
					if id, ok := sel.X.(*ast.Ident); ok && pk[id.Name] && fn[sel.Sel.Name] {
						name := id.Name + "." + sel.Sel.Name
						stages = append(stages, name)
						if name == "optimizer.Optimize" {
							optimizeGuard = guard
						}
					}
				}
			}
			return true
		})
	}
	visit(fd.Body, "")
	return
}

func genPipeline() string {
	var sb strings.Builder
	sb.WriteString("namespace ExprModel.Gen.Pipeline\n\n")
	sb.WriteString("/-- optimizer.Optimize, statement by statement: (visitor type, loop limit (none = one walk), loop comparison with 0, guard of the block) -/\n")
	var rows []string
	for _, p := range optimizePasses() {
		lim := "none"
		if p.limit >= 0 {
			lim = fmt.Sprintf("some %d", p.limit)
		}
		rows = append(rows, fmt.Sprintf("(%s, %s, %s, %s)", leanStr(p.name), lim, leanStr(p.cmp), leanStr(p.conditional)))
	}
	fmt.Fprintf(&sb, "def optimizePasses : List (String × Option Nat × String × String) :=\n  [%s]\n\n", strings.Join(rows, ",\n   "))
	mn, mx := constRangeThresholds()
	fmt.Fprintf(&sb, "/-- const_range.go: `if size < %s` (empty constant), `if size > …` (left to the run time) -/\n", mn)
	fmt.Fprintf(&sb, "def constRangeMinSize : Int := %s\ndef constRangeMaxSize : Int := %s\n\n", mn, mx)
	ops := func(file, recv, nodeType, v string) string {
		m := operatorTests(file, recv, nodeType)
		for k := range m {
			if k != "n" && k != "rng" {
				refuse(token.NoPos, "%s: Operator of unexpected variable %s", file, k)
			}
		}
		return leanStrList(m[v])
	}
	fmt.Fprintf(&sb, "def foldUnaryOps : List String := %s\n", ops("optimizer/fold.go", "*fold", "UnaryNode", "n"))
	fmt.Fprintf(&sb, "def foldBinaryOps : List String := %s\n", ops("optimizer/fold.go", "*fold", "BinaryNode", "n"))
	fmt.Fprintf(&sb, "def inArrayOps : List String := %s\n", ops("optimizer/in_array.go", "*inArray", "BinaryNode", "n"))
	fmt.Fprintf(&sb, "def inRangeOps : List String := %s\n", ops("optimizer/in_range.go", "*inRange", "BinaryNode", "n"))
	fmt.Fprintf(&sb, "def inRangeInnerOps : List String := %s\n", ops("optimizer/in_range.go", "*inRange", "BinaryNode", "rng"))
	fmt.Fprintf(&sb, "def constRangeOps : List String := %s\n\n", ops("optimizer/const_range.go", "*constRange", "BinaryNode", "n"))
	stages, guard := compileStages()
	fmt.Fprintf(&sb, "/-- expr.Compile: the calls into the pipeline packages, in source order -/\ndef compileStages : List String := %s\n", leanStrList(stages))
	fmt.Fprintf(&sb, "def optimizeGuard : String := %s\n", leanStr(guard))
	sb.WriteString("\nend ExprModel.Gen.Pipeline\n")
	return sb.String()
}

func init() { register("Pipeline", genPipeline) }
