package main

// Type-checked view of /repo's library packages (go/parser + go/types, stdlib only, offline).
// In-scope packages are parsed from <repo>/<rel> (non-test files); the standard library is imported
// from source (GOROOT/src), which needs neither the network nor pre-built export data.
// Used by the write-set / points-to extraction (writes.go, C08 and C09) and the API-shape extraction (api.go, C04).

import (
	"go/ast"
	"go/build"
	"go/importer"
	"go/parser"
	"go/token"
	"go/types"
	"os"
	"path/filepath"
	"sort"
	"strings"
)

const modulePath = "github.com/antonmedv/expr"

// the packages the properties talk about ("" = the root package expr)
var scopeRel = []string{"file", "ast", "parser/lexer", "parser", "vm", "conf", "checker", "optimizer", "compiler", ""}

type lpkg struct {
	rel   string
	path  string
	files []*ast.File
	pkg   *types.Package
	info  *types.Info
}

type lfunc struct {
	obj  *types.Func
	decl *ast.FuncDecl
	pkg  *lpkg
	name string // e.g. vm.(*VM).Run, expr.Compile
}

type program struct {
	pkgs  map[string]*lpkg // by import path
	order []*lpkg
	funcs map[*types.Func]*lfunc
	flist []*lfunc
}

type repoImporter struct {
	prog *program
	std  types.Importer
}

func (ri *repoImporter) Import(path string) (*types.Package, error) {
	if path == modulePath || strings.HasPrefix(path, modulePath+"/") {
		p := ri.prog.load(ri, path)
		return p.pkg, nil
	}
	return ri.std.Import(path)
}

func (pr *program) load(ri *repoImporter, path string) *lpkg {
	if p, ok := pr.pkgs[path]; ok {
		if p.pkg == nil {
			refuse(token.NoPos, "import cycle through %s", path)
		}
		return p
	}
	rel := strings.TrimPrefix(strings.TrimPrefix(path, modulePath), "/")
	p := &lpkg{rel: rel, path: path}
	pr.pkgs[path] = p
	dir := filepath.Join(repo, rel)
	ents, err := os.ReadDir(dir)
	if err != nil {
		refuse(token.NoPos, "cannot read package directory %s: %v", dir, err)
	}
	var names []string
	for _, e := range ents {
		n := e.Name()
		if e.IsDir() || !strings.HasSuffix(n, ".go") || strings.HasSuffix(n, "_test.go") {
			continue
		}
		names = append(names, n)
	}
	sort.Strings(names)
	ctx := build.Default
	for _, n := range names {
		// honour build constraints with the default tag set plus `verif` (the harness builds with -tags verif)
		ctx.BuildTags = []string{"verif"}
		ok, err := ctx.MatchFile(dir, n)
		if err != nil || !ok {
			continue
		}
		f, err := parser.ParseFile(fset, filepath.Join(dir, n), nil, parser.ParseComments)
		if err != nil {
			refuse(token.NoPos, "cannot parse %s: %v", filepath.Join(rel, n), err)
		}
		p.files = append(p.files, f)
	}
	if len(p.files) == 0 {
		refuse(token.NoPos, "no Go files in %s", dir)
	}
	p.info = &types.Info{
		Types:      map[ast.Expr]types.TypeAndValue{},
		Defs:       map[*ast.Ident]types.Object{},
		Uses:       map[*ast.Ident]types.Object{},
		Selections: map[*ast.SelectorExpr]*types.Selection{},
		Implicits:  map[ast.Node]types.Object{},
		Scopes:     map[ast.Node]*types.Scope{},
	}
	var terr error
	conf := types.Config{Importer: ri, Error: func(e error) {
		if terr == nil {
			terr = e
		}
	}}
	pkg, _ := conf.Check(path, fset, p.files, p.info)
	if terr != nil {
		refuse(token.NoPos, "type checking %s failed: %v", path, terr)
	}
	p.pkg = pkg
	pr.order = append(pr.order, p)
	return p
}

var loaded *program

// loadProgram type-checks the in-scope packages once per translator run.
func loadProgram() *program {
	if loaded != nil {
		return loaded
	}
	pr := &program{pkgs: map[string]*lpkg{}, funcs: map[*types.Func]*lfunc{}}
	ri := &repoImporter{prog: pr, std: importer.ForCompiler(fset, "source", nil)}
	for _, rel := range scopeRel {
		path := modulePath
		if rel != "" {
			path += "/" + rel
		}
		pr.load(ri, path)
	}
	for _, p := range pr.order {
		for _, f := range p.files {
			for _, d := range f.Decls {
				fd, ok := d.(*ast.FuncDecl)
				if !ok || fd.Body == nil {
					continue
				}
				obj, _ := p.info.Defs[fd.Name].(*types.Func)
				if obj == nil {
					refuse(fd.Pos(), "no object for function %s", fd.Name.Name)
				}
				lf := &lfunc{obj: obj, decl: fd, pkg: p, name: funcName(obj)}
				pr.funcs[obj] = lf
				pr.flist = append(pr.flist, lf)
			}
		}
	}
	loaded = pr
	return pr
}

// funcName renders a function object as pkg.Func or pkg.(*T).Method with the short package name.
func funcName(f *types.Func) string {
	pk := ""
	if f.Pkg() != nil {
		pk = f.Pkg().Name()
	}
	sig := f.Type().(*types.Signature)
	if r := sig.Recv(); r != nil {
		t := r.Type()
		star := ""
		if p, ok := t.(*types.Pointer); ok {
			t = p.Elem()
			star = "*"
		}
		tn := types.TypeString(t, func(*types.Package) string { return "" })
		if star != "" {
			return pk + ".(*" + tn + ")." + f.Name()
		}
		return pk + "." + tn + "." + f.Name()
	}
	return pk + "." + f.Name()
}

func (pr *program) inScope(p *types.Package) bool {
	if p == nil {
		return false
	}
	_, ok := pr.pkgs[p.Path()]
	return ok
}

func (pr *program) lookupFunc(name string) *lfunc {
	for _, f := range pr.flist {
		if f.name == name {
			return f
		}
	}
	refuse(token.NoPos, "function %s not found in the library packages", name)
	return nil
}

// relPos renders a position relative to the repository root (file:line).
func relPos(p token.Pos) string {
	pos := fset.Position(p)
	rel, err := filepath.Rel(repo, pos.Filename)
	if err != nil {
		rel = pos.Filename
	}
	return rel + ":" + itoa(pos.Line)
}

func itoa(n int) string {
	if n == 0 {
		return "0"
	}
	neg := n < 0
	if neg {
		n = -n
	}
	s := ""
	for n > 0 {
		s = string(rune('0'+n%10)) + s
		n /= 10
	}
	if neg {
		s = "-" + s
	}
	return s
}
