module mutgen

go 1.20
