// mutgen lists single-site source mutants of a Go file as JSON lines:
// {"file","start","end","repl","kind","line","orig"}.  The driver (bin/mutants) applies one at a time to a
// scratch clone of /repo, keeps those that still build and pass the repository's own tests, and runs the
// checks against them.  Used only to measure and improve the detection power of the checks.
package main

import (
	"encoding/json"
	"fmt"
	"go/ast"
	"go/parser"
	"go/token"
	"os"
	"strconv"
)

type Mut struct {
	File  string `json:"file"`
	Start int    `json:"start"`
	End   int    `json:"end"`
	Repl  string `json:"repl"`
	Kind  string `json:"kind"`
	Line  int    `json:"line"`
	Orig  string `json:"orig"`
}

var swaps = map[token.Token][]string{
	token.EQL: {"!="}, token.NEQ: {"=="}, token.LSS: {"<=", ">"}, token.LEQ: {"<"}, token.GTR: {">=", "<"}, token.GEQ: {">"},
	token.LAND: {"||"}, token.LOR: {"&&"}, token.ADD: {"-"}, token.SUB: {"+"}, token.MUL: {"/"}, token.QUO: {"*"},
}

func main() {
	path := os.Args[1]
	rel := os.Args[2]
	src, err := os.ReadFile(path)
	if err != nil {
		panic(err)
	}
	fset := token.NewFileSet()
	f, err := parser.ParseFile(fset, path, src, 0)
	if err != nil {
		panic(err)
	}
	enc := json.NewEncoder(os.Stdout)
	off := func(p token.Pos) int { return fset.Position(p).Offset }
	emit := func(s, e token.Pos, repl, kind string) {
		o := string(src[off(s):off(e)])
		if len(o) > 60 {
			o = o[:60] + "…"
		}
		enc.Encode(Mut{rel, off(s), off(e), repl, kind, fset.Position(s).Line, o})
	}
	ast.Inspect(f, func(n ast.Node) bool {
		switch x := n.(type) {
		case *ast.GenDecl:
			if x.Tok == token.CONST || x.Tok == token.IMPORT || x.Tok == token.TYPE {
				return false
			}
		case *ast.BinaryExpr:
			for _, r := range swaps[x.Op] {
				emit(x.OpPos, x.OpPos+token.Pos(len(x.Op.String())), r, "op:"+x.Op.String()+"->"+r)
			}
		case *ast.IfStmt:
			emit(x.Cond.Pos(), x.Cond.End(), "!("+string(src[off(x.Cond.Pos()):off(x.Cond.End())])+")", "if-negate")
			emit(x.Cond.Pos(), x.Cond.End(), "false", "if-false")
			if x.Else == nil {
				emit(x.Cond.Pos(), x.Cond.End(), "true", "if-true")
			}
		case *ast.BasicLit:
			if x.Kind == token.INT {
				if v, err := strconv.ParseInt(x.Value, 0, 64); err == nil && v < 1<<20 {
					emit(x.Pos(), x.End(), fmt.Sprint(v+1), "int+1")
					if v > 0 {
						emit(x.Pos(), x.End(), fmt.Sprint(v-1), "int-1")
					}
				}
			}
		case *ast.BlockStmt:
			for _, st := range x.List {
				switch s := st.(type) {
				case *ast.ExprStmt:
					emit(s.Pos(), s.End(), "", "del-call")
				case *ast.AssignStmt:
					if s.Tok != token.DEFINE {
						emit(s.Pos(), s.End(), "", "del-assign")
					}
				case *ast.IncDecStmt:
					emit(s.Pos(), s.End(), "", "del-incdec")
				case *ast.BranchStmt:
					if s.Tok == token.BREAK && s.Label == nil {
						emit(s.Pos(), s.End(), "continue", "break->continue")
					}
				}
			}
		case *ast.CaseClause:
			if len(x.List) > 1 {
				for i, e := range x.List {
					if i == 0 {
						emit(e.Pos(), x.List[1].Pos(), "", "case-drop")
					} else {
						emit(x.List[i-1].End(), e.End(), "", "case-drop")
					}
				}
			}
			for _, st := range x.Body {
				switch s := st.(type) {
				case *ast.ExprStmt:
					emit(s.Pos(), s.End(), "", "del-call")
				case *ast.AssignStmt:
					if s.Tok != token.DEFINE {
						emit(s.Pos(), s.End(), "", "del-assign")
					}
				}
			}
		case *ast.UnaryExpr:
			if x.Op == token.NOT {
				emit(x.OpPos, x.OpPos+1, "", "drop-not")
			}
		}
		return true
	})
}
